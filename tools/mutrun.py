#!/venv/bin/python
"""Run checks against a scratch copy of /repo with a patch applied (never touches /repo).

  tools/mutrun.py <patch.diff | rev:<commit>> <Cxx>[,Cyy...] [--tier quick|thorough] [--suite] [--keep]

rev:<commit> applies the REVERSE of that /repo commit (a fix: commit -> the defect comes back).
Prints one line per check:  <patch> <check> exit=<rc> <VIOLATION lines...>
--suite also runs the repository's own test suite on the patched copy (must stay green for a
seeded break to count).  The scratch copy lives under /tmp and is removed afterwards.
"""
import argparse, os, shutil, subprocess, sys, tempfile

ap = argparse.ArgumentParser()
ap.add_argument("patch")
ap.add_argument("checks")
ap.add_argument("--tier", default="quick")
ap.add_argument("--suite", action="store_true")
ap.add_argument("--keep", action="store_true")
ap.add_argument("--seed", default=None)
ap.add_argument("-v", action="store_true")
a = ap.parse_args()
scratch = tempfile.mkdtemp(prefix="vp-mut-")
try:
    subprocess.run("git -C /repo archive HEAD | tar -x -C %s" % scratch, shell=True, check=True)
    if a.patch.startswith("rev:"):
        for commit in a.patch[4:].split(","):  # several commits: newest first
            diff = subprocess.run(["git", "-C", "/repo", "show", commit], capture_output=True, check=True).stdout
            r = subprocess.run(["git", "apply", "-R", "-"], input=diff, cwd=scratch, capture_output=True)
            if r.returncode != 0:
                break
    elif a.patch == "none":
        r = subprocess.run(["true"], capture_output=True)
    else:
        r = subprocess.run(["git", "apply", os.path.abspath(a.patch)], cwd=scratch, capture_output=True)
    if r.returncode != 0:
        print("PATCH-FAILED", a.patch, r.stderr.decode()[-500:])
        sys.exit(4)
    env = dict(os.environ, VERIF_REPO=scratch, PYTHONPATH=os.path.join(scratch, "src"))
    if a.seed is not None:
        env["VERIF_SEED"] = a.seed
    if a.suite:
        t = subprocess.run(["/venv/bin/python", "-m", "pytest", "-q", "-p", "no:cacheprovider", "--timeout=900", "-x"],
                           cwd=scratch, env=env, capture_output=True, text=True)
        print(a.patch, "suite:", t.stdout.strip().splitlines()[-1] if t.stdout.strip() else t.stderr[-300:])
    # evidence/replays of the real tree must not be overwritten by a mutant run: work in a copy of /verif
    vcopy = os.path.join(scratch, "_verif")
    shutil.copytree("/verif", vcopy, ignore=shutil.ignore_patterns(".git", "evidence", "replays", "seeded", "notes", "__pycache__"))
    for c in a.checks.split(","):
        e2 = dict(env)
        e2.pop("PYTHONPATH")
        p = subprocess.run(["/venv/bin/python", "-m", "vp.run", c, "--tier", a.tier], cwd=vcopy, env=e2, capture_output=True, text=True)
        lines = [l for l in p.stdout.splitlines() if l.startswith(("VIOLATION", "KNOWN-FINDING", "INCONCLUSIVE", "RESULT", "HARNESS"))]
        print(a.patch, c, "exit=%d" % p.returncode, " | ".join(l[:160] for l in lines[:4]))
        if a.v:
            print(p.stdout[-3000:], p.stderr[-2000:])
finally:
    if not a.keep:
        shutil.rmtree(scratch, ignore_errors=True)
    else:
        print("kept", scratch)
