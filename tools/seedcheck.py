#!/venv/bin/python
"""Confirm a seeded break and run checks against it:  tools/seedcheck.py seeded/<dir> [checks] [--tier t]

1. scratch copy of /repo HEAD, patch applied (git apply, falling back to --3way-less fuzzy `patch -p1`)
2. repository suite on the patched copy must pass            -> suite_passes
3. demo.py must exit 1 on the patched copy and 0 on a clean one -> demo_fails_with / demo_passes_without
4. the named checks (default: the property in the dir name) run with VERIF_REPO=<patched copy>
Writes/updates seeded/<dir>/meta.json. Never touches /repo.
"""
import argparse, json, os, shutil, subprocess, sys, tempfile, time

ap = argparse.ArgumentParser()
ap.add_argument("dir")
ap.add_argument("checks", nargs="?", default=None)
ap.add_argument("--tier", default="quick")
ap.add_argument("--skip-confirm", action="store_true")
a = ap.parse_args()
d = os.path.abspath(a.dir)
name = os.path.basename(d)
prop = name.split("-")[0]
checks = (a.checks or prop).split(",")
meta_path = os.path.join(d, "meta.json")
meta = json.load(open(meta_path)) if os.path.exists(meta_path) else {"property": prop}
PY = "/venv/bin/python"
if meta.get("superseded_by_fix"):
    print(name, "SUPERSEDED by fix", meta["superseded_by_fix"], "- no longer breaks the property on the repaired tree; skipped")
    sys.exit(0)


def copy_repo():
    s = tempfile.mkdtemp(prefix="vp-seed-")
    subprocess.run("git -C /repo archive HEAD | tar -x -C %s" % s, shell=True, check=True)
    return s


clean = copy_repo()
mut = copy_repo()
try:
    r = subprocess.run(["git", "apply", os.path.join(d, "patch.diff")], cwd=mut, capture_output=True, text=True)
    if r.returncode != 0:
        r = subprocess.run(["patch", "-p1", "-i", os.path.join(d, "patch.diff")], cwd=mut, capture_output=True, text=True)
    if r.returncode != 0:
        print(name, "PATCH-FAILED", (r.stdout + r.stderr)[-400:])
        sys.exit(4)
    envm = dict(os.environ, PYTHONPATH=os.path.join(mut, "src"), PYTHONHASHSEED="0")
    envc = dict(os.environ, PYTHONPATH=os.path.join(clean, "src"), PYTHONHASHSEED="0")
    if not a.skip_confirm:
        t = subprocess.run([PY, "-m", "pytest", "-q", "-p", "no:cacheprovider", "--timeout=900"], cwd=mut, env=envm, capture_output=True, text=True)
        last = t.stdout.strip().splitlines()[-1] if t.stdout.strip() else t.stderr[-200:]
        meta["suite_passes_with_patch"] = (t.returncode == 0)
        meta["suite_summary"] = last
        dm = subprocess.run([PY, os.path.join(d, "demo.py")], cwd=mut, env=envm, capture_output=True, text=True, timeout=600)
        dc = subprocess.run([PY, os.path.join(d, "demo.py")], cwd=clean, env=envc, capture_output=True, text=True, timeout=600)
        meta["demo_exit_with_patch"] = dm.returncode
        meta["demo_exit_without_patch"] = dc.returncode
        meta["confirmed"] = bool(t.returncode == 0 and dm.returncode == 1 and dc.returncode == 0)
        meta["base_commit"] = subprocess.run(["git", "-C", "/repo", "log", "--format=%h", "-1"], capture_output=True, text=True).stdout.strip()
        print(name, "suite:", last, "| demo with patch exit", dm.returncode, "| without", dc.returncode, "| confirmed", meta["confirmed"])
    vcopy = os.path.join(mut, "_verif")
    shutil.copytree("/verif", vcopy, ignore=shutil.ignore_patterns(".git", "evidence", "replays", "seeded", "notes", "__pycache__"))
    res = meta.setdefault("checks", {})
    for c in checks:
        e2 = dict(os.environ, VERIF_REPO=mut)
        t0 = time.time()
        p = subprocess.run([PY, "-m", "vp.run", c, "--tier", a.tier], cwd=vcopy, env=e2, capture_output=True, text=True)
        viol = [l for l in p.stdout.splitlines() if l.startswith("VIOLATION")]
        keys = [l.strip()[:200] for l in p.stdout.splitlines() if l.startswith("  key=")]
        res["%s/%s" % (c, a.tier)] = {"exit": p.returncode, "violations": len(viol), "first_keys": keys[:3], "wall_s": round(time.time() - t0, 1)}
        print(name, c, a.tier, "exit=%d" % p.returncode, "violations=%d" % len(viol), (keys[0][:150] if keys else ""), "" if p.returncode in (0, 1) else (p.stdout[-300:] + p.stderr[-300:]).replace("\n", " | "))
    json.dump(meta, open(meta_path, "w"), indent=1)
finally:
    shutil.rmtree(clean, ignore_errors=True)
    shutil.rmtree(mut, ignore_errors=True)
