#!/venv/bin/python
"""Every seeded change against every check (quick tier):  tools/crossmatrix.py [--jobs n] [--only C05-3,C07-1] [--out f]

A gauge, not a check.  Two questions the per-property runs (tools/seedcheck.py) do not answer:
  * does any check *crash or go inconclusive* (exit 2 / 3) on a tree that breaks some other property?  A harness
    that dies on a perturbed tree decides nothing there - such cells are harness defects to repair;
  * which sibling checks also see a change (recorded for DESIGN.md 9.5; a sibling alarm is never required).
Each seeded change gets one scratch copy of /repo HEAD (removed afterwards); /repo itself is never touched.
Writes seeded/CROSSMATRIX.json: {seed: {check: exit}} and the list of cells with exit not in (0, 1).
"""
import argparse, json, os, shutil, subprocess, sys, tempfile
from concurrent.futures import ThreadPoolExecutor

ap = argparse.ArgumentParser()
ap.add_argument("--jobs", type=int, default=8)
ap.add_argument("--only", default="")
ap.add_argument("--checks", default="")
ap.add_argument("--out", default="/verif/seeded/CROSSMATRIX.json")
a = ap.parse_args()
PY = "/venv/bin/python"
CHECKS = a.checks.split(",") if a.checks else ["C%02d" % i for i in range(1, 21)]
seeds = sorted(d for d in os.listdir("/verif/seeded") if os.path.isfile("/verif/seeded/%s/patch.diff" % d) and "superseded_by_fix" not in open("/verif/seeded/%s/meta.json" % d).read())
if a.only:
    seeds = [s for s in seeds if s in a.only.split(",")]


def one(seed):
    d = "/verif/seeded/" + seed
    mut = tempfile.mkdtemp(prefix="vp-cross-")
    row = {}
    try:
        subprocess.run("git -C /repo archive HEAD | tar -x -C %s" % mut, shell=True, check=True)
        r = subprocess.run(["git", "apply", os.path.join(d, "patch.diff")], cwd=mut, capture_output=True, text=True)
        if r.returncode != 0:
            r = subprocess.run(["patch", "-p1", "-i", os.path.join(d, "patch.diff")], cwd=mut, capture_output=True, text=True)
        if r.returncode != 0:
            return seed, {"_patch": "failed"}, []
        vcopy = os.path.join(mut, "_verif")
        shutil.copytree("/verif", vcopy, ignore=shutil.ignore_patterns(".git", "evidence", "replays", "seeded", "notes", "mutants", "benign", "__pycache__"))
        odd = []
        for c in CHECKS:
            e2 = dict(os.environ, VERIF_REPO=mut, PYTHONHASHSEED="0")
            try:
                p = subprocess.run([PY, "-m", "vp.run", c, "--tier", "quick"], cwd=vcopy, env=e2, capture_output=True, text=True, timeout=1800)
                row[c] = p.returncode
                if p.returncode not in (0, 1):
                    odd.append({"seed": seed, "check": c, "exit": p.returncode, "tail": (p.stdout[-500:] + " || " + p.stderr[-700:])})
            except subprocess.TimeoutExpired:
                row[c] = "timeout"
                odd.append({"seed": seed, "check": c, "exit": "timeout", "tail": ""})
        return seed, row, odd
    finally:
        shutil.rmtree(mut, ignore_errors=True)


matrix, odd_all = {}, []
with ThreadPoolExecutor(a.jobs) as ex:
    for seed, row, odd in ex.map(one, seeds):
        matrix[seed] = row
        odd_all += odd
        own = seed.split("-")[0]
        print(seed, "own=%s" % row.get(own), "siblings:", ",".join(c for c, x in row.items() if x == 1 and c != own) or "-", "ODD:" + ",".join("%s=%s" % (o["check"], o["exit"]) for o in odd) if odd else "", flush=True)
json.dump({"matrix": matrix, "odd_cells": odd_all}, open(a.out, "w"), indent=1)
print("seeds", len(matrix), "odd cells", len(odd_all))
sys.exit(0)
