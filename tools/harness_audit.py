#!/venv/bin/python
"""Which exceptions are *raised by the harness's own lines*?   tools/harness_audit.py C15 [C16 ...] [--tier quick]

A check that compares two outcomes (warm / fresh, legacy / current, form A / form B) is blind to a mistake in its own
call: a wrong signature or a misspelt attribute raises the same exception on both sides and the pair "agrees".
This gauge runs shard 0 of a check in-process with a sys.monitoring RAISE callback and lists every exception whose
raising frame is a line of /verif/vp (a call-signature TypeError is raised at the call site, i.e. on the harness's
line; so is an AttributeError for a method the object does not have). Each group is then read by hand: either the
operation is legitimately unsupported (Quantity has no CreateCopy, Arrays cannot be pickled) or the harness is wrong.
Not a check; prints a listing.
"""
import collections
import os
import sys

sys.path.insert(0, "/verif")
os.environ.setdefault("PYTHONHASHSEED", "0")

from vp import env, verdict  # noqa: E402
from vp.run import _load  # noqa: E402

args = [a for a in sys.argv[1:] if not a.startswith("--")]
tier = "quick"
if "--tier" in sys.argv:
    tier = sys.argv[sys.argv.index("--tier") + 1]
    args = [a for a in args if a != tier]

GROUPS = collections.Counter()
mon = sys.monitoring
TOOL = mon.DEBUGGER_ID


def on_raise(code, offset, exc):
    fn = code.co_filename
    if "/vp/" not in fn:
        return
    tb = exc.__traceback__
    # only where the exception *originates* on this line (no deeper frame)
    if tb is not None and tb.tb_next is not None:
        return
    line = tb.tb_lineno if tb is not None else -1
    GROUPS[(os.path.relpath(fn, "/verif"), line, type(exc).__name__, str(exc)[:90])] += 1


mon.use_tool_id(TOOL, "harness_audit")
mon.register_callback(TOOL, mon.events.RAISE, on_raise)
mon.set_events(TOOL, mon.events.RAISE)

env.setup()
for prop in args:
    GROUPS.clear()
    mod = _load(prop.upper())
    n = getattr(mod, "SHARDS", {}).get(tier, 1)
    ctx = verdict.Context(prop.upper(), tier, 0, n)
    try:
        mod.run(ctx)
    except BaseException as e:  # noqa
        print(prop, "run() raised", repr(e)[:200])
    print("== %s (shard 0/%d): %d groups of exceptions raised on harness lines" % (prop, n, len(GROUPS)))
    for (fn, line, typ, msg), k in sorted(GROUPS.items(), key=lambda kv: -kv[1])[:60]:
        if typ in ("Degenerate", "EvalError", "Skip", "StopIteration", "GeneratorExit"):
            continue
        print("  %6d  %s:%d  %s: %s" % (k, fn, line, typ, msg))
