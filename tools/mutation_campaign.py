#!/venv/bin/python
"""Automatic mutation campaign: how many small source changes that the repository's own tests do NOT
notice are noticed by the 20 quick checks?

  tools/mutation_campaign.py --n 200 --seed 1 --out /tmp/mut-report.jsonl [--files a.py,b.py] [--jobs 12]

For each sampled mutant (one AST-level edit of one file under src/barril, tests excluded):
  1. a scratch copy of /repo HEAD gets the mutated file            (never touches /repo)
  2. the repository suite runs on it; a mutant the suite kills is dropped ("killed by tests")
  3. otherwise all quick checks run against the copy (VERIF_REPO), several at a time; the first
     VIOLATION line stops the rest. exit 1 = caught, all exit 0 = SURVIVOR, else inconclusive.
Survivors are written with their diff for manual triage (equivalent mutant / outside every property /
genuine gap).  This is a gauge of the monitors, not a check: nothing here is registered in MANIFEST.json.
"""
import argparse
import ast
import copy
import difflib
import json
import os
import random
import shutil
import subprocess
import sys
import tempfile
import time

PY = "/venv/bin/python"
CHECKS = ["C%02d" % i for i in range(1, 21)]
SRC_FILES = [
    "units/unit_database.py", "units/_quantity.py", "units/_scalar.py", "units/_array.py", "units/_fixedarray.py", "units/_fraction_scalar.py",
    "units/_abstractvaluewithquantity.py", "units/_value_generator.py", "units/unit_system.py", "units/unit_system_manager.py", "units/__init__.py",
    "basic/fraction/_fraction.py", "basic/fraction/_fraction_value.py", "curve/curve.py", "units/scalar_validation/scalar_min_max_validator.py",
    "basic/format_float/__init__.py", "_util/types_.py",
]  # fmt: skip
CMP = {ast.Lt: ast.LtE, ast.LtE: ast.Lt, ast.Gt: ast.GtE, ast.GtE: ast.Gt, ast.Eq: ast.NotEq, ast.NotEq: ast.Eq, ast.Is: ast.IsNot, ast.IsNot: ast.Is, ast.In: ast.NotIn, ast.NotIn: ast.In}
BIN = {ast.Add: ast.Sub, ast.Sub: ast.Add, ast.Mult: ast.Div, ast.Div: ast.Mult, ast.FloorDiv: ast.Div, ast.Mod: ast.Mult, ast.Pow: ast.Mult}
COPIERS = {"list", "dict", "tuple", "deepcopy", "copy", "OrderedDict", "set", "sorted"}


def number(tree):
    """pre-order numbering shared by site collection and application."""
    out = {}
    n = 0
    for node in ast.walk(tree):
        out[id(node)] = n
        node._mid = n
        n += 1
    return out


def collect_sites(tree):
    number(tree)
    sites = []
    for node in ast.walk(tree):
        mid = node._mid
        if isinstance(node, ast.Compare) and len(node.ops) == 1 and type(node.ops[0]) in CMP:
            sites.append(("cmp", mid))
        elif isinstance(node, ast.BinOp) and type(node.op) in BIN and not (isinstance(node.op, ast.Mod) and isinstance(node.left, ast.Constant) and isinstance(node.left.value, str)):
            sites.append(("bin", mid))
        elif isinstance(node, ast.BoolOp):
            sites.append(("bool", mid))
        elif isinstance(node, ast.UnaryOp) and isinstance(node.op, ast.Not):
            sites.append(("not", mid))
        elif isinstance(node, ast.If):
            sites.append(("ifnot", mid))
            if node.orelse:
                sites.append(("dropelse", mid))
        elif isinstance(node, ast.Constant) and isinstance(node.value, bool):
            sites.append(("boolconst", mid))
        elif isinstance(node, ast.Constant) and isinstance(node.value, (int, float)):
            sites.append(("const", mid))
        elif isinstance(node, (ast.Expr, ast.Assign, ast.AugAssign, ast.Raise, ast.Delete)) and not (isinstance(node, ast.Expr) and isinstance(node.value, ast.Constant)):
            sites.append(("delstmt", mid))
        elif isinstance(node, ast.Call) and isinstance(node.func, (ast.Name, ast.Attribute)) and len(node.args) == 1 and not node.keywords:
            name = node.func.id if isinstance(node.func, ast.Name) else node.func.attr
            if name in COPIERS:
                sites.append(("uncopy", mid))
        elif isinstance(node, ast.Subscript) and isinstance(node.slice, ast.Slice) and node.slice.lower is None and node.slice.upper is None and node.slice.step is None:
            sites.append(("unslice", mid))
        elif isinstance(node, ast.Return) and isinstance(node.value, ast.Tuple) and len(node.value.elts) == 2:
            sites.append(("retarg", mid))
    return sites


def apply_site(tree, kind, mid, rng):
    """returns (new tree, description) - edits a deep copy."""
    t = copy.deepcopy(tree)
    number(t)
    target = None
    parent_of = {}
    for p in ast.walk(t):
        for ch in ast.iter_child_nodes(p):
            parent_of[id(ch)] = p
    for node in ast.walk(t):
        if node._mid == mid:
            target = node
            break
    if target is None:
        return None, None
    desc = "%s at line %s" % (kind, getattr(target, "lineno", "?"))

    def replace(old, new):
        p = parent_of[id(old)]
        for f, v in ast.iter_fields(p):
            if v is old:
                setattr(p, f, new)
                return True
            if isinstance(v, list):
                for i, x in enumerate(v):
                    if x is old:
                        v[i] = new
                        return True
        return False

    k = kind
    if k == "cmp":
        target.ops = [CMP[type(target.ops[0])]()]
    elif k == "bin":
        target.op = BIN[type(target.op)]()
    elif k == "bool":
        target.op = ast.Or() if isinstance(target.op, ast.And) else ast.And()
    elif k == "not":
        replace(target, target.operand)
    elif k == "ifnot":
        target.test = ast.UnaryOp(op=ast.Not(), operand=target.test)
    elif k == "dropelse":
        target.orelse = []
    elif k == "const":
        v = target.value
        target.value = rng.choice([v + 1, v - 1, 0 if v else 1, -v if v else 2, v * 10 if isinstance(v, float) else v + 2])
        desc += " (%r -> %r)" % (v, target.value)
    elif k == "boolconst":
        target.value = not target.value
    elif k == "delstmt":
        replace(target, ast.Pass())
    elif k == "uncopy":
        replace(target, target.args[0])
    elif k == "unslice":
        replace(target, target.value)
    elif k == "retarg":
        target.value.elts = target.value.elts[::-1]
    ast.fix_missing_locations(t)
    return t, desc


def run_suite(scratch):
    env = dict(os.environ, PYTHONPATH=os.path.join(scratch, "src"), PYTHONHASHSEED="0")
    try:
        p = subprocess.run([PY, "-m", "pytest", "-x", "-q", "-p", "no:cacheprovider", "--timeout=120"], cwd=scratch, env=env, capture_output=True, text=True, timeout=600)
    except subprocess.TimeoutExpired:
        return False, "suite timed out"
    last = p.stdout.strip().splitlines()[-1] if p.stdout.strip() else p.stderr[-200:]
    return p.returncode == 0, last


def run_checks(scratch, verif, jobs, checks):
    env = dict(os.environ, VERIF_REPO=scratch)
    pending = list(checks)
    running = []
    results = {}
    caught_by = None
    while pending or running:
        while pending and len(running) < jobs and caught_by is None:
            c = pending.pop(0)
            out = tempfile.NamedTemporaryFile("w+", delete=False, suffix=".log")
            running.append((c, subprocess.Popen([PY, "-m", "vp.run", c, "--tier", "quick", "--shards", "2"], cwd=verif, env=env, stdout=out, stderr=subprocess.STDOUT), out, time.time()))
        time.sleep(0.3)
        for item in list(running):
            c, p, out, t0 = item
            rc = p.poll()
            if rc is None and time.time() - t0 > 900:
                p.kill()
                rc = -9
            if rc is None:
                continue
            running.remove(item)
            out.flush()
            out.seek(0)
            text = out.read()
            out.close()
            os.unlink(out.name)
            keys = [l.strip()[:160] for l in text.splitlines() if l.startswith("  key=")]
            results[c] = {"exit": rc, "first_key": keys[0] if keys else None}
            if rc == 1 and caught_by is None:
                caught_by = c
        if caught_by is not None:
            for c, p, out, t0 in running:
                p.kill()
                p.wait()
                out.close()
                os.unlink(out.name)
            running = []
            pending = []
    return caught_by, results


def main():
    ap = argparse.ArgumentParser()
    ap.add_argument("--n", type=int, default=100)
    ap.add_argument("--seed", type=int, default=1)
    ap.add_argument("--out", default="/tmp/mut-report.jsonl")
    ap.add_argument("--files", default=None)
    ap.add_argument("--jobs", type=int, default=8)
    ap.add_argument("--repo", default="/repo")
    ap.add_argument("--checks", default=None)
    a = ap.parse_args()
    rng = random.Random(a.seed)
    verif = os.path.dirname(os.path.dirname(os.path.abspath(__file__)))
    files = a.files.split(",") if a.files else SRC_FILES
    checks = a.checks.split(",") if a.checks else CHECKS
    base = tempfile.mkdtemp(prefix="vp-mutc-")
    subprocess.run("git -C %s archive HEAD | tar -x -C %s" % (a.repo, base), shell=True, check=True)
    # a private copy of /verif so that evidence / replays of the campaign do not land in /verif
    vcopy = os.path.join(base, "_verif")
    shutil.copytree(verif, vcopy, ignore=shutil.ignore_patterns(".git", "evidence", "replays", "seeded", "notes", "__pycache__"))
    pool = []
    parsed = {}
    for f in files:
        path = os.path.join(base, "src", "barril", f)
        src = open(path).read()
        tree = ast.parse(src)
        parsed[f] = (src, tree)
        for kind, mid in collect_sites(tree):
            pool.append((f, kind, mid))
    # balance the sample over mutation kinds (statement deletions would otherwise dominate)
    by_kind = {}
    for item in pool:
        by_kind.setdefault(item[1], []).append(item)
    for v in by_kind.values():
        rng.shuffle(v)
    pool = []
    kinds = sorted(by_kind)
    while any(by_kind.values()):
        for k in kinds:
            if by_kind[k]:
                pool.append(by_kind[k].pop())
    stats = {"sampled": 0, "unparsable": 0, "killed_by_tests": 0, "caught": 0, "survived": 0, "inconclusive": 0}
    with open(a.out, "a") as rep:
        for f, kind, mid in pool:
            if stats["sampled"] >= a.n:
                break
            src, tree = parsed[f]
            t, desc = apply_site(tree, kind, mid, rng)
            if t is None:
                continue
            try:
                new_src = ast.unparse(t)
                compile(new_src, f, "exec")
            except Exception:
                stats["unparsable"] += 1
                continue
            ref_src = ast.unparse(tree)
            if new_src == ref_src:
                continue
            stats["sampled"] += 1
            path = os.path.join(base, "src", "barril", f)
            diff = "".join(difflib.unified_diff(ref_src.splitlines(True), new_src.splitlines(True), "a/" + f, "b/" + f, n=2))
            open(path, "w").write(new_src)
            try:
                ok, last = run_suite(base)
                rec = {"file": f, "mutation": desc, "diff": diff[:3000], "suite": last}
                if not ok:
                    stats["killed_by_tests"] += 1
                    rec["verdict"] = "killed_by_tests"
                else:
                    caught_by, results = run_checks(base, vcopy, a.jobs, checks)
                    rec["checks"] = results
                    if caught_by:
                        stats["caught"] += 1
                        rec["verdict"] = "caught"
                        rec["caught_by"] = caught_by
                    elif all(r["exit"] == 0 for r in results.values()) and len(results) == len(checks):
                        stats["survived"] += 1
                        rec["verdict"] = "SURVIVED"
                    else:
                        stats["inconclusive"] += 1
                        rec["verdict"] = "inconclusive"
                rep.write(json.dumps(rec) + "\n")
                rep.flush()
                print("%-16s %-44s %-30s %s" % (rec["verdict"], f, desc, rec.get("caught_by", "")), flush=True)
            finally:
                open(path, "w").write(src)
    print("STATS", json.dumps(stats))
    shutil.rmtree(base, ignore_errors=True)


if __name__ == "__main__":
    main()
