#!/venv/bin/python
"""Is a seeded change caught whatever the PRNG seed?   tools/seedrobust.py [--seeds 1,2,3] [--jobs 4] [--only C11-7,...]

A gauge. tools/seedcheck.py confirms each seeded change against its own check with VERIF_SEED=0; a catch that depends on
that one seed (an address that happened to be reused, a random pair that happened to be drawn) is luck, not a monitor.
Every seeded change is run against the quick tier of its own check with other seeds; the cells with exit 0 are listed
(and written to seeded/ROBUSTNESS.json) so that the check can be given a deterministic route to the mechanism.
"""
import argparse, json, os, shutil, subprocess, sys, tempfile
from concurrent.futures import ThreadPoolExecutor

ap = argparse.ArgumentParser()
ap.add_argument("--seeds", default="1,2,3")
ap.add_argument("--jobs", type=int, default=4)
ap.add_argument("--only", default="")
a = ap.parse_args()
PY = "/venv/bin/python"
SEEDS = a.seeds.split(",")
names = sorted(d for d in os.listdir("/verif/seeded") if os.path.isfile("/verif/seeded/%s/patch.diff" % d) and "superseded_by_fix" not in open("/verif/seeded/%s/meta.json" % d).read())
if a.only:
    names = [s for s in names if s in a.only.split(",")]


def one(name):
    d = "/verif/seeded/" + name
    prop = name.split("-")[0]
    mut = tempfile.mkdtemp(prefix="vp-rob-")
    try:
        subprocess.run("git -C /repo archive HEAD | tar -x -C %s" % mut, shell=True, check=True)
        r = subprocess.run(["git", "apply", os.path.join(d, "patch.diff")], cwd=mut, capture_output=True, text=True)
        if r.returncode != 0:
            r = subprocess.run(["patch", "-p1", "-i", os.path.join(d, "patch.diff")], cwd=mut, capture_output=True, text=True)
        if r.returncode != 0:
            return name, {"_patch": "failed"}
        vcopy = os.path.join(mut, "_verif")
        shutil.copytree("/verif", vcopy, ignore=shutil.ignore_patterns(".git", "evidence", "replays", "seeded", "notes", "mutants", "benign", "__pycache__"))
        row = {}
        for s in SEEDS:
            e2 = dict(os.environ, VERIF_REPO=mut, VERIF_SEED=s, PYTHONHASHSEED="random" if s != "0" else "0")
            p = subprocess.run([PY, "-m", "vp.run", prop, "--tier", "quick"], cwd=vcopy, env=e2, capture_output=True, text=True, timeout=3600)
            row[s] = p.returncode
        return name, row
    finally:
        shutil.rmtree(mut, ignore_errors=True)


out, weak = {}, []
with ThreadPoolExecutor(a.jobs) as ex:
    for name, row in ex.map(one, names):
        out[name] = row
        bad = [s for s, rc in row.items() if rc != 1]
        if bad:
            weak.append(name)
        print(name, row, "<-- NOT CAUGHT with seed(s) %s" % ",".join(bad) if bad else "", flush=True)
json.dump({"seeds": SEEDS, "results": out, "not_caught_for_some_seed": weak}, open("/verif/seeded/ROBUSTNESS.json", "w"), indent=1)
print("seeded changes:", len(out), "fragile:", weak)
