check(
    "C01",
    "runtime monitoring: exhaustive unit-pair sweep of the real databases under API probes; round-trip / path / monotonicity oracle with running float-error scale",
    "Held on every ordered unit pair (and, thorough, every triple) of all three self-built databases for a hostile + seeded value set: identity exact for floats, ints, lists, tuples, float/int ndarrays and FractionValue on every unit, round trip, path independence, monotonicity, the (unit, 1) list/tuple overload against the string form, and a history-independence pass (a sample of pairs asked again after the sweep and after the same labels went through the Unknown type must answer bit for bit like a fresh database). Exhaustive in the table dimension, sampled in the value dimension.",
    "Trusts CPython float arithmetic and the error-scale analysis (K=16 x 2^-53 x magnitude of offsets and scaled value); coefficients are read observationally through the conversion functions.",
    "4/C01",
)
check(
    "C02",
    "runtime monitoring: differential route monitor - every public conversion route observed on the real objects and compared element-wise with the database's float conversion",
    "Held for every category x (default unit <-> every unit) + random pairs (thorough: all pairs up to 40x40 per category) x ~40 routes x container kinds and lengths; category/type/unit of re-expressed objects and own-unit identity (simple and derived) checked on the returned objects.",
    "Reference is UnitDatabase.Convert on floats observed in the same run (C01 vouches for it); tolerance is the running float error scale; routes not in the list are not covered.",
    "4/C02",
)
check(
    "C03",
    "runtime monitoring: random same-dimension operand pairs executed on real Scalars/Arrays, results compared with an executable dimensional-analysis reference model + metamorphic relations",
    "Held on tens of thousands of generated operand pairs (derived, mixed units/categories, offset units at exponents != 1, CreateDerived leaves, 9 container combinations) for a+b, a-b, b+a, b-a, (a+b)-b and UnitDatabase.Sum/Subtract.",
    "Model: value x prod(slope^exp) in exact rationals; slopes read observationally; relative tolerance 1e-11 x operations; offsets only at exponent 1 of simple quantities.",
    "4/C03",
)
check(
    "C04",
    "runtime monitoring: random expression trees executed on real Scalars/Arrays/Quantities and compared node by node with an executable dimensional-analysis reference model + metamorphic relations",
    "Held at every operator node of tens of thousands of random trees (* / // **n, depth <= 4, Scalars and Arrays in three container kinds): exponents per quantity type, zero exponents absent, base magnitude, flooring; a*b~b*a, (a*b)/b~a, a/a dimensionless, Quantity-level operators agree.",
    "Scale-only units, non-zero finite values; model in exact rationals with relative tolerance 1e-11 x (2 + operations).",
    "4/C04",
)
check(
    "C05",
    "runtime monitoring: outcome monitor (must raise, never return) over an exhaustive category x foreign-unit sweep and generated incompatible operand pairs, operand/registry snapshots around failing calls, differential histories with vs without the failing calls",
    "Held for every category x (look-alike units + rotating selection; thorough: all 1548 units) x 35 creation/conversion entry points, + - and ordering on simple and derived incompatible pairs (Scalar, Array container mixes, FixedArray, FractionScalar, Quantity, UnitDatabase.Sum/Subtract, both orders), and differential histories on twin databases.",
    "'units/type error' is read as an exception derived from UnitsError, TypeError or ValueError; dimensionless operands and 'Unknown' are exempt as the statement says; the source side of a conversion is always valid.",
    "4/C05",
)
check(
    "C06",
    "runtime monitoring: exhaustive sweep of the live table - factors observed through the real conversion functions (both directions) and through Scalar arithmetic, judged by a unit-symbol grammar oracle with written-precision tolerance",
    "Exhaustive over the 1548 rows of the shipped table: ~930 decomposable rows compared (single-slash grammar plus multi-slash symbols read left to right with registered compound pieces; both conversion directions + dynamic composition with barril's own arithmetic), 141 SI-prefixed atomic rows; 57 rows with a temperature among their parts are compared as intervals (slopes) and every compound row must map zero to zero; 38 inconsistent rows are listed as known findings keyed by row and wrong ratio.",
    "Tolerance = 16 x the precision the row is written in (calibrated: empty gap between ratio 15 and 647 on the pinned table; large integer literals keep their trailing zeros as digits) with a float-noise floor of 1e-9; single units with a zero point of their own, symbols the grammar cannot read and ambiguous F/C factors are skipped, never alarmed on; rows with a temperature among their parts are judged through the table only (not through Scalar arithmetic, where degC is a temperature, not an interval).",
    "4/C06",
)
check(
    "C07",
    "runtime monitoring: invariant monitor - every Quantity constructed (enrolled from a probe on Quantity.__init__) and every cache value re-fingerprinted after every step of hostile generated histories; ==/hash partition and cache-soundness oracles per history",
    "Held on hundreds (thorough: tens of thousands) of 60-80 step histories mixing creation in every form, Scalar/Array/Quantity arithmetic with differing units and categories, conversions, failed operations, copies and pickles on a fresh POSC database; ~0.5 M fingerprint/pair comparisons per quick run.",
    "Only public getters, hash, repr and the public quantities_cache attribute are read; vandalism through private attributes is out of scope (a caller editing the dict it handed to a request is in scope and exercised).",
    "4/C07",
)
check(
    "C08",
    "runtime monitoring: coherence oracle over the 8 order-operator results per operand pair (ulp-adjacent, physically equal amounts in different units, differently split fractions) + exhaustive pairwise equality sweep over a pool of all nine value classes",
    "Held for every quantity type x unit pairs (quick 30 per type, thorough all) x adversarial values for Scalar and FractionScalar, agreement with the exact rational order beyond the float error scale, TypeError across types; == / != totality, reflexivity, symmetry, negation and hash consistency on ~3600 ordered pairs per pool, pools re-drawn per seed.",
    "One-dimensional containers; numpy objects are not used as the foreign operand of ==.",
    "4/C08",
)
check(
    "C09",
    "runtime monitoring: reference-model monitor on the ten number-operand operator forms executed on real Scalars/Arrays/FixedArrays (class, quantity and exact value oracle)",
    "Held for simple, derived and empty quantities x list/tuple/ndarray x lengths 0..4 x 20 python/numpy scalar kinds (bools, numpy ints incl. unsigned and int8(-128), float32/float64, zeros, ones) and float64/int64/bool/object/0-d/one-element/masked ndarrays x ten forms in both operand orders: result class, quantity (reciprocal for k/x, k//x), values equal to the Python/numpy operation exactly.",
    "float32 operands are accepted in either precision (numpy's promotion rule decides it); complex numbers are excluded; 0-d arrays count as numbers on either side of a Scalar; a Scalar met by an ndarray of several numbers is observed and listed as a known finding (two outcomes keyed by side), any other outcome alarms; narrow unsigned numpy integers only against float-valued x (numpy itself refuses them next to negative Python ints).",
    "4/C09",
)
check(
    "C10",
    "runtime monitoring: differential monitor - Array operator results (9 container combinations) against the same operation on the corresponding Scalars, element by element",
    "Held on generated operand pairs (derived, differing units/categories, CreateDerived leaves) x 5 operators x 9 container combinations x lengths {0,1,2,3,7} incl. mismatched lengths (must raise), raise/no-raise agreement, result quantity and container rule; FromScalars / GetValues(unit) against Scalar.GetValue.",
    "Scalar operators are the reference (C03/C04 vouch for them); 4 ulp tolerance; one-dimensional non-ragged containers.",
    "4/C10",
)
check(
    "C11",
    "runtime monitoring: size-invariant monitor (every result + gc sweep of all live FixedArray/Curve instances) over generated construction routes, operation chains and Curve set-call histories; accept/refuse outcome predicted by a small reference model; ChangingIndex/IndexAsScalar against the database's float conversion",
    "Held for 18 construction routes x dimension 0..6 x 4 container kinds x length 0..7 (accept iff d>=2 and len==d, refusal is ValueError, caller container/source untouched), chains of 1-6 copy/arithmetic/ChangingIndex/pickle steps with refused attempts interleaved (dimension kept), ChangingIndex in 8 amount forms x use_value_unit (only the given index differs, quantity rule, source untouched), IndexAsScalar, and Curve histories of 1-20 set calls (lengths always equal, refused calls change nothing).",
    "One-dimensional containers and int dimensions; conversion reference is the database's own float conversion with the running error scale; an out-of-range index may raise any exception.",
    "4/C11",
)
check(
    "C12",
    "runtime monitoring: reference-verdict monitor on a private database with one category per limit configuration - IsValid/CheckValidity/CheckValueForCategory/validator messages of real Scalars, FractionScalars and Arrays (all permutations x container kinds, repeated calls) compared with the limits applied to the database's own float conversion; invariant checks after every accepted random AddCategory",
    "Held for 7 (type, default unit) x 8 limit pairs x exclusivity flags (incl. one affine type and one custom decreasing unit) x every listed unit x hostile amounts (exact boundaries, +-1 ulp, +-inf, NaN): verdict, repeatability, CheckValidity agreement, rejection report fields, equality of Array verdict with the conjunction of the element Scalars for every permutation and container; thousands of random AddCategory keyword tuples: accepted ones have a default unit inside type and valid units, default value inside own limits, valid default objects.",
    "Reference conversion is UnitDatabase.Convert (C01/C02); amounts within float noise of a limit but not equal to it may get either verdict (consistently); NaN limits/defaults are outside the quantifier.",
    "4/C12",
)
check(
    "C13",
    "runtime monitoring: operand-frozen monitor - deep snapshots (container contents, fraction parts) of every operand around every boundary call and of every pool member plus its caller-owned container after every step of random operation histories; copy/pickle equality oracle field by field",
    "Held on hundreds (thorough: thousands) of 150-250 step histories over pools of ~45 objects of every class and container kind (simple, derived with exponents != 1, empty, unknown with/without caption; list/tuple/float and int ndarray/list of tuples): arithmetic in both operand orders, comparisons, conversions through 7 entry points, validation, formatting, copies, pickles, ChangingIndex, FromScalars, ChangeScalars, Curve; copy/deepcopy/CreateCopy()/pickle results equal and field-identical to the original.",
    "Explicit setters and class-level configuration are not operations on operands; result/operand aliasing is not flagged; no NaN in pools.",
    "4/C13",
)
check(
    "C14",
    "runtime monitoring: registration histories (bounded-exhaustive over a fixed alphabet of concrete calls + random) executed on fresh real UnitDatabases and compared step by step with an executable reference model of the documented registration rules; well-formedness invariants evaluated through the public getters after every step; snapshot equality across rejected calls; exhaustive invariant sweep of the shipped databases",
    "Held for every sequence up to depth 3 (thorough 4) over 33 concrete calls (+ 84 scripted name-clash histories) (duplicates, second bases, overrides, from_category, legacy spellings, limits, invalid arguments, categories named like another quantity type) and thousands of random 5-25 call histories: accept/reject, unit order, default unit/value, limits and valid units as the model predicts; I1 one type per unit, I2 identity base first, I3 category units drawn from the type and default value inside limits, I4 valid Scalars for every category/unit, I5 rejected calls change nothing; I1-I4 for all units/categories of the three shipped databases.",
    "A unit registered under a legacy-spelled symbol is part of the alphabet (it must convert with its own functions); a type without any base is legal and only counted; captions, exception classes and the valid-unit fallback are not modelled.",
    "4/C14",
)
check(
    "C15",
    "runtime monitoring: registry-pure monitor (canonical snapshot of attributes and getters around every query) + warm-vs-fresh differential: every query of an interleaved query/registration history is repeated first thing on a fresh real database rebuilt from the accepted registrations, and asked twice on the warm one",
    "Held on hundreds (thorough: thousands) of 40-60 step histories over a private database: 18 accepted-kind and 6 rejected-kind registrations (later units, overrides of limits/default unit/quantity type, from_category, legacy spellings) interleaved with 41 kinds of self-contained queries (creation in every form, conversion, validation, arithmetic incl. CreateDerived/ObtainQuantity derived operands, failing lookups, pickles) over registered, not-yet-registered, legacy and unknown names; thorough adds POSC-based histories with a fresh POSC per query.",
    "Outcomes are compared as canonical values or exception family, not messages; only registrations may change what the database reports.",
    "4/C15",
)
check(
    "C16",
    "runtime monitoring: exhaustive differential sweep - every legacy spelling derivable from the live substitution list for every table unit is fed to ~55 unit-taking API entry forms and 7 category-registration forms on the real database, each outcome compared canonically with the outcome for the current spelling; rewrite applied to every current symbol",
    "Exhaustive: all 1548 current symbols (and all category default/valid units) survive the rewrite unchanged and the rewrite is idempotent; all 256 derived legacy spellings (every non-empty subset of token occurrences x every legacy form) restore to their table unit and give identical objects/conversion results through every entry form, under the default category and one more category of the type.",
    "Outcomes compared canonically (-0.0 == 0.0), exceptions by class; entry points that reject legacy spellings by design and are not in the statement's list are excluded.",
    "4/C16",
)
check(
    "C17",
    "runtime monitoring: action histories (bounded-exhaustive over a fixed alphabet + random) executed on fresh real UnitSystemManagers with harness listeners on on_current / on_unit_changed, compared after every step with an executable reference model that also predicts the callback log; rejected calls must leave state and log unchanged",
    "Held for every applicable sequence up to depth 3 (thorough 4) over 37 concrete actions (read-only systems, zero amounts, foreign units among them) and thousands of random 10-60 action histories over 3 ids: accept/reject, id set and order, current id or null, template, every mapping, exact callback log, GetCategoryDefaultUnit/GetQuantityDefaultUnit/GetUnitSystemById/GetNewId, ConvertToCurrent and ConvertScalarToCurrent (value, unit, category) against the database conversion, no two systems sharing a mapping object.",
    "Selection only among registered systems and None; each SetCurrent call announces once; mapping units belong to the category's type; read-only flag not modelled.",
    "4/C17",
)
check(
    "C18",
    "runtime monitoring: reference-model monitor - real FractionValue / Fraction / FractionScalar operations executed on generated inputs and compared with exact rational arithmetic (fractions.Fraction, decimal reading of float literals) and, for FractionScalar, with the Scalar holding float(value)",
    "Held for thousands of (number, numerator, denominator) triples of ints and short decimals (denominators 1..64 + powers of ten; thorough 1..10000): stored parts, float() within 4 ulp, order operators, format->parse exactly, copy independence; Fraction + - * / % ** neg abs inv copy and six comparisons against exact rationals (lowest terms); CreateFromFloat within 1e-11 relative on tens of thousands of <= 8-digit decimals (1e-9..1e9, every 4th from 1e-30..1e15); FractionScalar vs Scalar for every quantity type x unit pairs incl. every affine pair: conversion, database conversion of FractionValue, four order operators, validity on private categories with limits. One known finding (subnormal inputs of CreateFromFloat).",
    "A float literal denotes the short decimal it prints as; format/parse demanded where %g prints the parts exactly; the fraction part may differ by 2e-9 relative (Fraction keeps ~9 decimals of a float numerator).",
    "4/C18",
)
check(
    "C19",
    "runtime monitoring: exhaustive differential sweep of the live table - every documented construction form of Scalar / Array / FixedArray / FractionScalar executed for every (unit, category of the unit's type) pair and compared pairwise (==, !=, fields), unit-only forms before and after the explicit-category forms; eval(repr()); bare-category objects against explicit defaults for every category",
    "Exhaustive in the table dimension: all 1548 units, all 328 categories and all (unit, category of the same quantity type) pairs x 9 Scalar, 6 Array, 5 FixedArray and 5 FractionScalar forms (quick: one rotating value and container kind; thorough: 5 values x list/tuple/ndarray); every unit's default category exists and has the unit's quantity type; eval(repr(Scalar)) equal; Cls(category) == Cls(category, default value, default unit) for the four classes.",
    "Equality is the classes' own == plus unit/category/type/quantity/dimension fields; finite values; values and container kinds are sampled.",
    "4/C19",
)
check(
    "C20",
    "runtime monitoring: grammar oracle - derived quantities produced by the library's own Scalar/Array/Quantity arithmetic and CreateDerived/ObtainQuantity requests; their unit, category, quantity-type and unit-name strings parsed by an independent grammar and compared with the composing map the quantity reports; exhaustive registered-string check for simple quantities",
    "Held on thousands (thorough: tens of thousands) of derived quantities with 0-3 numerator and 0-3 denominator factors, exponents 1-4, repeated quantity types under different categories/units over 41 quantity types with atomic units: unit string parses to exactly the joined composing units and is written in the table's notation; category / quantity-type / unit-name strings list every factor with its exponent; strings stable when asked again; repr/str show the unit; every unit of the table as a simple quantity reports its registered unit, category, type and name.",
    "Reference multisets come from the quantity's own GetCategoryToUnitAndExps() (C04 vouches for it); atomic (letters-only) symbols only.",
    "4/C20",
)
