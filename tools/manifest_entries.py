check(
    "C01",
    "runtime monitoring: exhaustive unit-pair sweep of the real databases under API probes; round-trip / path / monotonicity oracle with running float-error scale",
    "Held on every ordered unit pair (and, thorough, every triple) of all three self-built databases for a hostile + seeded value set; exhaustive in the table dimension, sampled in the value dimension. A run decides only what it executed.",
    "Trusts CPython float arithmetic and the error-scale analysis (K=16 x 2^-53 x magnitude of offsets and scaled value); coefficients are read observationally through the conversion functions.",
    "4/C01",
)
