#!/venv/bin/python
"""Generates /verif/MANIFEST.json from the table below (one entry per claimed property)."""
import json, os, sys

HERE = os.path.dirname(os.path.dirname(os.path.abspath(__file__)))
PY = "/venv/bin/python"
BASE_OFF = "cd /repo && env -u BARRIL_VERIF /venv/bin/python -m pytest -ra -q -p no:cacheprovider --timeout=900 --continue-on-collection-errors"

CHECKS = {}
NA = {}


def check(pid, technique, text, note, design_ref):
    CHECKS[pid] = dict(technique=technique, text=text, note=note, design_ref=design_ref)


exec(open(os.path.join(HERE, "tools", "manifest_entries.py")).read())

props = [json.loads(l)["id"] for l in open(os.path.join(HERE, "properties.jsonl"))]
checks = []
for pid in props:
    if pid in CHECKS and os.path.exists(os.path.join(HERE, "vp", "checks", pid.lower() + ".py")):
        c = CHECKS[pid]
        checks.append({
            "property_id": pid,
            "quick_cmd": "%s -m vp.run %s --tier quick" % (PY, pid),
            "thorough_cmd": "%s -m vp.run %s --tier thorough" % (PY, pid),
            "evidence_file": "evidence/%s.json" % pid,
            "replay_cmd_template": "%s -m vp.run %s --replay {path}" % (PY, pid),
            "engine": "vp",
            "level_claimed": {"category": "exploration", "text": c["text"], "design_ref": c["design_ref"]},
            "level_note": c["note"],
            "technique": c["technique"],
        })
na = []
for pid in props:
    if not any(c["property_id"] == pid for c in checks):
        na.append({"property_id": pid, "reason": NA.get(pid, "check not built yet in this revision (runtime monitoring applies; see DESIGN.md section 4)")})
m = {
    "version": 1,
    "setup_cmd": "cd /verif && /venv/bin/python -m compileall -q vp && mkdir -p evidence replays",
    "hooks": {
        "guard": "BARRIL_VERIF",
        "enable": "no source hook is needed: checks import barril from /repo/src in a fresh interpreter and instrument the public API in place from outside (vp/probe.py); BARRIL_VERIF=1 is exported by the runner for any future guarded hook",
        "baseline_off_cmd": BASE_OFF,
        "source_commits": [],
        "add_only": True,
    },
    "engines": [{"name": "vp", "path": "vp/", "serves_properties": [c["property_id"] for c in checks],
                 "kind_free_text": "runtime monitoring: real code driven by generated workloads under in-place API probes; reference-model, invariant and differential oracles; sharded subprocess runner"}],
    "checks": checks,
    "notes": "Verdicts are three-valued: exit 0 held on what was observed, exit 1 + VIOLATION line, exit 2 + INCONCLUSIVE line (deciding monitor not reached / shard died). Known findings: KNOWN_FINDINGS.txt. Seeded breaks: seeded/. See DESIGN.md.",
    "not_applicable": na,
}
json.dump(m, open(os.path.join(HERE, "MANIFEST.json"), "w"), indent=1)
print("MANIFEST.json: %d checks, %d not claimed" % (len(checks), len(na)))
