#!/venv/bin/python
"""False-alarm gauge: tools/benign_run.py [benign/*.diff ...]

Each patch under benign/ is a *property-preserving* change of ESSS/barril (another evaluation order of a
formula, reworded messages, a getter returning a copy, a redundant notification dropped, ...).  For each one:
scratch copy of /repo HEAD + patch, repository suite (informational: tests may pin wording), then all 20 quick
checks with VERIF_REPO pointing at the copy.  Every check must exit 0; anything else is a false alarm of the
machinery and is printed.  Never touches /repo; nothing here is registered in MANIFEST.json.
"""
import glob, os, shutil, subprocess, sys, tempfile
from concurrent.futures import ThreadPoolExecutor

PY = "/venv/bin/python"
VERIF = os.path.dirname(os.path.dirname(os.path.abspath(__file__)))
CHECKS = ["C%02d" % i for i in range(1, 21)]
patches = sys.argv[1:] or sorted(glob.glob(os.path.join(VERIF, "benign", "*.diff")))
bad = 0
for patch in patches:
    scratch = tempfile.mkdtemp(prefix="vp-benign-")
    try:
        subprocess.run("git -C /repo archive HEAD | tar -x -C %s" % scratch, shell=True, check=True)
        r = subprocess.run(["git", "apply", os.path.abspath(patch)], cwd=scratch, capture_output=True, text=True)
        if r.returncode != 0:
            print(os.path.basename(patch), "PATCH-FAILED", r.stderr[-300:])
            bad += 1
            continue
        env = dict(os.environ, PYTHONPATH=os.path.join(scratch, "src"), PYTHONHASHSEED="0")
        t = subprocess.run([PY, "-m", "pytest", "-q", "-p", "no:cacheprovider", "--timeout=900"], cwd=scratch, env=env, capture_output=True, text=True)
        suite = t.stdout.strip().splitlines()[-1] if t.stdout.strip() else "?"
        vcopy = os.path.join(scratch, "_verif")
        shutil.copytree(VERIF, vcopy, ignore=shutil.ignore_patterns(".git", "evidence", "replays", "seeded", "notes", "__pycache__", "mutants"))

        def one(c):
            p = subprocess.run([PY, "-m", "vp.run", c, "--tier", "quick"], cwd=vcopy, env=dict(os.environ, VERIF_REPO=scratch), capture_output=True, text=True)
            keys = [l.strip()[:220] for l in p.stdout.splitlines() if l.startswith("  key=") or l.startswith("INCONCLUSIVE") or l.startswith("HARNESS")]
            return c, p.returncode, keys[:2]

        with ThreadPoolExecutor(5) as ex:
            res = list(ex.map(one, CHECKS))
        alarms = [(c, rc, k) for c, rc, k in res if rc != 0]
        print("%-48s suite: %-28s checks silent: %d/20" % (os.path.basename(patch), suite[:28], 20 - len(alarms)))
        for c, rc, k in alarms:
            bad += 1
            print("    FALSE ALARM %s exit=%d %s" % (c, rc, " | ".join(k)))
    finally:
        shutil.rmtree(scratch, ignore_errors=True)
print("false alarms:", bad)
sys.exit(1 if bad else 0)
