#!/bin/bash
# tools/prepare_wave.sh <ordinal word> <number of taken mechanisms word>   e.g.  tools/prepare_wave.sh SEVENTH twelve
# Prepares /tmp/seedtask/<Cxx>/{property.json,taken.txt,out/} and a detached worktree /tmp/wt-<Cxx> of /repo HEAD for
# every property, and the prompt /tmp/seedtask/PROMPT.md (from tools/seed_prompt.md). The sub-agents get only:
#   "Your property id is Cxx. Read the file /tmp/seedtask/PROMPT.md and follow it exactly (substitute Cxx for <ID> everywhere). ..."
# Import what they deliver with tools/import_seeds.sh Cxx; afterwards remove the worktrees:
#   for c in $(seq -w 1 20); do git -C /repo worktree remove --force /tmp/wt-C$c; done; git -C /repo worktree prune
ORD=${1:-NEXT}; TAKEN=${2:-several}
mkdir -p /tmp/seedtask
sed -E "s/This is the [A-Z]+ round for this property \([a-z]+ mechanisms are taken\)/This is the $ORD round for this property ($TAKEN mechanisms are taken)/" /verif/tools/seed_prompt.md > /tmp/seedtask/PROMPT.md
python3 - <<'PY'
import os, re, json, shutil, subprocess
props = {}
for l in open('/verif/properties.jsonl'):
    d=json.loads(l); props[d['id']]=d
for pid in sorted(props):
    base='/tmp/seedtask/%s' % pid
    shutil.rmtree(base+'/out', ignore_errors=True)
    os.makedirs(base+'/out', exist_ok=True)
    json.dump({k: props[pid][k] for k in ('id','title','statement','quantifier','why_tests_cant','anchors')}, open(base+'/property.json','w'), indent=1)
    lines=[]
    n=1
    while os.path.exists('/verif/seeded/%s-%d/notes.md' % (pid,n)):
        txt=open('/verif/seeded/%s-%d/notes.md' % (pid,n)).read().split('## Note added')[0]
        lines.append('- '+re.sub(r'\s+',' ',txt)[:520]); n+=1
    open(base+'/taken.txt','w').write("\n".join(lines)+"\n")
    subprocess.run(['git','-C','/repo','worktree','add','--detach','-f','/tmp/wt-%s' % pid,'HEAD'],capture_output=True)
print("prepared", len(props), "tasks;", subprocess.run('git -C /repo worktree list | wc -l',shell=True,capture_output=True,text=True).stdout.strip(), "worktrees")
PY
grep -n "round for this property" /tmp/seedtask/PROMPT.md | cut -c1-140
