#!/bin/bash
# tools/import_seeds.sh <Cxx> : copies /tmp/seedtask/<Cxx>/out/{A,B} into seeded/<Cxx>-<n> (next free numbers),
# confirms each on a scratch copy and runs the property's quick check against it (tools/seedcheck.py).
P=$1
for L in A B; do
  src=/tmp/seedtask/$P/out/$L
  [ -f $src/patch.diff ] || { echo "$P $L: no patch"; continue; }
  n=1; while [ -e /verif/seeded/$P-$n ]; do n=$((n+1)); done
  mkdir -p /verif/seeded/$P-$n
  cp $src/patch.diff $src/demo.py $src/notes.md /verif/seeded/$P-$n/ 2>/dev/null
  /venv/bin/python /verif/tools/seedcheck.py /verif/seeded/$P-$n
done
