import itertools, numpy as np
from barril.units import *
from barril.basic.fraction import Fraction, FractionValue
from barril.curve.curve import Curve
from barril.units.unit_system import UnitSystem
objs = {
 'Q': ObtainQuantity('m'), 'Qd': (Scalar(1,'m')*Scalar(1,'m')).GetQuantity(), 'Qe': Quantity.CreateEmpty(),
 'S': Scalar(1,'m'), 'S2': Scalar(100,'cm'), 'Sd': Scalar(1,'m')*Scalar(1,'m'), 'Se': Scalar.CreateEmptyScalar(1),
 'A': Array([1,2],'m'), 'At': Array((1,2),'m'), 'An': Array(np.array([1,2]),'m'), 'An3': Array(np.array([1,2,3]),'m'), 'A3': Array([1,2,3],'m'),
 'Ae': Array.CreateEmptyArray([1,2]),
 'FA': FixedArray(2,[1,2],'m'), 'FAn': FixedArray(2,np.array([1,2]),'m'), 'FA3': FixedArray(3,[1,2,3],'m'),
 'FS': FractionScalar(1.0,'m'), 'FS2': FractionScalar(FractionValue(1,(1,2)),'m'),
 'FV': FractionValue(1,(1,2)), 'FV2': FractionValue(1.5), 'F': Fraction(1,2), 'F2': Fraction(2,4),
 'C': Curve(Array([1,2],'m'), Array([3,4],'s')), 'Cn': Curve(Array(np.array([1,2]),'m'), Array(np.array([3,4]),'s')),
 'US': UnitSystem('a','A',{'length':'m'}), 'US2': UnitSystem('a','A',{'length':'m'}),
 'None': None, 'str': 'x', 'int': 1, 'float': 0.5, 'tuple': (1,2), 'list': [1,2], 'nparr': np.array([1,2]), 'npf': np.float64(0.5),
}
for (na,a),(nb,b) in itertools.product(objs.items(), repeat=2):
    if na in ('None','str','int','float','tuple','list','nparr','npf') and nb in ('None','str','int','float','tuple','list','nparr','npf'): continue
    for opn, op in (('==', lambda x,y: x==y), ('!=', lambda x,y: x!=y)):
        try:
            r = op(a,b)
            if not isinstance(r, (bool, np.bool_)): print(na,opn,nb,'NONBOOL',type(r).__name__, r)
        except Exception as e:
            print(na,opn,nb,'ERR',type(e).__name__,str(e)[:80])
# hash consistency
for (na,a),(nb,b) in itertools.product(objs.items(), repeat=2):
    try:
        if a==b is True or (isinstance(a==b,bool) and a==b):
            try:
                ha, hb = hash(a), hash(b)
                if ha!=hb: print('HASH MISMATCH', na, nb)
            except Exception: pass
    except Exception: pass
for n,o in objs.items():
    try: hash(o); print(n,'hashable')
    except Exception as e: print(n,'unhashable',type(e).__name__)
