import collections, weakref, gc, traceback
import vp_probe_proto as P
ALARMS = collections.Counter(); EX = {}
def alarm(kind, detail):
    ALARMS[kind]+=1
    if kind not in EX: EX[kind] = (detail, ''.join(traceback.format_stack(limit=12)))
# ---- helpers
def is_value_obj(o):
    from barril.units import AbstractValueWithQuantityObject
    from barril.basic.fraction import Fraction, FractionValue
    return isinstance(o, (AbstractValueWithQuantityObject, Fraction, FractionValue))
def snap_value(o):
    import numpy as np
    from barril.units import AbstractValueWithQuantityObject, FixedArray
    from barril.basic.fraction import Fraction, FractionValue
    if isinstance(o, Fraction): return ('F', o.x)
    if isinstance(o, FractionValue): return ('FV', o._number, o._fraction.x)
    try:
        q = o._quantity
        v = o._value
    except AttributeError:
        return ('uninit',)
    if isinstance(v, np.ndarray): vv = ('nd', v.dtype.str, v.shape, v.tobytes())
    elif isinstance(v, (list, tuple)): vv = (type(v).__name__, repr(v))
    elif isinstance(v, FractionValue): vv = snap_value(v)
    else: vv = ('s', repr(v))
    return (type(o).__name__, id(q), q.GetUnit(), q.GetCategory(), getattr(o,'_dimension',None), vv)
QUANT = {}   # id -> (weakref, fingerprint)
def fp(q):
    return (q.GetCategory(), q.GetQuantityType(), q.GetUnit(), repr(q.GetComposingUnits()), repr(q.GetComposingCategories()),
            tuple((c, tuple(ue)) for c, ue in q.GetCategoryToUnitAndExps().items()), q.GetUnknownCaption(), q.IsDerived(), hash(q), repr(q))
def enroll(q):
    if id(q) in QUANT: return
    try: QUANT[id(q)] = (weakref.ref(q), fp(q))
    except AttributeError: pass   # not fully initialised
def check_quantities():
    for i,(r,f) in list(QUANT.items()):
        q = r()
        if q is None: QUANT.pop(i, None); continue
        try:
            if fp(q) != f: alarm('C07 quantity changed', (f, fp(q)))
        except Exception as e:
            alarm('C07 fingerprint raised', repr(e))
def registry_snap():
    from barril.units import UnitDatabase
    db = UnitDatabase.GetSingleton()
    return (id(db), tuple((qt, tuple((i.unit,i.name,i.default_category) for i in infos)) for qt, infos in db.quantity_types.items()),
            tuple((c, ci.quantity_type, tuple(ci.valid_units) if ci.valid_units is not None else None, ci.default_unit, ci.default_value, ci.min_value, ci.max_value, ci.is_min_exclusive, ci.is_max_exclusive) for c, ci in db.categories_to_quantity_types.items()))
REG_MUT = {'UnitDatabase.AddUnit','UnitDatabase.AddUnitBase','UnitDatabase.AddCategory','UnitDatabase.Clear','UnitDatabase.FillUnitDatabaseWithPosc','UnitDatabase.FillSimple','UnitDatabase.CreateDefaultSingleton','UnitDatabase.PushSingleton','UnitDatabase.PopSingleton','UnitDatabase.__init__'}
STACK = []
N = [0]
def walk(objs):
    from barril.units import Quantity
    out = []
    def rec(o, d):
        if d > 2: return
        if isinstance(o, Quantity): enroll(o)
        elif is_value_obj(o): out.append(o)
        elif isinstance(o, (list, tuple)) and len(o) < 20:
            for x in o: rec(x, d+1)
        elif isinstance(o, dict) and len(o) < 20:
            for x in o.values(): rec(x, d+1)
    for o in objs: rec(o, 0)
    return out
def listener(kind, qual, a, k, r):
    from barril.units import Quantity, FixedArray, UnitDatabase
    from barril.curve.curve import Curve
    if kind == 'call':
        ops = walk(list(a) + list(k.values()))
        # __init__ of value objects: self is uninitialised -> skip self
        if qual.endswith('.__init__') or qual.endswith('._InternalCreateWithQuantity'): ops = [o for o in ops if o is not a[0]]
        snaps = [(o, snap_value(o)) for o in ops]
        reg = None if qual in REG_MUT or qual.startswith('UnitSystem') else registry_snap()
        STACK.append((snaps, reg))
        return
    snaps, reg = STACK.pop()
    N[0]+=1
    for o, s in snaps:
        if snap_value(o) != s: alarm('C13 operand changed in '+qual, (s, snap_value(o)))
    if reg is not None:
        now = registry_snap()
        if now[0]==reg[0] and now != reg: alarm('C15 registry changed by '+qual, '')
    if kind == 'return':
        walk([r])
    for d in UnitDatabase._ObtainStack() if hasattr(UnitDatabase,'_ObtainStack') else []:
        for q in list(d.quantities_cache.values()): enroll(q)
    if N[0] % 20 == 0: check_quantities()
    if N[0] % 200 == 0: sweep()
def sweep():
    from barril.units import FixedArray
    from barril.curve.curve import Curve
    for o in gc.get_objects():
        if isinstance(o, FixedArray):
            try:
                v = o._value; d = o._dimension
            except AttributeError: continue
            if d is None or len(v) != d or d < 2: alarm('C11 fixedarray', (d, repr(v)))
        elif isinstance(o, Curve):
            try:
                if len(o._image.GetValues()) != len(o._domain.GetValues()): alarm('C11 curve', '')
            except AttributeError: pass
def pytest_configure(config):
    P.install(); P.LISTENERS.append(listener)
def pytest_unconfigure(config):
    check_quantities(); sweep()
    print("\nVP monitor: depth0 events", N[0], "quantities enrolled", len(QUANT))
    for k,v in ALARMS.most_common(): 
        print("ALARM", v, k); print("     ", str(EX[k][0])[:400]); print(EX[k][1][-1500:])
