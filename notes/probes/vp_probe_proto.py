import functools, inspect, collections, threading
COUNTS = collections.Counter()
DEPTH = threading.local()
EVENTS = []
LISTENERS = []
def _wrap(owner, name, fn):
    qual = f"{owner}.{name}"
    @functools.wraps(fn)
    def w(*a, **k):
        d = getattr(DEPTH, 'd', 0)
        COUNTS[qual] += 1
        DEPTH.d = d + 1
        try:
            if d == 0:
                for l in LISTENERS: l('call', qual, a, k, None)
            r = fn(*a, **k)
            if d == 0:
                for l in LISTENERS: l('return', qual, a, k, r)
            return r
        except BaseException as e:
            if d == 0:
                for l in LISTENERS: l('raise', qual, a, k, e)
            raise
        finally:
            DEPTH.d = d
    w.__vp_wrapped__ = True
    return w
DUNDERS = {'__init__','__eq__','__ne__','__hash__','__lt__','__le__','__gt__','__ge__','__add__','__radd__','__sub__','__rsub__','__mul__','__rmul__','__truediv__','__rtruediv__','__floordiv__','__rfloordiv__','__pow__','__reduce__','__copy__','__deepcopy__','__len__','__getitem__','__iter__','__repr__','__str__','__float__','__neg__','__abs__','__mod__'}
def instrument_class(cls):
    for name, attr in list(vars(cls).items()):
        if name.startswith('_') and name not in DUNDERS: continue
        if isinstance(attr, staticmethod):
            f = attr.__func__
            if getattr(f,'__vp_wrapped__',False): continue
            setattr(cls, name, staticmethod(_wrap(cls.__name__, name, f)))
        elif isinstance(attr, classmethod):
            f = attr.__func__
            if getattr(f,'__vp_wrapped__',False): continue
            setattr(cls, name, classmethod(_wrap(cls.__name__, name, f)))
        elif inspect.isfunction(attr):
            if getattr(attr,'__vp_wrapped__',False): continue
            setattr(cls, name, _wrap(cls.__name__, name, attr))
def install():
    import barril.units as U
    from barril.units import unit_database, _quantity, unit_system_manager, unit_system
    from barril.basic.fraction import Fraction, FractionValue
    from barril.curve.curve import Curve
    for cls in [unit_database.UnitDatabase, _quantity.Quantity, U.Scalar, U.Array, U.FixedArray, U.FractionScalar, U.AbstractValueWithQuantityObject, FractionValue, Fraction, Curve, unit_system.UnitSystem, unit_system_manager.UnitSystemManager]:
        instrument_class(cls)
    # module function ObtainQuantity: rebind everywhere
    import sys
    orig = _quantity.ObtainQuantity
    w = _wrap('module', 'ObtainQuantity', orig)
    for m in list(sys.modules.values()):
        if m and getattr(m, '__name__', '').startswith('barril'):
            for n, v in list(vars(m).items()):
                if v is orig: setattr(m, n, w)
def pytest_configure(config):
    install()
def pytest_unconfigure(config):
    print("\nVP wrapped calls:", sum(COUNTS.values()), "distinct:", len(COUNTS))
    for k,v in COUNTS.most_common(12): print("  ", k, v)
