import random, re, collections, sys
from barril.units import *
import barril; print(barril.__file__)
db = UnitDatabase.GetSingleton()
rng = random.Random(int(sys.argv[1]) if len(sys.argv)>1 else 0)
# atomic symbols: no '.', '/', digits, spaces, parens
atomic = [(i.quantity_type,u) for u,i in db.unit_to_unit_info.items() if re.fullmatch(r'[A-Za-z%]+', u) and db.Convert(i.quantity_type,u,db.GetBaseUnit(i.quantity_type),0.0)==0.0]
cats = collections.defaultdict(list)
for c in db.IterCategories(): cats[db.GetCategoryQuantityType(c)].append(c)
by_qt = collections.defaultdict(list)
for qt,u in atomic:
    if cats[qt]: by_qt[qt].append(u)
qts = [q for q in by_qt if len(by_qt[q])>=2][:25]
print(len(atomic), len(qts))
def parse_unit(s):
    if s=='': return collections.Counter()
    num, _, den = s.partition('/')
    if '/' in den: return None
    out = collections.Counter()
    def fac(f, sign):
        m = re.fullmatch(r'([A-Za-z%]+)(\d*)', f)
        if not m: return False
        out[m.group(1)] += sign*(int(m.group(2)) if m.group(2) else 1); return True
    if num != '1':
        for f in num.split('.'):
            if not fac(f, 1): return None
    if den:
        for f in den.split('.'):
            if not fac(f,-1): return None
    return out
def parse_star(s):
    if s=='': return collections.Counter()
    if s.count(' / ')>1: return None
    num, _, den = s.partition(' / ')
    out = collections.Counter()
    def fac(f, sign):
        m = re.fullmatch(r'\((.+)\) \*\* (\d+)', f)
        if m: out[m.group(1)] += sign*int(m.group(2))
        else: out[f] += sign
    if num != '1':
        for f in num.split(' * '): fac(f,1)
    if den:
        for f in den.split(' * '): fac(f,-1)
    return out
bad = collections.Counter(); ex={}
N=4000
for t in range(N):
    s = None
    for j in range(rng.randint(1,6)):
        qt = rng.choice(qts); u = rng.choice(by_qt[qt]); c = rng.choice(cats[qt])
        x = Scalar(c, 2.0, u)
        if s is None: s = x if rng.random()<0.7 else 1/x
        else: s = s*x if rng.random()<0.5 else s/x
    q = s.GetQuantity()
    want_units = collections.Counter({u:e for u,e in q.GetComposingUnitsJoiningExponents() if e})
    got = parse_unit(q.GetUnit())
    if q.IsDerived():
        if got is None or +got != +want_units and {k:v for k,v in got.items() if v} != dict(want_units): k='unit string'; bad[k]+=1; ex.setdefault(k,(q.GetUnit(), dict(want_units), got))
        wc = collections.Counter()
        for c,(u,e) in q.GetCategoryToUnitAndExps().items(): wc[c]+=e
        gc_ = parse_star(q.GetCategory())
        if gc_ is None or {k:v for k,v in gc_.items() if v} != {k:v for k,v in wc.items() if v}: k='category string'; bad[k]+=1; ex.setdefault(k,(q.GetCategory(), dict(wc), gc_))
        wq = collections.Counter()
        for c,(u,e) in q.GetCategoryToUnitAndExps().items(): wq[db.GetCategoryQuantityType(c)]+=e
        gq = parse_star(q.GetQuantityType())
        if gq is None or {k:v for k,v in gq.items() if v} != {k:v for k,v in wq.items() if v}: k='qt string'; bad[k]+=1; ex.setdefault(k,(q.GetQuantityType(), dict(wq), gq))
        wn = collections.Counter()
        for c,(u,e) in q.GetCategoryToUnitAndExps().items(): wn[db.GetUnitName(db.GetCategoryQuantityType(c),u)]+=e
        gn = parse_star(q.GetUnitName())
        if gn is None or {k:v for k,v in gn.items() if v} != {k:v for k,v in wn.items() if v}: k='name string'; bad[k]+=1; ex.setdefault(k,(q.GetUnitName(), dict(wn), gn))
    if q.GetUnit() not in repr(s) or q.GetUnit() not in str(s): bad['repr/str']+=1
print(N, dict(bad))
for k,v in ex.items(): print(k, str(v)[:500])
