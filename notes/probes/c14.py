import random, itertools, collections, copy
from barril.units import *
from barril.units.unit_database import UnitDatabase
def snap(db):
    out = []
    for qt in db.GetQuantityTypes():
        infos = db.GetInfos(qt)
        out.append((qt, tuple((i.unit, i.name, i.default_category, i.tobase(3.0), i.frombase(3.0)) for i in infos)))
    cats = []
    for c in db.IterCategories():
        ci = db.GetCategoryInfo(c)
        cats.append((c, ci.quantity_type, tuple(ci.valid_units) if ci.valid_units is not None else None, ci.default_unit, ci.default_value, ci.min_value, ci.max_value, ci.is_min_exclusive, ci.is_max_exclusive, ci.caption))
    return (tuple(out), tuple(cats), tuple(sorted(db.unit_to_unit_info)))
def invariants(db, bases):
    probs=[]
    seen = {}
    for qt in db.GetQuantityTypes():
        for i in db.GetInfos(qt):
            if i.unit in seen: probs.append(('unit in two types', i.unit, seen[i.unit], qt))
            seen[i.unit]=qt
            if db.GetQuantityType(i.unit) != qt: probs.append(('GetQuantityType mismatch', i.unit))
        if qt in bases:
            b = db.GetInfos(qt)[0]
            if b.tobase(3.5)!=3.5 or b.frombase(3.5)!=3.5: probs.append(('first not identity', qt, b.unit))
            if db.GetBaseUnit(qt) not in bases[qt]: probs.append(('base not a base', qt))
    if set(seen) != set(db.unit_to_unit_info): probs.append(('unit map mismatch',))
    for c in db.IterCategories():
        ci = db.GetCategoryInfo(c)
        if ci.quantity_type not in db.quantity_types: probs.append(('cat qt missing', c)); continue
        us = set(db.GetUnits(ci.quantity_type))
        if ci.default_unit not in us: probs.append(('default unit not in qt', c, ci.default_unit))
        for vu in (ci.valid_units or []):
            if vu not in us: probs.append(('valid unit not in qt', c, vu))
        dv = ci.default_value
        if ci.min_value is not None and (dv < ci.min_value or (ci.is_min_exclusive and dv == ci.min_value)): probs.append(('default<min', c))
        if ci.max_value is not None and (dv > ci.max_value or (ci.is_max_exclusive and dv == ci.max_value)): probs.append(('default>max', c))
        try:
            s = Scalar(c)
            if not s.IsValid(): probs.append(('Scalar(c) invalid', c))
            for u in us:
                s2 = Scalar(c, 1.0, u)
        except Exception as e:
            probs.append(('Scalar build fails', c, type(e).__name__, str(e)[:60]))
    return probs
rng = random.Random(1)
QT = ['length','time']; UN = ['m','cm','s','min','Mcf']; CA = ['length','depth','time','x']
def rand_call(rng):
    k = rng.random()
    if k < 0.2:
        return ('AddUnitBase', (rng.choice(QT), 'n', rng.choice(UN)), {})
    if k < 0.45:
        f = rng.choice([('%f*100.0','%f/100.0'), ('x*2','x/2'), ('bad','bad')])
        kw = {}
        if rng.random()<0.3: kw['default_category']=rng.choice(CA)
        return ('AddUnit', (rng.choice(QT), 'n', rng.choice(UN), f[0], f[1]), kw)
    kw = {}
    if rng.random()<0.7: kw['quantity_type'] = rng.choice(QT+['bogus'])
    if rng.random()<0.3: kw['from_category'] = rng.choice(CA)
    if rng.random()<0.4: kw['valid_units'] = rng.sample(UN+['1000ft3'], rng.randint(0,3))
    if rng.random()<0.4: kw['default_unit'] = rng.choice(UN+['1000ft3'])
    if rng.random()<0.3: kw['override'] = True
    if rng.random()<0.3: kw['min_value'] = rng.choice([0.0, 1.0, 5.0])
    if rng.random()<0.3: kw['max_value'] = rng.choice([0.0, 1.0, 5.0])
    if rng.random()<0.3: kw['default_value'] = rng.choice([0.0, 1.0, 5.0, 7.0])
    if rng.random()<0.2: kw['is_min_exclusive'] = True
    if rng.random()<0.2: kw['is_max_exclusive'] = True
    return ('AddCategory', (rng.choice(CA),), kw)
found = collections.Counter(); examples={}
for trial in range(3000):
    db = UnitDatabase(); UnitDatabase.PushSingleton(db)
    bases = collections.defaultdict(set)
    hist=[]
    try:
        for step in range(rng.randint(1,10)):
            call = rand_call(rng); hist.append(call)
            before = snap(db)
            kwc = copy.deepcopy(call[2])
            try:
                getattr(db, call[0])(*call[1], **kwc)
                ok=True; found[("accepted",call[0])]+=1
                if call[0]=='AddUnitBase': bases[call[1][0]].add(call[1][2])
            except Exception as e:
                ok=False
                if snap(db) != before:
                    key=('rejected call changed registry', call[0], type(e).__name__); found[key]+=1; examples.setdefault(key, list(hist))
            for p in invariants(db, bases):
                key = p[:1] + (p[2:4] if p[0]=='Scalar build fails' else ())
                found[key]+=1; examples.setdefault(key, (list(hist), p))
    finally:
        UnitDatabase.PopSingleton()
for k,v in found.most_common(): print(v, k); print('    ', examples.get(k))
print('done', len(found))
