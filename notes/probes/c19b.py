import collections, numpy as np
from barril.units import *
from barril.basic.fraction import FractionValue
import barril; print(barril.__file__)
db = UnitDatabase.GetSingleton()
bad = collections.Counter(); ex={}
n=0
for u, info in db.unit_to_unit_info.items():
    c = db.GetDefaultCategory(u)
    try:
        for vals in ([1.5,2.5], (1.5,2.5), np.array([1.5,2.5])):
            forms = [Array(vals,u), Array(vals,u,c), Array(c,vals,u), Array(ObtainQuantity(u,c),vals), Array.CreateWithQuantity(ObtainQuantity(u,c),vals)]
            for i,f in enumerate(forms):
                n+=1
                if not (f==forms[0]): bad[('Array',i)]+=1; ex.setdefault(('Array',i),(u,c))
            ff = [FixedArray(2,vals,u), FixedArray(2,c,vals,u), FixedArray(2,ObtainQuantity(u,c),vals), FixedArray.CreateWithQuantity(ObtainQuantity(u,c),vals), FixedArray.CreateWithQuantity(ObtainQuantity(u,c),vals,dimension=2)]
            for i,f in enumerate(ff):
                n+=1
                if not (f==ff[0]): bad[('FixedArray',i)]+=1; ex.setdefault(('FixedArray',i),(u,c,type(vals).__name__))
        fv = FractionValue(1,(1,2))
        fs = [FractionScalar(fv,u), FractionScalar(fv,u,c), FractionScalar(c,fv,u), FractionScalar(ObtainQuantity(u,c),fv), FractionScalar.CreateWithQuantity(ObtainQuantity(u,c),fv), FractionScalar(c, value=fv, unit=u)]
        for i,f in enumerate(fs):
            n+=1
            if not (f==fs[0]): bad[('FractionScalar',i)]+=1; ex.setdefault(('FractionScalar',i),(u,c))
    except Exception as e:
        k=('raise',type(e).__name__,str(e)[:60]); bad[k]+=1; ex.setdefault(k,(u,c))
for c, ci in db.categories_to_quantity_types.items():
    try:
        if not (FixedArray(3,c) == FixedArray(3,c,[0.0]*3,ci.default_unit)): bad['FixedArray default']+=1
        if not (Array(c) == Array(c,[],ci.default_unit)): bad['Array default']+=1
        if not (FractionScalar(c) == FractionScalar(c, ci.default_value, ci.default_unit)): bad['FractionScalar default']+=1
    except Exception as e:
        k=('raise cat',type(e).__name__,str(e)[:60]); bad[k]+=1; ex.setdefault(k,c)
print(n, dict(bad)); 
for k,v in ex.items(): print(k,v)
