import random, math, collections, sys
from fractions import Fraction as Fr
from barril.units import *
import barril; print(barril.__file__)
db = UnitDatabase.GetSingleton()
# basis: quantity types with >=3 scale-only atomic-ish units and >=2 categories
cats_by_qt = collections.defaultdict(list)
for c in db.IterCategories(): cats_by_qt[db.GetCategoryQuantityType(c)].append(c)
def scale_only(qt,u):
    b = db.GetBaseUnit(qt); return db.Convert(qt,u,b,0.0)==0.0
BASIS = {}
for qt in ['length','time','mass','pressure','volume','force','area','electric current','moment of force','plane angle']:
    us = [u for u in db.GetUnits(qt) if scale_only(qt,u)]
    BASIS[qt] = (us[:8], cats_by_qt[qt][:3])
def factor(qt,u):
    b = db.GetBaseUnit(qt); return Fr(db.Convert(qt,u,b,1.0))
def dimvec(q):
    d = collections.Counter()
    for c,(u,e) in q.GetCategoryToUnitAndExps().items():
        d[db.GetCategoryQuantityType(c)] += e
    return {k:v for k,v in d.items() if v}
def basemag(s):
    q = s.GetQuantity(); m = Fr(s.value)
    for c,(u,e) in q.GetCategoryToUnitAndExps().items():
        qt = db.GetCategoryQuantityType(c)
        m *= factor(qt,u)**e
    return m
rng = random.Random(int(sys.argv[1]) if len(sys.argv)>1 else 0)
def leaf():
    qt = rng.choice(list(BASIS)); us,cs = BASIS[qt]
    v = rng.choice([1.0,2.0,0.5,3.0,10.0, round(rng.uniform(0.1,50),3)])
    return Scalar(rng.choice(cs), v, rng.choice(us))
class Node: pass
def gen(depth):
    if depth==0 or rng.random()<0.3:
        s = leaf(); return s, basemag(s), dimvec(s.GetQuantity()), repr(s)
    op = rng.choice(['*','/','*','/','**'])
    a, ma, da, ra = gen(depth-1)
    if op=='**':
        n = rng.randint(1,3)
        r = a**n; m = ma**n; d = {k:v*n for k,v in da.items()}; rr = f'({ra})**{n}'
    else:
        b, mb, dbb, rb = gen(depth-1)
        if op=='*':
            r = a*b; m = ma*mb; d = collections.Counter(da); 
            for k,v in dbb.items(): d[k]+=v
        else:
            r = a/b; m = ma/mb; d = collections.Counter(da)
            for k,v in dbb.items(): d[k]-=v
        d = {k:v for k,v in d.items() if v}; rr = f'({ra}){op}({rb})'
    return r, m, d, rr
bad = collections.Counter(); ex = {}
N=int(sys.argv[2]) if len(sys.argv)>2 else 3000
for i in range(N):
    try:
        r, m, d, rr = gen(3)
    except Exception as e:
        k=('raise',type(e).__name__, str(e)[:60]); bad[k]+=1; ex.setdefault(k, i); continue
    got_d = dimvec(r.GetQuantity())
    if got_d != d: k='dim'; bad[k]+=1; ex.setdefault(k,(rr,got_d,d))
    got_m = basemag(r)
    if m != 0 and abs(float(got_m/m)-1) > 1e-9: k='mag'; bad[k]+=1; ex.setdefault(k,(rr, repr(r), float(got_m), float(m)))
    # add/sub: build second tree with same dims by re-expressing: r2 = r * 1 in different units: use r + r
    try:
        s = r + r
        if abs(float(basemag(s)/(2*m))-1) > 1e-9: bad['sum self']+=1
    except Exception as e:
        k=('sumraise',type(e).__name__); bad[k]+=1; ex.setdefault(k,(rr,str(e)[:80]))
print(N, dict(bad)); 
for k,v in ex.items(): print(k, v)
# ---- sums between two trees with same dimension but different units: build b by re-expressing each leaf
print('--- add/sub with re-expressed operand')
def reexpress_tree(spec):
    pass
bad2 = collections.Counter(); ex2={}
for i in range(N):
    # build product of k leaves with exponents; two versions with different units/categories
    k = rng.randint(1,3)
    qts = rng.sample(list(BASIS), k)
    exps = [rng.choice([-3,-2,-1,1,2,3]) for _ in qts]
    def build():
        acc = None; 
        for qt,e in zip(qts,exps):
            us,cs = BASIS[qt]
            u = rng.choice(us); c = rng.choice(cs)
            for j in range(abs(e)):
                s = Scalar(c, rng.choice([1.0,2.0,3.0,0.5]), u)
                if acc is None:
                    acc = s if e>0 else 1/s
                else:
                    acc = acc*s if e>0 else acc/s
        return acc
    try:
        a = build(); b = build()
        ma, mb = basemag(a), basemag(b)
        for opn, r, m in (('+', a+b, ma+mb), ('-', a-b, ma-mb)):
            if r.GetQuantity() != a.GetQuantity(): bad2['quantity not left']+=1; ex2.setdefault('quantity not left',(repr(a),repr(b),repr(r)))
            gm = basemag(r)
            scale = abs(ma)+abs(mb)
            if abs(float((gm-m)/scale)) > 1e-9: bad2['value '+opn]+=1; ex2.setdefault('value '+opn,(repr(a),repr(b),repr(r), float(gm), float(m)))
    except Exception as e:
        kk=('raise',type(e).__name__, str(e)[:80]); bad2[kk]+=1; ex2.setdefault(kk,(repr(a) if 'a' in dir() else None,))
print(dict(bad2))
for k,v in ex2.items(): print(k, v)
