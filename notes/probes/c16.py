from barril.units import *
from barril.units.unit_database import _LEGACY_TO_CURRENT, FixUnitIfIsLegacy
db = UnitDatabase.GetSingleton()
units = list(db.unit_to_unit_info)
# current symbol rewritten?
for u in units:
    ch, f = FixUnitIfIsLegacy(u)
    if ch: print('CURRENT REWRITTEN', u, '->', f, f in db.unit_to_unit_info)
# idempotence
legacy = set()
for u in units:
    for leg, cur in _LEGACY_TO_CURRENT:
        if cur in u:
            # all ways of replacing occurrences of cur by leg
            cand = u.replace(cur, leg)
            if cand != u: legacy.add((cand, u))
            # single occurrences
            idx = 0
            while True:
                i = u.find(cur, idx)
                if i<0: break
                c2 = u[:i]+leg+u[i+len(cur):]
                legacy.add((c2,u)); idx = i+1
print(len(legacy))
bad=0
for leg,u in sorted(legacy):
    if leg in db.unit_to_unit_info: print('legacy spelling is itself a current unit', leg, u); continue
    ch, f = FixUnitIfIsLegacy(leg)
    ch2, f2 = FixUnitIfIsLegacy(f)
    if f != u: print('NOT RESTORED', leg, '->', f, 'expected', u); bad+=1
    if ch2: print('NOT IDEMPOTENT', leg, f, f2)
print('bad', bad)
def show(label, f):
    try:
        r = f(); print(label, '->', repr(r))
    except Exception as e: print(label, 'ERR', type(e).__name__, str(e)[:150])
leg, cur = '1000ft3/d', 'Mcf/d'
show('OQ', lambda: ObtainQuantity(leg) == ObtainQuantity(cur))
show('OQ cat', lambda: ObtainQuantity(leg,'volume flow rate') == ObtainQuantity(cur,'volume flow rate'))
show('Scalar', lambda: Scalar(1,leg) == Scalar(1,cur))
show('Scalar cat', lambda: Scalar('volume flow rate',1,leg) == Scalar('volume flow rate',1,cur))
show('Array', lambda: Array([1],leg) == Array([1],cur))
show('FixedArray', lambda: FixedArray(2,[1,2],leg) == FixedArray(2,[1,2],cur))
show('FractionScalar', lambda: FractionScalar(1.0,leg) == FractionScalar(1.0,cur))
show('CreateCopy', lambda: Scalar(1,'m3/d').CreateCopy(unit=leg) == Scalar(1,'m3/d').CreateCopy(unit=cur))
show('GetValue', lambda: (Scalar(1,'m3/d').GetValue(leg), Scalar(1,'m3/d').GetValue(cur)))
show('Array GetValues', lambda: (Array([1.0],'m3/d').GetValues(leg), Array([1.0],'m3/d').GetValues(cur)))
show('FractionScalar GetValue', lambda: (FractionScalar(1.0,'m3/d').GetValue(leg), FractionScalar(1.0,'m3/d').GetValue(cur)))
show('db.Convert to', lambda: (db.Convert('volume flow rate','m3/d',leg,1.0), db.Convert('volume flow rate','m3/d',cur,1.0)))
show('db.Convert from', lambda: (db.Convert('volume flow rate',leg,'m3/d',1.0), db.Convert('volume flow rate',cur,'m3/d',1.0)))
show('db.Convert both', lambda: (db.Convert('volume flow rate',leg,leg,1.0)))
show('db.Convert np', lambda: (db.Convert('volume flow rate',leg,'m3/d',__import__('numpy').array([1.0]))))
show('db.Convert list', lambda: (db.Convert('volume flow rate',leg,'m3/d',[1.0])))
show('GetDefaultCategory', lambda: (db.GetDefaultCategory(leg), db.GetDefaultCategory(cur)))
show('AddCategory valid', lambda: db.AddCategory('lc','volume flow rate',valid_units=[leg],default_unit=leg))
show('GetQuantityType', lambda: (db.GetQuantityType(leg), db.GetQuantityType(cur)))
show('CheckQuantityTypeUnit', lambda: db.CheckQuantityTypeUnit('volume flow rate', leg))
show('CheckCategoryUnit', lambda: db.CheckCategoryUnit('volume flow rate', leg))
show('GetUnitName', lambda: db.GetUnitName('volume flow rate', leg))
show('ConvertScalarValue', lambda: ObtainQuantity('m3/d').ConvertScalarValue(1.0, leg))
show('CreateDerived', lambda: Quantity.CreateDerived({'volume flow rate':[leg,2]}))
show('Scalar arithmetic', lambda: Scalar(1,leg)+Scalar(1,cur))
show('Scalar mul', lambda: Scalar(1,leg)*Scalar(1,cur))
show('ChangingIndex tuple', lambda: FixedArray(2,[1,2],cur).ChangingIndex(0,(5,leg)))
show('IndexAsScalar', lambda: FixedArray(2,[1,2],cur).IndexAsScalar(0,ObtainQuantity(leg)))
show('FromScalars', lambda: Array.FromScalars([Scalar(1,cur)],unit=leg))
