import random, math, itertools, collections, sys
import numpy as np
from barril.units import *
from barril.basic.fraction import FractionValue
import barril; print(barril.__file__)
base = UnitDatabase.GetSingleton()
db = UnitDatabase(); UnitDatabase.FillUnitDatabaseWithPosc(db); UnitDatabase.PushSingleton(db)
rng = random.Random(int(sys.argv[1]) if len(sys.argv)>1 else 0)
configs = []
i=0
for qt, du, units in [('length','m',['m','cm','km','mm','ft','in']), ('length','cm',['m','cm','km','ft']), ('temperature','degC',['K','degC','degF','degR']), ('pressure','psi',['Pa','psi','bar','kPa','atm'])]:
    for mn, mx in [(None,None),(1.0,None),(None,10.0),(1.0,10.0),(-5.0,5.0)]:
        for me, xe in itertools.product([False,True],[False,True]):
            if (mn is None and me) or (mx is None and xe): continue
            c = f'cfg{i}'; i+=1
            dv = None
            if me or xe: dv = ((mn if mn is not None else mx-2)+(mx if mx is not None else mn+2))/2
            db.AddCategory(c, qt, default_unit=du, min_value=mn, max_value=mx, is_min_exclusive=me, is_max_exclusive=xe, default_value=dv)
            configs.append((c,qt,du,units,mn,mx,me,xe))
def ok_amount(v, mn,mx,me,xe):
    if mn is not None:
        if me:
            if not v > mn: return ('>', mn)
        elif not v >= mn: return ('>=', mn)
    if mx is not None:
        if xe:
            if not v < mx: return ('<', mx)
        elif not v <= mx: return ('<=', mx)
    return None
bad = collections.Counter(); ex={}; n=0
for c,qt,du,units,mn,mx,me,xe in configs:
    # default scalar valid
    s = Scalar(c)
    if not s.IsValid(): bad['default invalid']+=1
    for u in units:
        cand = [0.0, 1.0, -1.0, 5.0, 100.0, float('nan'), float('inf'), float('-inf'), rng.uniform(-20,20)]
        for lim in (mn,mx):
            if lim is not None:
                b = db.Convert(qt, du, u, lim)
                cand += [b, math.nextafter(b, math.inf), math.nextafter(b, -math.inf)]
        for v in cand:
            conv = db.Convert(qt,u,du,v)
            want = ok_amount(conv, mn,mx,me,xe)
            has_limit = mn is not None or mx is not None
            if math.isnan(v): want = ('nan',) if has_limit else None
            s = Scalar(c, v, u); n+=1
            got = s.IsValid()
            if got != (want is None): k=('scalar verdict',); bad[k]+=1; ex.setdefault(k,(c,mn,mx,me,xe,v,u,conv,got,want))
            if want is not None and not math.isnan(v):
                try: s.CheckValidity(); bad['no raise']+=1
                except ValueError as e:
                    if ok_amount(e.value, mn,mx,me,xe) is None or (e.operator, e.limit_value) not in [('>' if me else '>=', mn), ('<' if xe else '<=', mx)]:
                        bad['bad report']+=1; ex.setdefault('bad report',(c,v,u,e.operator,e.limit_value,e.value))
            f = FractionScalar(c, FractionValue(0.0, (v if math.isfinite(v) and float(v).is_integer() else 0.0, 1.0)) if False else v, u) if math.isfinite(v) else None
            if f is not None and f.IsValid() != got: bad['fraction differs']+=1; ex.setdefault('fraction differs',(c,v,u))
        # arrays
        for L in range(0,5):
            vals = [rng.choice(cand) for _ in range(L)]
            convs = [db.Convert(qt,u,du,v) for v in vals]
            want_valid = all(math.isnan(v) or ok_amount(cv,mn,mx,me,xe) is None for v,cv in zip(vals,convs))
            verdicts = set()
            for perm in set(itertools.permutations(vals)) if L<=4 else [vals]:
                for mk in (list, tuple, lambda x: np.array(x, dtype=float)):
                    a = Array(c, mk(list(perm)), u); n+=1
                    g = a.IsValid(); g2 = a.IsValid()
                    if g != g2: bad['cache flip']+=1
                    verdicts.add(g)
                    if g != want_valid: k=('array verdict',); bad[k]+=1; ex.setdefault(k,(c,mn,mx,me,xe,perm,u,g,want_valid))
print(n, dict(bad))
for k,v in ex.items(): print(k, v)
UnitDatabase.PopSingleton()
