import random, operator, collections, sys, math
import numpy as np
from barril.units import *
import barril; print(barril.__file__)
rng = random.Random(int(sys.argv[1]) if len(sys.argv)>1 else 0)
db = UnitDatabase.GetSingleton()
LEAVES = [('length',['m','cm','km','ft']),('depth',['m','ft']),('time',['s','min','h']),('mass',['kg','g','lbm'])]
def rand_q():
    # returns a function building object from values, plus scalar builder
    k = rng.randint(1,2); parts=[]
    for _ in range(k):
        c,us = rng.choice(LEAVES); parts.append((c, rng.choice(us), rng.choice(['*','/'])))
    return parts
def build_scalar(parts, v):
    s = Scalar(parts[0][0], v, parts[0][1])
    for c,u,op in parts[1:]:
        o = Scalar(c, 1.0, u); s = s*o if op=='*' else s/o
    return s
def build_array(parts, vals, mk):
    a = Array(parts[0][0], mk(vals), parts[0][1])
    for c,u,op in parts[1:]:
        o = Array(c, mk([1.0]*len(vals)), u); a = a*o if op=='*' else a/o
    return a
MK = {'list':list, 'tuple':tuple, 'nd': lambda x: np.array(x, dtype=float)}
OPS = {'+':operator.add,'-':operator.sub,'*':operator.mul,'/':operator.truediv,'//':operator.floordiv}
bad = collections.Counter(); ex={}; n=0
for t in range(3000):
    pa, pb = rand_q(), rand_q()
    if rng.random()<0.5: pb = [(c, rng.choice(dict(LEAVES)[c]), op) for c,u,op in pa]   # same dims, different units
    L = rng.choice([0,1,2,3,5]); L2 = L if rng.random()<0.85 else rng.choice([x for x in [0,1,2,3,5] if x!=L])
    va = [round(rng.uniform(0.5,9),2) for _ in range(L)]; vb = [round(rng.uniform(0.5,9),2) for _ in range(L2)]
    opn = rng.choice(list(OPS)); op = OPS[opn]
    # scalar reference
    try:
        ref = [op(build_scalar(pa,x), build_scalar(pb,y)) for x,y in zip(va,vb)]
        ref_exc=None
        refq = op(build_scalar(pa,1.0), build_scalar(pb,1.0)).GetQuantity()
    except Exception as e:
        ref_exc = type(e).__name__; ref=None
    for ka in MK:
        for kb in MK:
            n+=1
            try:
                r = op(build_array(pa,va,MK[ka]), build_array(pb,vb,MK[kb])); exc=None
            except Exception as e:
                exc = type(e).__name__; r=None
            if L != L2:
                if exc is None and ref_exc is None: k=('difflen accepted',ka,kb); bad[k]+=1; ex.setdefault(k,(pa,pb,va,vb,opn,repr(r)))
                continue
            if (exc is None) != (ref_exc is None): k=('raise mismatch',ka,kb,exc,ref_exc); bad[k]+=1; ex.setdefault(k,(pa,pb,va,vb,opn)); continue
            if exc: continue
            if r.GetQuantity() != refq: k=('quantity',ka,kb); bad[k]+=1; ex.setdefault(k,(pa,pb,opn,repr(r.GetQuantity()),repr(refq)))
            got = list(r.values)
            if len(got)!=L: bad['len']+=1; continue
            for g,s in zip(got,ref):
                if g != s.value and abs(g-s.value) > 4*math.ulp(abs(s.value)): k=('value',ka,kb); bad[k]+=1; ex.setdefault(k,(pa,pb,opn,g,s.value)); break
print(n, dict(bad))
for k,v in ex.items(): print(k, str(v)[:400])
