import math, random, collections
from barril.units import *
import barril; print(barril.__file__)
db = UnitDatabase.GetSingleton()
rng = random.Random(5)
viol = collections.Counter(); ex={}
n=0
for qt in db.GetQuantityTypes():
    us = db.GetUnits(qt)
    cat = db.GetDefaultCategory(us[0])
    for _ in range(12):
        u,v = rng.choice(us), rng.choice(us)
        for x in [1.0, 7.0, 100.0, 0.1, rng.uniform(-1e3,1e3), rng.uniform(0,1)]:
            y0 = db.Convert(qt,u,v,x)
            for y in [y0, math.nextafter(y0, math.inf), math.nextafter(y0,-math.inf), y0*(1+1e-9), y0*(1-1e-9)]:
                for xx in [x, math.nextafter(x, math.inf), math.nextafter(x, -math.inf)]:
                    a = Scalar(xx,u); b = Scalar(y,v); n+=1
                    gt, lt, ge, le = a>b, a<b, a>=b, a<=b
                    rgt, rlt, rge, rle = b>a, b<a, b>=a, b<=a
                    if gt and rgt: viol['both >']+=1; ex.setdefault('both >',(xx,u,y,v))
                    if not (le or rle): viol['neither <=']+=1; ex.setdefault('neither <=',(xx,u,y,v))
                    if lt != rgt: viol['a<b != b>a']+=1; ex.setdefault('a<b != b>a',(xx,u,y,v))
                    if le != (not gt): viol['a<=b != not a>b']+=1
                    if ge != (not lt): viol['a>=b != not a<b']+=1
print(n, viol, ex)
