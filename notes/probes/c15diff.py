import random, collections, sys
from barril.units import *
import barril; print(barril.__file__)
REG = [
 ('AddUnitBase', ('length','metre','m'), {}),
 ('AddUnit', ('length','centimetre','cm','%f*100.0','%f/100.0'), {}),
 ('AddUnit', ('length','kilometre','km','%f/1000.0','%f*1000.0'), {}),
 ('AddUnitBase', ('time','second','s'), {}),
 ('AddUnit', ('time','minute','min','%f/60.0','%f*60.0'), {}),
 ('AddCategory', ('length','length'), {}),
 ('AddCategory', ('depth','length'), {'valid_units':['m'], 'default_unit':'m'}),
 ('AddCategory', ('time','time'), {}),
 ('AddCategory', ('length','length'), {'override':True, 'min_value':0.0}),
 ('AddCategory', ('depth','length'), {'override':True, 'valid_units':['m','km'], 'default_unit':'km', 'max_value':10.0}),
 ('AddCategory', ('span',), {'from_category':'depth'}),
]
UN = ['m','cm','km','s','min','zz']; CA = ['length','depth','time','span','nope']
def norm(x):
    import numpy as np
    if isinstance(x, (list,tuple)): return tuple(norm(i) for i in x)
    if hasattr(x,'GetQuantity') : return (type(x).__name__, repr(x))
    return repr(x)
def run_query(q):
    kind = q[0]
    db = UnitDatabase.GetSingleton()
    try:
        if kind=='scalar': r = repr(Scalar(q[1], q[2], q[3]))
        elif kind=='scalar_nocat': r = repr(Scalar(q[2], q[3]))
        elif kind=='getvalue': r = Scalar(q[1], q[2], q[3]).GetValue(q[4])
        elif kind=='isvalid': r = Scalar(q[1], q[2], q[3]).IsValid()
        elif kind=='validunits_obj': r = tuple(Scalar(q[1], q[2], q[3]).GetValidUnits())
        elif kind=='validunits_db': r = tuple(db.GetValidUnits(q[1]))
        elif kind=='convert': r = db.Convert(q[1], q[3], q[4], q[2])
        elif kind=='defcat': r = db.GetDefaultCategory(q[3])
        elif kind=='default': r = repr(Scalar(q[1]))
        elif kind=='units': r = tuple(db.GetUnits(db.GetCategoryQuantityType(q[1])))
        elif kind=='mul': r = repr(Scalar(q[1], q[2], q[3]) * Scalar(2.0, q[4]))
        elif kind=='add': r = repr(Scalar(q[1], q[2], q[3]) + Scalar(2.0, q[4]))
        elif kind=='array_valid': r = Array(q[1], [q[2], -q[2]], q[3]).IsValid()
        return ('ok', norm(r))
    except Exception as e:
        return ('raise', type(e).__name__)
KINDS = ['scalar','scalar_nocat','getvalue','isvalid','validunits_obj','validunits_db','convert','defcat','default','units','mul','add','array_valid']
rng = random.Random(int(sys.argv[1]) if len(sys.argv)>1 else 0)
bad = collections.Counter(); ex={}
nq=0
for h in range(1500):
    warm = UnitDatabase(); regs=[]
    order = [r for r in REG]
    # registrations in (mostly) order, interleaved with queries
    ri = 0; hist=[]
    for step in range(40):
        if ri < len(order) and rng.random() < 0.3:
            name,a,k = order[ri]; ri+=1
            UnitDatabase.PushSingleton(warm)
            try:
                getattr(warm,name)(*a, **{kk:(list(v) if isinstance(v,list) else v) for kk,v in k.items()}); regs.append((name,a,k)); hist.append(('reg',name,a[0]))
            except Exception as e: hist.append(('regfail',name,type(e).__name__))
            finally: UnitDatabase.PopSingleton()
        else:
            q = (rng.choice(KINDS), rng.choice(CA), rng.choice([1.0,-1.0,5.0,20.0]), rng.choice(UN), rng.choice(UN))
            UnitDatabase.PushSingleton(warm)
            try: rw = run_query(q)
            finally: UnitDatabase.PopSingleton()
            fresh = UnitDatabase(); UnitDatabase.PushSingleton(fresh)
            try:
                for name,a,k in regs: getattr(fresh,name)(*a, **{kk:(list(v) if isinstance(v,list) else v) for kk,v in k.items()})
                rf = run_query(q)
            finally: UnitDatabase.PopSingleton()
            nq+=1; hist.append(q)
            if rw != rf:
                kx = (q[0], rw[0], rf[0]); bad[kx]+=1; ex.setdefault(kx, (hist[-8:], rw, rf))
print(nq, dict(bad))
for k,v in ex.items(): print(k,'\n   ',str(v)[:600])
