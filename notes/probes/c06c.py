import re, math, collections, statistics, sys
from barril.units import UnitDatabase
db = UnitDatabase.GetSingleton()
infos = db.unit_to_unit_info
def obs(u):
    info = infos[u]; qt = info.quantity_type; base = db.GetBaseUnit(qt)
    f0 = db.Convert(qt,u,base,0.0); f1 = db.Convert(qt,u,base,1.0)
    return f0, f1-f0
def written_prec(x):
    """relative half unit in last written place of the shortest repr; capped to 5e-4; exact if >=15 digits"""
    if x == 0: return 0.0
    r = repr(float(abs(x))).lower()
    mant, _, ex = r.partition('e')
    digits = mant.replace('.','').lstrip('0')
    # trailing zeros of an integer-valued literal are not significant information either way
    n = len(digits.rstrip('0')) or 1
    if n >= 15: return 2.0**-52
    e10 = math.floor(math.log10(abs(x)))
    return min(0.5*10.0**(e10-n+1)/abs(x), 5e-4)
def coef_prec(u):
    tb = infos[u].tobase
    if hasattr(tb,'__b__'):
        return written_prec(tb.__b__) + written_prec(tb.__c__)
    return 0.0
atoms = set(infos)
AMBIG = {'F': 'farad', 'C': 'coulomb'}
def parse_factor(f, exclude, rowname):
    if f in atoms and f != exclude:
        if f in AMBIG and AMBIG[f] not in rowname.lower(): return 'ambiguous'
        return (1.0, f, 1)
    m = re.match(r'^(.+?)([2-9])$', f)
    if m and m.group(1) in atoms:
        s = m.group(1)
        if s in AMBIG and AMBIG[s] not in rowname.lower(): return 'ambiguous'
        return (1.0, s, int(m.group(2)))
    m = re.match(r'^(\d+)(\D.*)$', f)
    if m:
        p = parse_factor(m.group(2), None, rowname)
        if p and p!='ambiguous' and p[0]==1.0: return (float(m.group(1)), p[1], p[2])
    return None
def parse(sym, rowname):
    if sym.count('/')>1 or any(ch in sym for ch in '()^*, ') : 
        # parentheses appear inside atomic symbols like scf(60F); allow if whole factor is atom
        if sym.count('/')>1 or '^' in sym or '*' in sym: return None
    parts = sym.split('/')
    out=[]
    if parts[0] != '1':
        for f in parts[0].split('.'):
            p = parse_factor(f, sym, rowname)
            if p is None or p=='ambiguous': return p
            out.append(p)
    if len(parts)==2:
        for f in parts[1].split('.'):
            p = parse_factor(f, sym, rowname)
            if p is None or p=='ambiguous': return p
            out.append((p[0], p[1], -p[2]))
    if not out: return None
    if len(out)==1 and out[0][2]==1 and out[0][0]==1.0 : return None
    return out
rows = collections.defaultdict(list); skipped = collections.Counter()
for u, info in infos.items():
    p = parse(u, info.name)
    if p is None: skipped['undecomposable']+=1; continue
    if p == 'ambiguous': skipped['ambiguous F/C']+=1; continue
    off, fac = obs(u)
    if off != 0: skipped['affine row']+=1; continue
    prod = 1.0; tol = coef_prec(u); ok=True
    for pre,s,e in p:
        o, f = obs(s)
        if o != 0: ok=False; break
        prod *= (pre*f)**e; tol += abs(e)*coef_prec(s)
    if not ok: skipped['affine comp']+=1; continue
    rows[info.quantity_type].append((u, fac, prod, fac/prod, tol, p))
print(skipped, sum(len(v) for v in rows.values()))
bad=[]; nchecked=0; single=0
for qt, lst in rows.items():
    base = db.GetBaseUnit(qt)
    ref=None
    for r in lst:
        if r[0]==base: ref=r[3]
    if ref is None:
        if len(lst)<2: single+=1; continue
        ref = statistics.median_low([r[3] for r in lst])
    for u,fac,prod,k,tol,p in lst:
        nchecked+=1
        rel = abs(k/ref-1)
        if rel > 2*tol + 1e-12: bad.append((rel,qt,u,fac,prod*ref,tol))
print('checked', nchecked, 'bad', len(bad), 'single', single)
for rel,qt,u,fac,comp,tol in sorted(bad): print(f'{rel:9.3g} tol={tol:.1e} {qt!r:42} {u!r:20} table={fac!r:24} composed={comp!r}')
# SI prefix clause
PRE = {'T':('tera',1e12),'G':('giga',1e9),'M':('mega',1e6),'k':('kilo',1e3),'h':('hecto',1e2),'da':('deca',1e1),'d':('deci',1e-1),'c':('centi',1e-2),'m':('milli',1e-3),'u':('micro',1e-6),'n':('nano',1e-9),'p':('pico',1e-12),'f':('femto',1e-15),'a':('atto',1e-18),'E':('exa',1e18),'P':('peta',1e15)}
nsi=0; sibad=[]
for u, info in infos.items():
    if '/' in u or '.' in u: continue
    for pre,(word,mult) in PRE.items():
        if u.startswith(pre) and u[len(pre):] in infos and infos[u[len(pre):]].quantity_type == info.quantity_type:
            other = infos[u[len(pre):]]
            nm = info.name.lower().replace(' ','').replace('-','')
            on = other.name.lower().replace(' ','').replace('-','')
            if nm.startswith(word) and (nm[len(word):].rstrip('s') == on.rstrip('s') ):
                o1,f1 = obs(u); o2,f2 = obs(other.unit)
                if o1 or o2: continue
                nsi+=1
                rel = abs(f1/(f2*mult)-1)
                if rel > coef_prec(u)+coef_prec(other.unit)+1e-12: sibad.append((u, info.name, f1, f2*mult))
print('SI rows', nsi, 'bad', sibad)
