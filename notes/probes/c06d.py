exec(open('c06c.py').read().split("rows = collections.defaultdict(list)")[0].replace("print(skipped","#"))
def digits_prec(x):
    if x == 0: return (0, 0.0)
    r = repr(float(abs(x))).lower()
    mant, _, ex = r.partition('e')
    digits = mant.replace('.','').lstrip('0')
    n = len(digits.rstrip('0')) or 1
    if n >= 15: return (n, 2.0**-52)
    e10 = math.floor(math.log10(abs(x)))
    return (n, 0.5*10.0**(e10-n+1)/abs(x))
def prec(u, own):
    tb = infos[u].tobase
    if not hasattr(tb,'__b__'): return 0.0
    t = 0.0
    for x in (tb.__b__, tb.__c__):
        n, p = digits_prec(x)
        if own or n >= 5: t += p
    return t
rows = collections.defaultdict(list); skipped = collections.Counter()
for u, info in infos.items():
    p = parse(u, info.name)
    if p is None or p=='ambiguous': continue
    off, fac = obs(u)
    if off != 0: continue
    prod = 1.0; tol = prec(u, True); ok=True
    for pre,s,e in p:
        o, f = obs(s)
        if o != 0: ok=False; break
        prod *= (pre*f)**e; tol += abs(e)*prec(s, False)
    if not ok: continue
    rows[info.quantity_type].append((u, fac, prod, fac/prod, tol, p))
out=[]
for qt, lst in rows.items():
    base = db.GetBaseUnit(qt)
    ref=None
    for r in lst:
        if r[0]==base: ref=r[3]
    if ref is None:
        if len(lst)<2: continue
        ref = statistics.median_low([r[3] for r in lst])
    for u,fac,prod,k,tol,p in lst:
        rel = abs(k/ref-1)
        out.append((rel/(tol+1e-13), rel, tol, qt, u, fac, prod*ref))
out.sort()
print(len(out))
h = collections.Counter()
for r,*_ in out:
    h['0' if r==0 else ('<0.1' if r<0.1 else '<0.5' if r<0.5 else '<1' if r<1 else '<2' if r<2 else '<10' if r<10 else '<100' if r<100 else '>=100')]+=1
print(h)
for r,rel,tol,qt,u,fac,comp in out:
    if r>=0.5: print(f'{r:9.3g} rel={rel:.2e} tol={tol:.1e} {qt!r:40} {u!r:18} table={fac!r:22} composed={comp!r}')
for r,rel,tol,qt,u,fac,comp in out:
    if u in ('1/galUK','galUK/min','galUK/min.ft','Btu/d','kJ/d.m.K','ft3/scf(60F)','scf(60F)/scf'): print(r,rel,tol,u,fac,comp)
tb = infos['1/galUK'].tobase; print(tb.__a__,tb.__b__,tb.__c__,tb.__d__)
tb = infos['galUK/min'].tobase; print(tb.__a__,tb.__b__,tb.__c__,tb.__d__)
