import random, collections, copy, sys
from barril.units import *
from barril.units.unit_system_manager import UnitSystemManager
import barril; print(barril.__file__)
db = UnitDatabase.GetSingleton()
class Model:
    def __init__(s):
        s.systems = collections.OrderedDict()   # id -> mapping dict
        s.current = None; s.template = None; s.log = []
    def add(s, id, mapping):
        if id in s.systems: return 'reject'
        if s.template is not None:
            if mapping is None: mapping = dict(s.template)
            elif not set(mapping) >= set(s.template): return 'reject'
        elif mapping is None: mapping = {}
        s.systems[id] = dict(mapping)
        if s.current is None: s.current = id; s.log.append(('cur', id))
        return 'ok'
    def remove(s, id):
        if id not in s.systems: return 'reject'
        del s.systems[id]
        if s.current == id:
            s.current = next(iter(s.systems), None); s.log.append(('cur', s.current))
        return 'ok'
    def setcur(s, id):
        s.current = id; s.log.append(('cur', id)); return 'ok'
    def settemplate(s, mapping):
        if any(not set(m) >= set(mapping) for m in s.systems.values()): return 'reject'
        s.template = dict(mapping); return 'ok'
    def setdefault(s, id, cat, unit):
        s.systems[id][cat] = unit
        if s.current == id: s.log.append(('unit', cat, unit))
        return 'ok'
    def removecat(s, id, cat):
        if cat in s.systems[id]:
            del s.systems[id][cat]
            if s.current == id: s.log.append(('unit', cat, None))
        return 'ok'
SHARED = {'length':'m','time':'s'}
MAPS = [None, {'length':'m','time':'s'}, {'length':'cm'}, 'shared', {'length':'km','time':'min','mass':'kg'}]
rng = random.Random(int(sys.argv[1]) if len(sys.argv)>1 else 0)
bad = collections.Counter(); ex = {}
NH = 4000
for h in range(NH):
    m = UnitSystemManager(); M = Model(); log=[]
    m.on_current.Register(lambda s: log.append(('cur', s.GetId())))
    m.on_unit_changed.Register(lambda c,u: log.append(('unit', c,u)))
    shared = dict(SHARED)
    hist=[]
    for step in range(rng.randint(1,12)):
        k = rng.random()
        pre_state = (list(m.GetUnitSystems()), m.GetCurrent().GetId(), {i: dict(s.GetUnitsMapping()) for i,s in m.GetUnitSystems().items()}, list(log))
        try:
            if k < 0.3:
                id = rng.choice('ab'); mp = rng.choice(MAPS); act=('add',id,mp)
                exp = M.add(id, shared if mp=='shared' else mp)
                m.AddUnitSystem(id, id.upper(), shared if mp=='shared' else (None if mp is None else dict(mp)) if mp!='shared' else shared); got='ok'
            elif k < 0.45:
                id = rng.choice('abz'); act=('remove',id); exp = M.remove(id); m.RemoveUnitSystem(id); got='ok'
            elif k < 0.6:
                ids = list(m.GetUnitSystems())+[None]; id = rng.choice(ids); act=('setcur',id); exp = M.setcur(id)
                m.SetCurrent(m.GetUnitSystems()[id] if id else None); got='ok'
            elif k < 0.7:
                mp = rng.choice([{'length':'m'},{'length':'m','time':'s'},{'mass':'kg'}]); act=('template',mp); exp = M.settemplate(mp); m.SetTemplateUnitSystemByUnitsMapping(dict(mp)); got='ok'
            elif k < 0.85:
                if not m.GetUnitSystems(): continue
                id = rng.choice(list(m.GetUnitSystems())); cat=rng.choice(['length','time']); u = rng.choice(['m','cm','s','min']); act=('setdefault',id,cat,u)
                exp = M.setdefault(id,cat,u); m.GetUnitSystems()[id].SetDefaultUnit(cat,u); got='ok'
            elif k < 0.93:
                if not m.GetUnitSystems(): continue
                id = rng.choice(list(m.GetUnitSystems())); cat=rng.choice(['length','time']); act=('removecat',id,cat)
                exp = M.removecat(id,cat); m.GetUnitSystems()[id].RemoveCategory(cat); got='ok'
            else:
                cat, u, v = rng.choice([('length','m',5.0),('length','cm',7.0),('time','s',3.0),('mass','kg',2.0)]); act=('convert',cat,u,v)
                exp='ok'
                r = m.ConvertToCurrent(cat,u,v)
                tu = M.systems.get(M.current,{}).get(cat) if M.current else None
                want = (v,u) if tu is None else (db.Convert(cat,u,tu,v), tu)
                if tu is not None and db.GetQuantityType(tu) != db.GetCategoryQuantityType(cat): want=None
                if want is not None and r != want: bad['convert']+=1; ex.setdefault('convert',(hist,act,r,want))
                got='ok'
        except Exception as e:
            got='reject:'+type(e).__name__
            if act[0]=='convert': got='ok'; 
        hist.append((act,got))
        if (got=='ok') != (exp=='ok'):
            kx=('accept mismatch',act[0],exp,got); bad[kx]+=1; ex.setdefault(kx, list(hist)); break
        if exp=='reject':
            post = (list(m.GetUnitSystems()), m.GetCurrent().GetId(), {i: dict(s.GetUnitsMapping()) for i,s in m.GetUnitSystems().items()}, list(log))
            if post != pre_state: kx=('reject changed',act[0]); bad[kx]+=1; ex.setdefault(kx,list(hist)); break
        st = (list(m.GetUnitSystems()), m.GetCurrent().GetId(), {i: dict(s.GetUnitsMapping()) for i,s in m.GetUnitSystems().items()})
        ms = (list(M.systems), M.current, {i: dict(mp) for i,mp in M.systems.items()})
        if st != ms: kx=('state',act[0]); bad[kx]+=1; ex.setdefault(kx,(list(hist),st,ms)); break
        if log != M.log: kx=('log',act[0]); bad[kx]+=1; ex.setdefault(kx,(list(hist),log[-3:],M.log[-3:])); break
        tpl = m.GetUnitSystemTemplate()
        if (tpl.GetUnitsMapping() if tpl else None) != M.template: kx=('template',act[0]); bad[kx]+=1; ex.setdefault(kx,(list(hist),)); break
print(NH, dict(bad))
for k,v in ex.items(): print(k, '\n    ', str(v)[:700])
