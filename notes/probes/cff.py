from barril.basic.fraction import FractionValue
import barril, random, math, collections
print(barril.__file__)
rng = random.Random(1)
cls = collections.Counter(); ex = {}
for i in range(200000):
    digs = rng.randint(1,8)
    mant = rng.randint(1, 10**digs-1)
    e = rng.randint(-9, 9)
    x = float(f"{mant}e{e-digs}")
    if rng.random()<0.5: x=-x
    try:
        v = FractionValue.CreateFromFloat(x)
        err = abs(float(v)-x)/abs(x)
        k = 'ok' if err <= 1e-12 else ('exp-form' if 'e-' in repr(x) else 'other')
    except Exception as exn:
        k = 'raise '+type(exn).__name__
    cls[k]+=1; ex.setdefault(k, []).append((x, repr(v)))
print(cls)
for k in cls:
    if k!='ok': print(k, ex[k][:6])
