import numpy as np
from barril.units import *
from barril.units import Scalar
from barril.basic.fraction import FractionValue
db = UnitDatabase.GetSingleton()
bad = 0
import collections
errs = collections.Counter()
for u, info in db.unit_to_unit_info.items():
    try:
        c = db.GetDefaultCategory(u)
        if c is None or c not in db.categories_to_quantity_types:
            print('NO/DANGLING DEFAULT CATEGORY', u, c); continue
        if db.GetCategoryQuantityType(c) != info.quantity_type:
            print('DEFAULT CATEGORY WRONG QT', u, c, db.GetCategoryQuantityType(c), info.quantity_type)
        v = 2.5
        forms = [Scalar(v,u), Scalar(v,u,c), Scalar(c,v,u), Scalar((v,u)), Scalar(ObtainQuantity(u,c), v), Scalar.CreateWithQuantity(ObtainQuantity(u,c), v)]
        for i,f in enumerate(forms):
            if not (f == forms[0]): print('SCALAR FORM DIFF', u, i, f, forms[0]); bad+=1
        r = eval(repr(forms[0]))
        if r != forms[0]: print('REPR', u, repr(forms[0]))
    except Exception as e:
        errs[(type(e).__name__, str(e)[:60])]+=1; print('ERR', u, type(e).__name__, str(e)[:100])
for c, ci in db.categories_to_quantity_types.items():
    try:
        a = Scalar(c); b = Scalar(c, ci.default_value, ci.default_unit)
        if a != b: print('CAT DEFAULT DIFF', c, a, b)
        if not a.IsValid(): print('CAT DEFAULT INVALID', c)
        if ci.default_unit not in db.GetUnits(ci.quantity_type): print('default unit not in qt', c)
        if ci.valid_units is not None:
            for vu in ci.valid_units:
                if vu not in db.GetUnits(ci.quantity_type): print('valid unit not in qt', c, vu)
            if ci.default_unit not in ci.valid_units: print('default unit not in valid', c, ci.default_unit, ci.valid_units[:5])
            if len(set(ci.valid_units)) != len(ci.valid_units): print('dup valid units', c)
    except Exception as e:
        print('ERR cat', c, type(e).__name__, str(e)[:100])
print(errs, bad)
# quantity types without same-name category
for qt in db.GetQuantityTypes():
    if qt not in db.categories_to_quantity_types: print('qt without category', qt)
