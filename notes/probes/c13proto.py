import sys; import os; sys.path.insert(0, os.path.dirname(os.path.abspath(__file__)))
import vp_probe_proto as P, vp_mon_proto as M
P.install(); P.LISTENERS.append(M.listener)
import random, operator, pickle, copy, collections
import numpy as np
from barril.units import *
from barril.basic.fraction import FractionValue, Fraction
from barril.curve.curve import Curve
import barril; print(barril.__file__)
rng = random.Random(int(sys.argv[1]) if len(sys.argv)>1 else 0)
US = {'length':['m','cm','km','ft'], 'depth':['m','ft'], 'time':['s','min'], 'temperature':['K','degC','degF']}
def mk_pool():
    pool=[]
    for _ in range(6):
        c = rng.choice(list(US)); pool.append(Scalar(c, round(rng.uniform(-9,9),2), rng.choice(US[c])))
    for mk in (list, tuple, lambda x: np.array(x,dtype=float)):
        for L in (0,2,3):
            c = rng.choice(list(US)); pool.append(Array(c, mk([round(rng.uniform(1,9),2) for _ in range(L)]), rng.choice(US[c])))
        c = rng.choice(list(US)); pool.append(FixedArray(3, c, mk([1.0,2.0,3.0]), rng.choice(US[c])))
    for _ in range(3):
        c = rng.choice(list(US)); pool.append(FractionScalar(c, FractionValue(rng.randint(0,5),(rng.randint(0,7),8)), rng.choice(US[c])))
    pool.append(Scalar.CreateEmptyScalar(2.0)); pool.append(Array.CreateEmptyArray([1.0,2.0])); pool.append(Scalar(GetUnknownQuantity('cap'), 1.0))
    pool.append(FractionValue(1,(1,2))); pool.append(Fraction(3,4))
    return pool
BIN = [operator.add, operator.sub, operator.mul, operator.truediv, operator.floordiv, operator.eq, operator.ne, operator.lt, operator.le, operator.gt, operator.ge]
outcomes = collections.Counter(); copybad = collections.Counter()
for h in range(40):
    pool = mk_pool()
    P.DEPTH.d = 1
    snaps = [M.snap_value(o) for o in pool]
    P.DEPTH.d = 0
    for step in range(150):
        a = rng.choice(pool); k = rng.random()
        try:
            if k < 0.45:
                b = rng.choice(pool + [2, 0.5, np.float64(3.0)]); r = rng.choice(BIN)(a,b)
            elif k < 0.6:
                c = a.GetCategory() if hasattr(a,'GetCategory') else None
                u = rng.choice(US.get(c, ['m'])); r = a.GetValue(u) if hasattr(a,'GetValue') else a.GetValues(u)
            elif k < 0.7: r = (str(a), repr(a), a.GetFormatted() if hasattr(a,'GetFormatted') else None)
            elif k < 0.8: r = a.IsValid() if hasattr(a,'IsValid') else float(a)
            elif k < 0.9:
                r = rng.choice([copy.copy, copy.deepcopy, lambda x: x.CreateCopy() if hasattr(x,'CreateCopy') else copy.copy(x)])(a)
                if not (r == a): copybad[type(a).__name__]+=1
            else:
                if isinstance(a,(Scalar,FixedArray)):
                    r = pickle.loads(pickle.dumps(a))
                    if not (r == a): copybad['pickle '+type(a).__name__]+=1
                else: r=None
            if r is not None and hasattr(r,'GetQuantity') and len(pool)<60 and rng.random()<0.2: pool.append(r); P.DEPTH.d = 1; snaps.append(M.snap_value(r)); P.DEPTH.d = 0
            outcomes['ok']+=1
        except Exception as e:
            outcomes[type(e).__name__]+=1
        P.DEPTH.d = 1
        for o,s in zip(pool,snaps):
            if M.snap_value(o) != s: M.alarm('C13 pool member changed', (s, M.snap_value(o)))
        P.DEPTH.d = 0
M.check_quantities(); M.sweep()
print(dict(outcomes)); print('copybad', dict(copybad)); print('alarms', dict(M.ALARMS))
for k,v in M.EX.items(): print(k, str(v[0])[:400])
