import random, collections, sys, math
import numpy as np
from barril.units import *
from barril.units import ChangeScalars
from barril.units.unit_system_manager import UnitSystemManager
from barril.basic.fraction import FractionValue
import barril; print(barril.__file__)
db = UnitDatabase.GetSingleton()
rng = random.Random(int(sys.argv[1]) if len(sys.argv)>1 else 0)
bad = collections.Counter(); ex={}; n=0
def chk(name, got, want, ctx):
    global n; n+=1
    try:
        g = [float(x) for x in (got if isinstance(got,(list,tuple,np.ndarray)) else [got])]
        w = [float(x) for x in (want if isinstance(want,(list,tuple,np.ndarray)) else [want])]
        ok = len(g)==len(w) and all(a==b or abs(a-b) <= 8*math.ulp(max(abs(a),abs(b),1e-300)) for a,b in zip(g,w))
    except Exception as e:
        ok=False
    if not ok: bad[name]+=1; ex.setdefault(name,(ctx,got,want))
class Owner: pass
for c in list(db.IterCategories()):
    qt = db.GetCategoryQuantityType(c); us = db.GetUnits(qt)
    for _ in range(3):
        u,v = rng.choice(us), rng.choice(us)
        xs = [rng.uniform(-50,50) for _ in range(3)]
        ref = [db.Convert(qt,u,v,x) for x in xs]
        ctx=(c,u,v)
        try:
            s = Scalar(c, xs[0], u)
            chk('Scalar.GetValue', s.GetValue(v), ref[0], ctx)
            cp = s.CreateCopy(unit=v); chk('CreateCopy', cp.value, ref[0], ctx)
            if cp.GetCategory()!=c or cp.GetQuantityType()!=qt or cp.GetUnit()!=v: bad['CreateCopy meta']+=1; ex.setdefault('CreateCopy meta',(ctx,repr(cp)))
            o = Owner(); o.a = s; ChangeScalars(o, a=(None, v)); chk('ChangeScalars', o.a.value, ref[0], ctx)
            if o.a.GetCategory()!=c: bad['ChangeScalars meta']+=1
            a = Array(c, list(xs), u); chk('Array list', a.GetValues(v), ref, ctx)
            chk('Array nd', Array(c, np.array(xs), u).GetValues(v), ref, ctx)
            chk('Array tuple', Array(c, tuple(xs), u).GetValues(v), ref, ctx)
            lt = Array(c, [tuple(xs), tuple(xs)], u).GetValues(v); chk('Array list-of-tuples', list(lt[1]), ref, ctx)
            ac = a.CreateCopy(unit=v); chk('Array.CreateCopy', ac.values, ref, ctx)
            if ac.GetCategory()!=c: bad['Array.CreateCopy meta']+=1
            fa = FixedArray(3, c, list(xs), u)
            ias = fa.IndexAsScalar(1, ObtainQuantity(v,c)); chk('IndexAsScalar', ias.value, ref[1], ctx)
            if ias.GetCategory()!=c: bad['IndexAsScalar meta']+=1
            ci = fa.ChangingIndex(0, Scalar(c, 5.0, v)); chk('ChangingIndex others', list(ci.values)[1:], ref[1:], ctx); chk('ChangingIndex idx', ci.values[0], 5.0, ctx)
            ci2 = fa.ChangingIndex(0, Scalar(c, 5.0, v), use_value_unit=False); chk('ChangingIndex keep', ci2.values[0], db.Convert(qt,v,u,5.0), ctx); 
            if ci2.GetUnit()!=u or ci.GetUnit()!=v or ci.dimension!=3: bad['ChangingIndex meta']+=1
            m = UnitSystemManager(); m.AddUnitSystem('x','X',{c:v})
            r = m.ConvertToCurrent(c,u,xs[0]); chk('ConvertToCurrent', r[0], ref[0], ctx)
            if r[1]!=v: bad['ConvertToCurrent unit']+=1
            sc = m.ConvertScalarToCurrent(s); chk('ConvertScalarToCurrent', sc.value, ref[0], ctx)
            if sc.GetCategory()!=c or sc.GetUnit()!=v: bad['ConvertScalarToCurrent meta']+=1; ex.setdefault('ConvertScalarToCurrent meta',(ctx,repr(sc)))
            d = Scalar(c, unit=v); ci_ = db.GetCategoryInfo(c); chk('default other unit', d.value, db.Convert(qt, ci_.default_unit, v, ci_.default_value), ctx)
            chk('own unit', s.GetValue(u), xs[0], ctx)
            fs = FractionScalar(c, xs[0], u); chk('FractionScalar', float(fs.GetValue(v)), ref[0], ctx)
        except Exception as e:
            k=('raise',type(e).__name__,str(e)[:50]); bad[k]+=1; ex.setdefault(k,ctx)
# derived own unit
for t in range(300):
    a = Scalar(rng.uniform(1,9), rng.choice(['m','cm','ft']))*Scalar(2.0, rng.choice(['s','kg','psi']))/Scalar(3.0, rng.choice(['K','A','mol']))
    try:
        if a.GetValue(a.GetUnit()) != a.value: bad['derived own unit']+=1
        if Array([a.value],a.GetQuantity()) if False else None: pass
    except Exception as e: bad[('derived own unit raise',type(e).__name__)]+=1
print(n, dict(bad))
for k,v in ex.items(): print(k, str(v)[:300])
