import random, collections, sys, operator
import numpy as np
from barril.units import *
from barril.units.unit_database import UnitsError
from barril.basic.fraction import FractionValue
import barril; print(barril.__file__)
db = UnitDatabase.GetSingleton()
rng = random.Random(0)
out = collections.Counter(); ex={}
qts = db.GetQuantityTypes()
def rec(kind, f, ctx):
    try:
        r = f(); k=(kind,'RETURNED'); out[k]+=1; ex.setdefault(k,(ctx,repr(r)[:80]))
    except (UnitsError, TypeError, ValueError) as e: out[(kind,'ok')]+=1
    except Exception as e:
        k=(kind,type(e).__name__); out[k]+=1; ex.setdefault(k,(ctx,str(e)[:80]))
for c in db.IterCategories():
    qt = db.GetCategoryQuantityType(c)
    if qt=='Unknown': continue
    for _ in range(4):
        oq = rng.choice([q for q in qts if q!=qt and q!='Unknown']); fu = rng.choice(db.GetUnits(oq)); u = rng.choice(db.GetUnits(qt))
        ctx=(c,u,fu)
        rec('Scalar(v,u,c)', lambda: Scalar(1.0,fu,c), ctx)
        rec('Scalar(c,v,u)', lambda: Scalar(c,1.0,fu), ctx)
        rec('Array', lambda: Array([1.0],fu,c), ctx)
        rec('FixedArray', lambda: FixedArray(2,c,[1.0,2.0],fu), ctx)
        rec('FractionScalar', lambda: FractionScalar(c,1.0,fu), ctx)
        rec('ObtainQuantity', lambda: ObtainQuantity(fu,c), ctx)
        rec('Quantity', lambda: Quantity(c,fu), ctx)
        rec('CreateDerived', lambda: Quantity.CreateDerived(__import__('collections').OrderedDict([(c,[fu,2])])), ctx)
        s = Scalar(c,2.0,u); o = Scalar(1.0,fu)
        rec('GetValue', lambda: s.GetValue(fu), ctx)
        rec('CreateCopy', lambda: s.CreateCopy(unit=fu), ctx)
        rec('db.Convert f', lambda: db.Convert(c,u,fu,1.0), ctx)
        rec('db.Convert qt', lambda: db.Convert(qt,u,fu,1.0), ctx)
        rec('db.Convert np', lambda: db.Convert(qt,u,fu,np.array([1.0])), ctx)
        rec('db.Convert list', lambda: db.Convert(qt,u,fu,[1.0]), ctx)
        rec('Array.GetValues', lambda: Array(c,[1.0],u).GetValues(fu), ctx)
        rec('FractionScalar.GetValue', lambda: FractionScalar(c,1.0,u).GetValue(fu), ctx)
        if 'dimensionless' in (qt, oq): continue
        for opn,op in (('+',operator.add),('-',operator.sub),('<',operator.lt),('<=',operator.le),('>',operator.gt),('>=',operator.ge)):
            rec('Scalar'+opn, lambda: op(s,o), ctx)
            if opn in '+-': rec('Array'+opn, lambda: op(Array(c,[1.0,2.0],u), Array([1.0,2.0],fu)), ctx); rec('Arraynp'+opn, lambda: op(Array(c,np.array([1.0,2.0]),u), Array(np.array([1.0,2.0]),fu)), ctx)
            else: rec('FractionScalar'+opn, lambda: op(FractionScalar(c,1.0,u), FractionScalar(1.0,fu)), ctx)
        d1 = s*Scalar(2.0,'m'); d2 = o*Scalar(2.0,'m')
        rec('derived+', lambda: d1+d2, ctx); rec('derived-', lambda: d1-d2, ctx)
bad = {k:v for k,v in out.items() if k[1]!='ok'}
print(sum(out.values()), bad)
for k in bad: print(k, ex[k])
