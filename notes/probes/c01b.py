import math, itertools, collections, random
from barril.units import UnitDatabase
db = UnitDatabase.GetSingleton()
qts = db.GetQuantityTypes()
vals = [0.0, 1.0, -1.0, 0.5, 3.7, -273.15, 273.15, 32.0, 1e-6, 1e6, 123456.789, -1e9, 1e12, 101325.0, -101325.0]
worst = collections.Counter()
maxrel = 0
n=0
bad = []
for qt in qts:
    units = db.GetUnits(qt)
    for u in units:
        for v in units:
            for x in vals:
                n+=1
                y = db.Convert(qt, u, v, x)
                z = db.Convert(qt, v, u, y)
                # tolerance relative to scale of x and offsets
                iu = db.GetInfo(qt,u); iv=db.GetInfo(qt,v)
                # scale: |x| + |offset in u units|
                def off(i):
                    tb=i.tobase
                    if hasattr(tb,'__a__'):
                        return abs(tb.__a__/tb.__b__) if tb.__b__ else 0
                    return 0
                scale = abs(x) + off(iu) + off(iv)*abs((iv.tobase.__b__/iv.tobase.__c__) / (iu.tobase.__b__/iu.tobase.__c__)) if hasattr(iv.tobase,'__a__') and hasattr(iu.tobase,'__a__') else abs(x)+off(iu)
                err = abs(z-x)
                rel = err/scale if scale else err
                if rel > maxrel:
                    maxrel = rel; print("newmax", qt,u,v,x,y,z,rel)
                if rel > 1e-12: bad.append((qt,u,v,x,z,rel))
print(n, maxrel, len(bad))
