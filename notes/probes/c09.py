import operator, numpy as np
from barril.units import *
def show(label, f):
    try:
        r = f(); print(label, '->', type(r).__name__, repr(r))
    except Exception as e: print(label, 'ERR', type(e).__name__, str(e)[:100])
ops = [('+',operator.add),('-',operator.sub),('*',operator.mul),('/',operator.truediv),('//',operator.floordiv)]
xs = {'S': Scalar(6,'m'), 'Sd': Scalar(6,'m')*Scalar(1,'m')/Scalar(2,'s'), 'Al': Array([6.,8.],'m'), 'At': Array((6.,8.),'m'), 'An': Array(np.array([6.,8.]),'m'), 'FA': FixedArray(2,[6.,8.],'m'), 'FS': FractionScalar(6.0,'m')}
ks = {'int':2, 'float':2.0, 'npf64': np.float64(2.0), 'npi64': np.int64(2), 'npf32': np.float32(2.0), 'nparr': np.array([2.,4.]), 'bool': True, 'complex': 2+0j}
for xn,x in xs.items():
    for kn,k in ks.items():
        for on,op in ops:
            show(f'{xn} {on} {kn}', lambda: op(x,k))
            show(f'{kn} {on} {xn}', lambda: op(k,x))
