"""pytest plugin: the repository's own test-suite as a *workload* for the global invariant monitors.

Used by ``vp.suite_workload`` (thorough tier of C07 / C11 / C13 / C15): ``pytest -p vp.suite_plugin`` runs
the unedited tests of the tree under test in-process, with the probe installed and four monitors watching:

  C13  operand-frozen   deep snapshot of every value object among the arguments of every boundary call
  C15  registry-pure    canonical snapshot of the *current* UnitDatabase singleton around every boundary call
                        that is not a registration / singleton management call
  C07  quantity-frozen  every Quantity constructed is fingerprinted; re-checked after every test
  C11  sizes            gc sweep of all live FixedArray / Curve instances after every test

The suite asserts literals on its own; here it only supplies realistic call sequences (22 000 boundary calls).
It decides nothing alone: alarms are written to $VP_SUITE_OUT as JSON and merged by the caller.
"""
import json
import os

ALARMS = {}  # (property, key) -> {"count", "detail"}
STATS = {"boundary_calls": 0, "tests": 0, "registry_snapshots": 0, "quantity_fingerprints": 0, "objects_swept": 0}
_STATE = {}

REGISTRY_CHANGERS = (
    "UnitDatabase.AddUnit", "UnitDatabase.AddUnitBase", "UnitDatabase.AddCategory", "UnitDatabase.Clear", "UnitDatabase.FillUnitDatabaseWithPosc", "UnitDatabase.FillSimple",
    "UnitDatabase.CreateDefaultSingleton", "UnitDatabase.PushSingleton", "UnitDatabase.PopSingleton", "UnitDatabase.SetSingleton", "UnitDatabase.ClearSingleton", "UnitDatabase.__init__",
    "UnitDatabase.RegisterAdditionalConversionType", "UnitDatabase.RegisterNumpyConversion", "UnitDatabase.ResetInstance",
)  # fmt: skip


def alarm(prop, key, detail):
    a = ALARMS.setdefault((prop, key), {"count": 0, "detail": detail, "test": _STATE.get("test")})
    a["count"] += 1


class RegistryListener:
    """C15: the database a call starts with reports the same after the call, unless the call is a registration."""

    def __init__(self):
        self.stack = []

    def __call__(self, kind, qual, a, k, payload):
        from barril.units import UnitDatabase

        from . import probe
        from .models import snapshot

        if kind == "call":
            STATS["boundary_calls"] += 1
            snap = None
            if not qual.startswith(("UnitDatabase.Add", "UnitSystem", "Curve")) and qual not in REGISTRY_CHANGERS:
                try:
                    with probe.muted():
                        db = UnitDatabase.GetSingleton()
                        snap = (db, snapshot.registry(db, sample_conversions=False))
                        STATS["registry_snapshots"] += 1
                except Exception:
                    snap = None
            self.stack.append(snap)
            return
        snap = self.stack.pop() if self.stack else None
        if snap is None:
            return
        db, before = snap
        try:
            with probe.muted():
                after = snapshot.registry(db, sample_conversions=False)
        except Exception as e:
            alarm("C15", "registry-snapshot-raised-after:%s" % qual, {"error": repr(e)[:200]})
            return
        if after != before:
            alarm("C15", "query-changed-the-registry:%s" % qual, {"diff": snapshot.diff(before, after)})


class SizesListener:
    """C11: every FixedArray / Curve that a boundary call returns or was called on satisfies the size invariants."""

    def __call__(self, kind, qual, a, k, payload):
        if kind == "call":
            return
        from .monitors import sizes

        for o in (payload if kind == "return" else None,) + tuple(a[:1]):
            if o is None:
                continue
            try:
                p = sizes.check_object(o)
            except Exception:
                continue
            if type(o).__name__ in ("FixedArray", "Curve"):
                STATS["objects_swept"] += 1
            if p and not qual.endswith(".__init__"):
                alarm("C11", "size-invariant-broken-after:%s" % qual, {"problem": p, "object": repr(o)[:160]})


def pytest_configure(config):
    from . import env, probe
    from .monitors.operand_frozen import OperandMonitor
    from .monitors.quantity_frozen import QuantityMonitor

    env.setup()
    why = env.assert_repo()
    if why:
        raise RuntimeError(why)
    probe.install()
    _STATE["operands"] = OperandMonitor()
    _STATE["operands"].install()
    _STATE["quantities"] = QuantityMonitor()
    _STATE["quantities"].install()
    _STATE["registry"] = RegistryListener()
    probe.subscribe(_STATE["registry"])
    probe.subscribe(SizesListener())


def pytest_runtest_setup(item):
    _STATE["test"] = item.nodeid


def pytest_runtest_teardown(item, nextitem):
    from . import probe
    from .monitors import sizes

    STATS["tests"] += 1
    om = _STATE["operands"]
    for qual, before, after in om.drain():
        alarm("C13", "operand-changed-by:%s" % qual, {"before": repr(before)[:300], "after": repr(after)[:300]})
    qm = _STATE["quantities"]
    try:
        for fp, now, born in qm.quiescent():
            alarm("C07", "quantity-changed", {"before": repr(fp)[:300], "after": repr(now)[:300]})
        STATS["quantity_fingerprints"] = qm.n_checks
        # quantities of a finished test belong to a database that is thrown away: start afresh
        qm.reset()
    except Exception as e:
        alarm("C07", "fingerprint-raised", {"error": repr(e)[:200]})
    with probe.muted():
        bad, n_fa, n_cv = sizes.sweep()
    STATS["objects_swept"] += n_fa + n_cv
    for o, p in bad[:5]:
        alarm("C11", "gc-sweep:%s" % type(o).__name__, {"problem": p, "object": repr(o)[:160]})


def pytest_unconfigure(config):
    out = os.environ.get("VP_SUITE_OUT")
    if not out:
        return
    om = _STATE.get("operands")
    if om is not None:
        STATS["operand_snapshots"] = om.n_snapshots
    with open(out, "w") as f:
        json.dump({"stats": STATS, "alarms": [{"property": p, "key": k, "count": v["count"], "detail": v["detail"], "test": v["test"]} for (p, k), v in ALARMS.items()]}, f, default=repr)
