"""Operation histories as pure data, and their interpreter (DESIGN.md 2.4).

A history is a list of op specs (tuples of plain data); the same history can be executed against
several databases (warm / fresh / twin), written to a replay file and minimised.  Objects live in a
pool addressed by small integer slots; an op that fails leaves its destination slot untouched.

Outcome of a step:  ("ok", canonical) | ("exc", exception class name, family)
family in {"units", "type", "value", "validation", "other:<class>"}.
"""
import copy
import operator
import pickle
from collections import OrderedDict

BINOPS = {
    "+": operator.add, "-": operator.sub, "*": operator.mul, "/": operator.truediv, "//": operator.floordiv,
    "<": operator.lt, "<=": operator.le, ">": operator.gt, ">=": operator.ge, "==": operator.eq, "!=": operator.ne,
}  # fmt: skip


RAISED_IN_OWN_LINE = {}  # "<op>:<exception> at histories.py:<line>" -> count


def family(e):
    from barril.units.exceptions import QuantityValidationError
    from barril.units.unit_database import UnitsError

    if isinstance(e, QuantityValidationError):
        return "validation"
    if isinstance(e, UnitsError):
        return "units"
    if isinstance(e, TypeError):
        return "type"
    if isinstance(e, ValueError):
        return "value"
    return "other:%s" % type(e).__name__


def canon(r, depth=0):
    """Canonical, comparable description of a result."""
    import numpy as np
    from barril.basic.fraction import Fraction, FractionValue
    from barril.units import AbstractValueWithQuantityObject, Quantity

    if isinstance(r, Quantity):
        return ("Quantity", tuple((c, tuple(ue)) for c, ue in r.GetCategoryToUnitAndExps().items()), r.GetUnknownCaption() or "", r.GetUnit(), r.GetCategory(), r.GetQuantityType())
    if isinstance(r, AbstractValueWithQuantityObject):
        v = r.GetAbstractValue()
        return (type(r).__name__, canon(v, depth + 1), canon(r.GetQuantity(), depth + 1), getattr(r, "dimension", None) if hasattr(type(r), "dimension") else None)
    if isinstance(r, FractionValue):
        f = r.GetFraction()
        return ("FractionValue", repr(r.GetNumber()), f.numerator, f.denominator)
    if isinstance(r, Fraction):
        return ("Fraction", r.numerator, r.denominator)
    if isinstance(r, np.ndarray):
        return ("nd", tuple(repr(float(x)) for x in r.ravel()), r.shape)
    if isinstance(r, (list, tuple)) and depth < 4:
        return (type(r).__name__, tuple(canon(x, depth + 1) for x in r))
    if isinstance(r, (float, np.floating)):
        return repr(float(r))
    if isinstance(r, (bool, int, str)) or r is None:
        return r
    if isinstance(r, (set, frozenset)):
        return ("set", tuple(sorted(map(repr, r))))
    return repr(r)


class Skip(Exception):
    """The op refers to a slot that was never filled (its creating op failed): not executed."""


class HarnessBug(Exception):
    pass


class _Pool(dict):
    def __missing__(self, k):
        raise Skip(k)


class Env:
    def __init__(self, db):
        self.db = db
        self.pool = _Pool()

    def get(self, ref):
        """ref: ("slot", i) | ("num", x) | ("nd", [..])"""
        import numpy as np

        k = ref[0]
        if k == "slot":
            return self.pool[ref[1]]
        if k == "num":
            return ref[1]
        if k == "npnum":
            return getattr(np, ref[1])(ref[2])
        if k == "nd":
            return np.array(ref[1], dtype=float)
        raise HarnessBug(ref)


def _container(values, kind):
    import numpy as np

    if kind == "list":
        return list(values)
    if kind == "tuple":
        return tuple(values)
    if kind == "nd":
        return np.array(values, dtype=float)
    if kind == "ndint":
        return np.array([int(v) for v in values], dtype=np.int64)
    if kind == "lot":  # list of tuples
        return [tuple(values), tuple(values)]
    raise ValueError(kind)


def execute(env, op):
    """Executes one op; returns (outcome, result object or None). Never raises for barril errors."""
    from barril.basic.fraction import FractionValue
    from barril.units import Array, ChangeScalars, FixedArray, FractionScalar, ObtainQuantity, Quantity, Scalar

    name = op[0]
    dst = None
    try:
        if name == "scalar":  # (scalar, dst, form, category, value, unit)
            _n, dst, form, c, x, u = op
            if form == "vuc":
                r = Scalar(x, u, c)
            elif form == "vu":
                r = Scalar(x, u)
            elif form == "cvu":
                r = Scalar(c, x, u)
            elif form == "tuple":
                r = Scalar((x, u))
            elif form == "c":
                r = Scalar(c)
            elif form == "cu":
                r = Scalar(c, unit=u)
            elif form == "q":
                r = Scalar(ObtainQuantity(u, c), x)
            elif form == "cwq":
                r = Scalar.CreateWithQuantity(ObtainQuantity(u, c), x)
            elif form == "empty":
                r = Scalar.CreateEmptyScalar(x)
            else:
                raise HarnessBug(form)
        elif name == "array":  # (array, dst, cls, category, values, unit, container)
            _n, dst, cls, c, vals, u, kind = op
            cont = _container(vals, kind)
            if cls == "Array":
                r = Array(c, cont, u) if c is not None else Array(cont, u)
            elif cls == "FixedArray":
                r = FixedArray(len(vals), c, cont, u) if c is not None else FixedArray(len(vals), cont, u)
            elif cls == "EmptyArray":
                r = Array.CreateEmptyArray(cont)
            else:
                raise HarnessBug(cls)
        elif name == "fscalar":  # (fscalar, dst, category, number, num, den, unit)
            _n, dst, c, number, num, den, u = op
            r = FractionScalar(c, FractionValue(number, (num, den)), u)
        elif name == "quantity":  # (quantity, dst, unit, category, caption)
            _n, dst, u, c, cap = op
            r = ObtainQuantity(u, c, cap) if cap else ObtainQuantity(u, c)
        elif name == "quantity_ctor":
            _n, dst, c, u = op
            r = Quantity(c, u)
        elif name == "derived":  # (derived, dst, [(category, unit, exp)...], how)
            _n, dst, items, how = op
            od = OrderedDict((c, [u, e]) for c, u, e in items)
            if how == "CreateDerived":
                r = Quantity.CreateDerived(od)
            elif how == "ObtainQuantity(dict)":
                r = ObtainQuantity(od)
            else:
                r = ObtainQuantity([(u, e) for c, u, e in items], [c for c, u, e in items])
        elif name == "wrap":  # (wrap, dst, cls, quantity slot, values, container)
            _n, dst, cls, qslot, vals, kind = op
            q = env.pool[qslot]
            if cls == "Scalar":
                r = Scalar(q, vals[0])
            elif cls == "Array":
                r = Array(q, _container(vals, kind))
            else:
                r = FixedArray(len(vals), q, _container(vals, kind))
        elif name == "binop":  # (binop, dst, op, refa, refb)
            _n, dst, o, ra, rb = op
            r = BINOPS[o](env.get(ra), env.get(rb))
        elif name == "pow":
            _n, dst, ra, k = op
            r = env.get(ra) ** k
        elif name == "getvalue":  # (getvalue, slot, unit)
            o = env.pool[op[1]]
            r = o.GetValue(op[2]) if hasattr(o, "GetValue") else o.GetValues(op[2])
        elif name == "copyunit":  # (copyunit, dst, slot, unit, category)
            _n, dst, s, u, c = op
            r = env.pool[s].CreateCopy(unit=u, category=c) if c else env.pool[s].CreateCopy(unit=u)
        elif name == "copy":  # (copy, dst, slot, how)
            _n, dst, s, how = op
            o = env.pool[s]
            if how == "copy":
                r = copy.copy(o)
            elif how == "deepcopy":
                r = copy.deepcopy(o)
            elif how == "CreateCopy":
                r = o.CreateCopy()
            elif how == "pickle":
                r = pickle.loads(pickle.dumps(o))
            elif how == "Copy":
                r = o.Copy()
            else:
                raise HarnessBug(how)
        elif name == "changescalars":
            _n, dst, s, x, u = op

            class Owner:
                pass

            ow = Owner()
            ow.a = env.pool[s]
            ChangeScalars(ow, a=(x, u))
            r = ow.a
        elif name == "convert":  # (convert, qt_or_category, u, v, x, container)
            _n, qt, u, v, x, kind = op
            r = env.db.Convert(qt, u, v, x if kind is None else _container(x, kind))
        elif name == "qconvert":  # (qconvert, quantity slot or value slot, x, unit)
            o = env.pool[op[1]]
            q = o if isinstance(o, Quantity) else o.GetQuantity()
            r = q.ConvertScalarValue(op[2], op[3])
        elif name == "call":  # (call, slot, method, args)  read-only methods of value objects / quantities
            o = env.pool[op[1]]
            r = getattr(o, op[2])(*op[3])
        elif name == "builtin":  # (builtin, fn, slot)
            o = env.pool[op[2]]
            r = {"repr": repr, "str": str, "hash": hash, "len": len, "list": list, "float": float}[op[1]](o)
            if op[1] == "hash":
                r = "hash-ok"
        elif name == "db":  # (db, method, args)
            r = getattr(env.db, op[1])(*op[2])
            if isinstance(r, list):
                r = list(r)
        elif name == "add_unit":  # (add_unit, qt, name, unit, factor)
            _n, qt, nm, u, f = op
            env.db.AddUnit(qt, nm, u, "%%f / %r" % f, "%%f * %r" % f)
            r = None
        elif name == "add_unit_base":
            _n, qt, nm, u = op
            env.db.AddUnitBase(qt, nm, u)
            r = None
        elif name == "add_category":  # (add_category, category, kwargs dict)
            kw = dict(op[2])
            if "valid_units" in kw and kw["valid_units"] is not None:
                kw["valid_units"] = list(kw["valid_units"])
            ci = env.db.AddCategory(op[1], **kw)
            r = (ci.category, ci.quantity_type, ci.default_unit, repr(ci.default_value))
        else:
            raise HarnessBug(name)
    except Skip:
        return ("skip",), None
    except HarnessBug:
        raise
    except Exception as e:
        tb = e.__traceback__
        while tb.tb_next is not None:
            tb = tb.tb_next
        if tb.tb_frame.f_code.co_filename == __file__ or tb.tb_frame.f_code.co_filename.endswith("workloads/histories.py"):
            # raised by the interpreter's own line, not inside barril: an unsupported operation (no such method,
            # operands Python cannot combine) - or a mistake of the interpreter; the evidence names the line
            k = "%s:%s at histories.py:%d" % (name, type(e).__name__, tb.tb_lineno)
            RAISED_IN_OWN_LINE[k] = RAISED_IN_OWN_LINE.get(k, 0) + 1
        return ("exc", type(e).__name__, family(e)), None
    try:
        c = canon(r)
    except Exception as e:
        return ("exc-in-canon", type(e).__name__, family(e)), None
    if dst is not None:
        env.pool[dst] = r
    return ("ok", c), r


REGISTRATIONS = ("add_unit", "add_unit_base", "add_category")


def is_registration(op):
    return op[0] in REGISTRATIONS
