"""The databases the library can build by itself, and exhaustive iterators over their contents."""
import contextlib

KINDS = ("posc", "posc_nocat", "simple")


def build(kind):
    from barril.units import UnitDatabase

    db = UnitDatabase()
    if kind == "posc":
        UnitDatabase.FillUnitDatabaseWithPosc(db)
    elif kind == "posc_nocat":
        UnitDatabase.FillUnitDatabaseWithPosc(db, fill_categories=False)
    elif kind == "simple":
        UnitDatabase.FillSimple(db)
    elif kind == "empty":
        pass
    else:
        raise ValueError(kind)
    return db


@contextlib.contextmanager
def pushed(db):
    from barril.units import UnitDatabase

    UnitDatabase.PushSingleton(db)
    try:
        yield db
    finally:
        UnitDatabase.PopSingleton()


def units_by_type(db):
    """{quantity type: [unit, ...]} in registration order (first = base by convention)."""
    return {qt: [i.unit for i in infos] for qt, infos in db.quantity_types.items()}


def categories_by_type(db):
    out = {}
    for c, ci in db.categories_to_quantity_types.items():
        out.setdefault(ci.quantity_type, []).append(c)
    return out
