"""Random expression trees ("programs") over Scalars / Arrays, as pure data specs (DESIGN.md 2.4).

spec :=  ("leaf", category, values(list of float), unit)
       | ("dleaf", [(category, unit, exp), ...], values)      a derived quantity built with
                                                              Quantity.CreateDerived (may carry two
                                                              categories of one quantity type in
                                                              different units)
       | ("*", a, b) | ("/", a, b) | ("//", a, b) | ("**", a, n)
The same spec is evaluated by barril (Scalar or Array in a given container kind) and by the
dimensional model, node by node.
"""
from collections import OrderedDict
from fractions import Fraction as Fr

from ..models import dims

NICE = [1.0, 2.0, 0.5, 3.0, 10.0, 0.25, 4.0, 7.0, 100.0, 1e-3, 1.5, 12.0]


class Basis:
    """Quantity types with >= 3 scale-only units and >= 2 categories, drawn from the live table."""

    PREFERRED = ["length", "time", "mass", "pressure", "volume", "force", "area", "electric current",
                 "moment of force", "plane angle", "power", "velocity", "amount of substance", "energy"]  # fmt: skip

    def __init__(self, table, rng, n_types=12, n_units=8, n_cats=3):
        self.table = table
        db = table.db
        cats = {}
        for c, ci in db.categories_to_quantity_types.items():
            cats.setdefault(ci.quantity_type, []).append(c)
        self.types = OrderedDict()
        cand = [q for q in self.PREFERRED if q in db.quantity_types]
        others = [q for q in sorted(db.quantity_types) if q not in cand]
        rng.shuffle(others)
        for qt in cand + others:
            us = [i.unit for i in db.quantity_types[qt] if i.unit in table.aff and table.aff[i.unit].off == 0.0
                  and table.aff[i.unit].exact and table.aff[i.unit].slope > 0]  # fmt: skip
            cs = cats.get(qt, [])
            if len(us) >= 3 and len(cs) >= 2 or (len(us) >= 3 and len(cs) >= 1 and len(self.types) < 4):
                us2 = us[:2] + rng.sample(us[2:], min(len(us) - 2, n_units - 2))
                self.types[qt] = (us2, cs[:n_cats])
            if len(self.types) >= n_types:
                break
        # quantity types with offset (affine) units: used only by same_dimension_pair, one unit per
        # side and exponent != +1, where "unit ratio raised to the exponent" is the ratio of slopes
        self.affine_types = OrderedDict()
        for qt in sorted(db.quantity_types):
            us = [i.unit for i in db.quantity_types[qt] if i.unit in table.aff and table.aff[i.unit].exact and table.aff[i.unit].slope > 0]
            if any(table.aff[u].off != 0.0 for u in us) and cats.get(qt):
                self.affine_types[qt] = (us, cats[qt][:n_cats])

    def leaf(self, rng, n, qt=None):
        qt = qt or rng.choice(list(self.types))
        us, cs = self.types[qt]
        return ("leaf", rng.choice(cs), self.values(rng, n), rng.choice(us))

    @staticmethod
    def values(rng, n):
        out = []
        for _ in range(n):
            r = rng.random()
            v = rng.choice(NICE) if r < 0.6 else round(rng.uniform(0.1, 50), 3)
            if rng.random() < 0.2:
                v = -v
            out.append(v)
        return out

    def tree(self, rng, depth, n, floordiv=False):
        if depth == 0 or rng.random() < 0.3:
            return self.leaf(rng, n)
        op = rng.choice(["*", "/", "*", "/", "**"] + (["//"] if floordiv else []))
        a = self.tree(rng, depth - 1, n, floordiv)
        if op == "**":
            # high powers only on leaves (magnitudes stay far from overflow)
            return ("**", a, rng.randint(1, 6) if a[0] == "leaf" else rng.randint(1, 3))
        return (op, a, self.tree(rng, depth - 1, n, floordiv))

    def same_dimension_pair(self, rng, n, max_types=3, max_exp=3, allow_dleaf=True):
        """Two specs with the same dimension vector but independently drawn units, categories,
        association order and tree shape."""
        k = rng.randint(1, max_types)
        qts = rng.sample(list(self.types), min(k, len(self.types)))
        exps = [rng.choice([e for e in range(-max_exp, max_exp + 1) if e]) for _ in qts]
        types = dict(self.types)
        affine_qt = None
        if self.affine_types and rng.random() < 0.12:
            affine_qt = rng.choice(list(self.affine_types))
            types[affine_qt] = self.affine_types[affine_qt]
            keep = [(q, e) for q, e in zip(qts, exps) if q != affine_qt][: max(0, k - 1)]
            qts = [q for q, e in keep] + [affine_qt]
            exps = [e for q, e in keep] + [rng.choice([-3, -2, -1, 2, 3])]
        dleaf = allow_dleaf and affine_qt is None
        a = self._build_side(rng, n, qts, exps, types, dleaf, affine_qt)
        b = self._build_side(rng, n, qts, exps, types, dleaf, affine_qt)
        return a, b, dict(zip(qts, exps))

    def _build_side(self, rng, n, qts, exps, types, allow_dleaf, affine_qt):
        if allow_dleaf and rng.random() < 0.15:
            items = []
            for qt, e in zip(qts, exps):
                us, cs = types[qt]
                # split the exponent over up to two categories (possibly in different units)
                if len(cs) >= 2 and abs(e) >= 2 and rng.random() < 0.6:
                    c1, c2 = rng.sample(cs, 2)
                    e1 = e // abs(e)
                    items.append((c1, rng.choice(us), e1))
                    items.append((c2, rng.choice(us), e - e1))
                else:
                    items.append((rng.choice(cs), rng.choice(us), e))
            if len({c for c, _u, _e in items}) == len(items):
                return ("dleaf", items, self.values(rng, n))
        factors = []
        for qt, e in zip(qts, exps):
            us, cs = types[qt]
            u, c = rng.choice(us), rng.choice(cs)
            same = rng.random() < 0.7 or qt == affine_qt  # mostly one unit/category per type, sometimes mixed
            for _ in range(abs(e)):
                if not same:
                    u, c = rng.choice(us), rng.choice(cs)
                factors.append((1 if e > 0 else -1, ("leaf", c, self.values(rng, n), u)))
        rng.shuffle(factors)
        return self._fold(rng, factors)

    def _fold(self, rng, factors):
        """Random association of signed factors into a tree of * and / (1/x written as number / x
        is C09's business; here a leading negative factor is handled by dividing a positive one, or,
        if there is none, by a dimensionless-free trick: x**-1 is expressed as (y / (y * x)))."""
        pos = [f for s, f in factors if s > 0]
        neg = [f for s, f in factors if s < 0]
        if not pos:
            # all negative: 1/(a*b*c) is built as  a / (a * a * b * c) with the first factor reused
            first = neg[0]
            den = first
            for f in neg:
                den = ("*", den, f)
            return ("/", first, den)
        acc = pos[0]
        rest = [(1, f) for f in pos[1:]] + [(-1, f) for f in neg]
        rng.shuffle(rest)
        i = 0
        while i < len(rest):
            s, f = rest[i]
            # occasionally group the next two factors first: acc op (f op2 g)
            if i + 1 < len(rest) and rng.random() < 0.3:
                s2, g = rest[i + 1]
                sub = ("*", f, g) if s == s2 else ("/", f, g)
                acc = ("*", acc, sub) if s > 0 else ("/", acc, sub)
                i += 2
            else:
                acc = ("*", acc, f) if s > 0 else ("/", acc, f)
                i += 1
        return acc


def render(spec):
    t = spec[0]
    if t == "leaf":
        return "%s[%s|%s]" % (spec[2][0] if len(spec[2]) == 1 else spec[2], spec[3], spec[1])
    if t == "dleaf":
        return "%s{%s}" % (spec[2], ",".join("%s:%s^%d" % i for i in spec[1]))
    if t == "**":
        return "(%s)**%d" % (render(spec[1]), spec[2])
    return "(%s %s %s)" % (render(spec[1]), t, render(spec[2]))


def count_ops(spec):
    t = spec[0]
    if t in ("leaf", "dleaf"):
        return 0
    if t == "**":
        return count_ops(spec[1]) + spec[2]
    return 1 + count_ops(spec[1]) + count_ops(spec[2])


# ------------------------------------------------------------------------------------ evaluation
def make_container(values, kind):
    import numpy as np

    if kind == "list":
        return list(values)
    if kind == "tuple":
        return tuple(values)
    if kind == "nd":
        return np.array(values, dtype=float)
    raise ValueError(kind)


def build_leaf(spec, cls, container, n=None):
    """cls: 'scalar' | 'array' | 'fixedarray'"""
    from barril.units import Array, FixedArray, Quantity, Scalar

    if n is not None:
        spec = spec[:2] + (spec[2][:n],) + spec[3:] if spec[0] == "leaf" else (spec[0], spec[1], spec[2][:n])
    if spec[0] == "leaf":
        _t, c, vals, u = spec
        if cls == "scalar":
            return Scalar(c, vals[0], u)
        if cls == "array":
            return Array(c, make_container(vals, container), u)
        return FixedArray(len(vals), c, make_container(vals, container), u)
    _t, items, vals = spec
    q = Quantity.CreateDerived(OrderedDict((c, [u, e]) for c, u, e in items))
    if cls == "scalar":
        return Scalar.CreateWithQuantity(q, vals[0])
    if cls == "array":
        return Array.CreateWithQuantity(q, make_container(vals, container))
    return FixedArray.CreateWithQuantity(q, make_container(vals, container), dimension=len(vals))


def leaf_items(spec):
    if spec[0] == "leaf":
        return [(spec[1], spec[3], 1)]
    return list(spec[1])


class Model:
    """Model value of a node: dimension vector + list of base magnitudes (Fractions)."""

    __slots__ = ("dim", "mags", "nops")

    def __init__(self, dim, mags, nops=0):
        self.dim, self.mags, self.nops = dim, mags, nops


def model_leaf(table, spec, n=None):
    items = leaf_items(spec)
    vals = spec[2] if n is None else spec[2][:n]
    s = dims.scale(table, items)
    return Model(dims.dimvec(table, items), [Fr(v) * s for v in vals])


def values_of(obj):
    """list of floats held by a barril Scalar / Array (public getters)."""
    from barril.units import Scalar

    if isinstance(obj, Scalar):
        return [obj.GetValue()]
    return [float(x) for x in obj.GetValues()]


def evaluate(table, spec, cls, container, on_node, n=None):
    """Evaluates spec bottom-up with barril and the model; on_node(spec, obj, model, children) is
    called at every operator node *after* both results exist and may replace the model (e.g. after
    a floor division) by returning a new Model. An exception raised by barril propagates as
    EvalError carrying the node."""
    t = spec[0]
    if t in ("leaf", "dleaf"):
        try:
            obj = build_leaf(spec, cls, container, None if cls == "scalar" else n)
        except Exception as e:  # a leaf is a valid request by construction: barril refusing it is a finding of the caller
            raise EvalError(spec, e)
        m = model_leaf(table, spec, n)
        r = on_node(spec, obj, m, ())
        return obj, (r or m)
    if t == "**":
        a, ma = evaluate(table, spec[1], cls, container, on_node, n)
        k = spec[2]
        try:
            if cls == "scalar":
                obj = a**k
            else:  # Array defines no __pow__: the n-fold product is written out
                obj = a
                for _ in range(k - 1):
                    obj = obj * a
        except Exception as e:
            if scale_extreme(table, a, Fr(10) ** 100, k):
                raise Degenerate(spec)
            raise EvalError(spec, e)
        m = Model(dims.times(ma.dim, k), [x**k for x in ma.mags], ma.nops + k)
        _range_guard(spec, m)
        if scale_extreme(table, obj):
            raise Degenerate(spec)
        r = on_node(spec, obj, m, ((a, ma),))
        return obj, (r or m)
    a, ma = evaluate(table, spec[1], cls, container, on_node, n)
    b, mb = evaluate(table, spec[2], cls, container, on_node, n)
    if any(x is None for x in ma.mags + mb.mags) or (t != "*" and any(not x for x in mb.mags)):
        raise Degenerate(spec)  # a zero produced by an earlier floor division: outside "non-zero values"
    try:
        if t == "*":
            obj = a * b
        elif t == "/":
            obj = a / b
        elif t == "//":
            obj = a // b
        else:
            raise ValueError(t)
    except EvalError:
        raise
    except Exception as e:
        if pair_extreme(table, a, b):
            raise Degenerate(spec)
        raise EvalError(spec, e)
    if t == "*":
        m = Model(dims.combine(ma.dim, mb.dim, 1), [x * y for x, y in zip(ma.mags, mb.mags)], ma.nops + mb.nops + 1)
    else:
        m = Model(dims.combine(ma.dim, mb.dim, -1), [x / y if y else None for x, y in zip(ma.mags, mb.mags)], ma.nops + mb.nops + 1)
    _range_guard(spec, m)
    if scale_extreme(table, obj):
        raise Degenerate(spec)
    r = on_node(spec, obj, m, ((a, ma), (b, mb)))
    return obj, (r or m)


_BIG = Fr(10) ** 120


def pair_extreme(table, a, b, bound=Fr(10) ** 100):
    """True when combining a and b has to re-express one operand's units in the other's with a ratio that,
    raised to the exponent it carries, leaves 10^-100 .. 10^100 ('ag' vs 'kg' under a 15th power is 1e-315):
    the unit matching then underflows / overflows in floats - outside the examined input class."""
    try:
        ia, ib = dims.items_of(a.GetQuantity()), dims.items_of(b.GetQuantity())
    except Exception:
        return False
    per_type = {}
    for items in (ia, ib):
        for c, u, e in items:
            try:
                per_type.setdefault(table.qt_of_category(c), []).append((table.factor(u), abs(e)))
            except Exception:
                return False
    for lst in per_type.values():
        emax = max(e for _f, e in lst)
        fs = [f for f, _e in lst]
        ratio = max(fs) / min(fs)
        if ratio != 1 and ratio ** emax > bound:
            return True
    return scale_extreme(table, a, Fr(10) ** 50) or scale_extreme(table, b, Fr(10) ** 50)


def scale_extreme(table, obj, bound=Fr(10) ** 100, power=1):
    """True when the unit factors of obj (each raised to its exponent x power), their product, or the stored
    value(s) leave 10^-100 .. 10^100: with units such as 'ag' (1e-21 kg) an 18th power is not representable
    in a double, and what the library then computes (0.0, inf, OverflowError) is float overflow / underflow,
    which is outside the examined input class (DESIGN.md section 7)."""
    try:
        items = dims.items_of(obj.GetQuantity())
    except Exception:
        return False
    total = Fr(1)
    for _c, u, e in items:
        try:
            f = table.factor(u) ** (abs(e) * power)
        except Exception:
            return False
        if f > bound or f < 1 / bound:
            return True
        total *= f if e > 0 else 1 / f
    if total > bound or total < 1 / bound:
        return True
    try:
        for v in values_of(obj):
            v = abs(float(v)) ** power
            if v != 0 and not (1e-100 < v < 1e100):
                return True
    except Exception:
        return True
    return False


def _range_guard(spec, m):
    """Magnitudes near the float overflow / underflow range are outside the examined input class."""
    for x in m.mags:
        if x is not None and x != 0 and (abs(x) > _BIG or abs(x) < 1 / _BIG):
            raise Degenerate(spec)


class Degenerate(Exception):
    pass


class EvalError(Exception):
    def __init__(self, spec, exc):
        Exception.__init__(self, "%s at %s" % (repr(exc), render(spec)))
        self.spec, self.exc = spec, exc
