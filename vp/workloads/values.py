"""Value generators: fixed hostile set + seeded log-uniform floats (DESIGN.md 2.4)."""
import math

_OFFSETS = [273.15, -273.15, 32.0, 459.67, 491.67, 101325.0, 1.01325, 14.695948775, 255.3722222222222]


def _ulps(x):
    return [math.nextafter(x, -math.inf), x, math.nextafter(x, math.inf)]


def hostile():
    out = [0.0, 1.0, -1.0, 0.5, -0.5, 2.0, 3.0, 7.0, 100.0, 1e-3, 1e3, 1e-6, 1e6, 1e-9, 1e9, 1e-12, 1e12, -1e-12, -1e12]
    for o in _OFFSETS:
        out.extend(_ulps(o))
        out.append(-o)
    seen, res = set(), []
    for v in out:
        if v not in seen:
            seen.add(v)
            res.append(v)
    return res


def loguniform(rng, lo=1e-12, hi=1e12, signed=True):
    x = math.exp(rng.uniform(math.log(lo), math.log(hi)))
    if signed and rng.random() < 0.4:
        x = -x
    return x


def short_decimal(rng, max_sig=6):
    """A float with few significant decimal digits (what a user types)."""
    sig = rng.randint(1, max_sig)
    m = rng.randint(1, 10**sig - 1)
    e = rng.randint(-6, 6)
    x = float("%de%d" % (m, e - sig + 1))
    return -x if rng.random() < 0.3 else x


def mixed(rng, n):
    h = hostile()
    out = []
    for i in range(n):
        r = rng.random()
        if r < 0.35:
            out.append(rng.choice(h))
        elif r < 0.7:
            out.append(loguniform(rng))
        else:
            out.append(short_decimal(rng))
    return out
