"""Runs the repository's own test-suite as a workload under the global monitors (vp/suite_plugin.py) and
merges the alarms of one property into a check's Context.  Thorough tier only; shard 0 only.

The suite runs in a fresh interpreter on the tree under test (cwd = $VERIF_REPO, barril from $VERIF_REPO/src)
with ``-p vp.suite_plugin``.  A failing *test* is not a verdict here (the baseline run decides that); what counts
is what the monitors saw while the tests were exercising the library.  If the plugin did not produce its
report the workload is reported as not run (counted in the evidence, never an alarm).
"""
import json
import os
import subprocess
import tempfile

from . import env


def run(ctx, prop, timeout=1800):
    if ctx.tier != "thorough" or ctx.shard != 0:
        return
    out = tempfile.NamedTemporaryFile(suffix=".json", delete=False)
    out.close()
    e = dict(os.environ)
    e["PYTHONPATH"] = env.VERIF_DIR + os.pathsep + env.REPO_SRC + os.pathsep + e.get("PYTHONPATH", "")
    e["VP_SUITE_OUT"] = out.name
    e["VERIF_REPO"] = env.REPO
    e.setdefault("PYTHONHASHSEED", "0")
    try:
        p = subprocess.run(
            [env.PYTHON, "-m", "pytest", "-q", "-p", "no:cacheprovider", "-p", "vp.suite_plugin", "--timeout=900", "-x", "--no-header", os.path.join(env.REPO, "src")],
            cwd=env.REPO, env=e, capture_output=True, text=True, timeout=timeout,
        )  # fmt: skip
        tail = (p.stdout.strip().splitlines() or [""])[-1]
    except subprocess.TimeoutExpired:
        ctx.count("suite workload: timed out (not an alarm)")
        return
    try:
        rep = json.load(open(out.name))
    except Exception:
        ctx.count("suite workload: no report produced (not an alarm)")
        ctx.notes["suite_workload"] = {"pytest_tail": tail[:200]}
        return
    finally:
        try:
            os.unlink(out.name)
        except OSError:
            pass
    st = rep["stats"]
    ctx.notes["suite_workload"] = {"pytest_tail": tail[:120], **{k: v for k, v in st.items()}}
    ctx.ev(int(st.get("boundary_calls", 0)))
    ctx.count("suite workload: boundary calls observed", int(st.get("boundary_calls", 0)))
    ctx.count("suite workload: tests run under the monitors", int(st.get("tests", 0)))
    for a in rep["alarms"]:
        if a["property"] == prop:
            for _ in range(1):
                ctx.violation("suite-workload:%s" % a["key"], {"test": a["test"], "count": a["count"], "detail": a["detail"]}, prop=prop)
        else:
            ctx.count("suite workload: alarms of other properties (reported by their own check): %s" % a["property"], a["count"])
