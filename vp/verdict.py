"""Three-valued verdicts, evidence / replay files, known findings (DESIGN.md section 3)."""
import hashlib
import json
import os
import re
import time
import traceback

from . import env

EXIT_HELD, EXIT_VIOLATED, EXIT_INCONCLUSIVE, EXIT_HARNESS = 0, 1, 2, 3
MAX_KEPT = 40  # distinct violation keys kept with full detail


def h64(key):
    return int.from_bytes(hashlib.blake2b(repr(key).encode(), digest_size=8).digest(), "big")


def jsonable(o, depth=0):
    if depth > 6:
        return repr(o)
    if o is None or isinstance(o, (bool, int, str)):
        return o
    if isinstance(o, float):
        return o if o == o and o not in (float("inf"), float("-inf")) else repr(o)
    if isinstance(o, dict):
        return {str(k): jsonable(v, depth + 1) for k, v in list(o.items())[:200]}
    if isinstance(o, (list, tuple, set, frozenset)):
        return [jsonable(v, depth + 1) for v in list(o)[:200]]
    return repr(o)


class KnownFindings:
    """KNOWN_FINDINGS.txt: ``known: property=<id> key=<key> <text>`` / ``fixed: property=<id> <commit> <text>``.
    Never written at run time. A violation is downgraded only if its key equals a known key."""

    def __init__(self, path=None):
        self.path = path or os.path.join(env.VERIF_DIR, "KNOWN_FINDINGS.txt")
        self.known = {}
        self.fixed = []
        if os.path.exists(self.path):
            for line in open(self.path, encoding="utf-8"):
                line = line.strip()
                if not line or line.startswith("#"):
                    continue
                m = re.match(r"known:\s+property=(\S+)\s+key=(\S+)\s*(.*)$", line)
                if m:
                    self.known.setdefault(m.group(1), {})[m.group(2)] = m.group(3)
                    continue
                m = re.match(r"fixed:\s+property=(\S+)\s+(\S+)\s*(.*)$", line)
                if m:
                    self.fixed.append((m.group(1), m.group(2), m.group(3)))

    def match(self, prop, key):
        return self.known.get(prop, {}).get(key)


class Context:
    """Handed to a check's run(); collects what the run observed."""

    def __init__(self, prop, tier, shard=0, nshards=1):
        self.prop = prop
        self.tier = tier
        self.shard = shard
        self.nshards = nshards
        self.seed = env.seed()
        self.t0 = time.time()
        self.evaluations = 0
        self.counters = {}
        self.nontrivial = set()  # 64-bit hashes of distinct non-trivial case keys
        self.samples = []
        self.violations = {}  # key -> {count, prop, detail, replay}
        self.violation_count = 0
        self.inconclusive = []
        self.notes = {}
        self.rule = ""
        self.exhaustive = None
        self.assumptions = []
        self.max_kept = MAX_KEPT

    # -- recording ---------------------------------------------------------------------------
    def rng(self, extra=""):
        return env.rng(self.prop, self.shard, extra)

    def ev(self, n=1):
        self.evaluations += n

    def count(self, name, n=1):
        self.counters[name] = self.counters.get(name, 0) + n

    def nt(self, key):
        self.nontrivial.add(h64(key))

    def sample(self, s, cap=6):
        if len(self.samples) < cap:
            self.samples.append(jsonable(s))

    def violation(self, key, detail, replay=None, prop=None):
        """key: mechanism-level identity of the failure (stable across seeds where possible)."""
        self.violation_count += 1
        prop = prop or self.prop
        k = (prop, str(key))
        v = self.violations.get(k)
        if v is None:
            if len(self.violations) >= self.max_kept:
                k = (prop, "(more)")
                v = self.violations.setdefault(
                    k, {"count": 0, "prop": prop, "key": "(more)", "detail": "further distinct keys not kept", "replay": None}
                )
            else:
                v = self.violations[k] = {
                    "count": 0, "prop": prop, "key": str(key), "detail": jsonable(detail), "replay": jsonable(replay),
                }  # fmt: skip
        v["count"] += 1

    def inconclusive_if(self, cond, reason):
        if cond:
            self.inconclusive.append(reason)

    # -- (de)serialisation for shards -------------------------------------------------------
    def dump(self):
        return {
            "prop": self.prop, "tier": self.tier, "shard": self.shard, "evaluations": self.evaluations,
            "counters": self.counters, "nontrivial": sorted(self.nontrivial), "samples": self.samples,
            "violations": list(self.violations.values()), "violation_count": self.violation_count,
            "inconclusive": self.inconclusive, "notes": self.notes, "rule": self.rule,
            "exhaustive": self.exhaustive, "assumptions": self.assumptions,
        }  # fmt: skip

    def merge(self, d):
        self.evaluations += d["evaluations"]
        for k, v in d["counters"].items():
            if isinstance(v, (int, float)):
                self.counters[k] = self.counters.get(k, 0) + v
        self.nontrivial.update(d["nontrivial"])
        for s in d["samples"]:
            if len(self.samples) < 8:
                self.samples.append(s)
        for v in d["violations"]:
            k = (v["prop"], v["key"])
            if k in self.violations:
                self.violations[k]["count"] += v["count"]
            else:
                self.violations[k] = v
        self.violation_count += d["violation_count"]
        self.inconclusive.extend(d["inconclusive"])
        for k, v in d["notes"].items():
            if k not in self.notes:
                self.notes[k] = v
            elif isinstance(v, dict) and isinstance(self.notes[k], dict):
                for kk, vv in v.items():
                    if isinstance(vv, (int, float)) and isinstance(self.notes[k].get(kk), (int, float)):
                        self.notes[k][kk] += vv
                    else:
                        self.notes[k].setdefault(kk, vv)
        self.rule = self.rule or d["rule"]
        if d["exhaustive"] is not None:
            self.exhaustive = d["exhaustive"] if self.exhaustive is None else (self.exhaustive and d["exhaustive"])
        for a in d["assumptions"]:
            if a not in self.assumptions:
                self.assumptions.append(a)


def finish(ctx, level="exploration", floor_eval=1, floor_nt=2):
    """Classify violations against the known findings, write evidence + replays, print, return exit code."""
    kf = KnownFindings()
    os.makedirs(os.path.join(env.VERIF_DIR, "evidence"), exist_ok=True)
    os.makedirs(os.path.join(env.VERIF_DIR, "replays"), exist_ok=True)
    new, known_hit = [], []
    for (prop, key), v in sorted(ctx.violations.items()):
        text = kf.match(prop, key)
        if text is not None:
            known_hit.append((prop, key, text, v))
        else:
            new.append((prop, key, v))
    lines = []
    for prop, key, text, v in known_hit:
        lines.append("KNOWN-FINDING: property=%s key=%s %s (seen %d times)" % (prop, key, text, v["count"]))
    new.sort(key=lambda t: (t[1] == "(more)", -t[2]["count"]))
    for n_printed, (prop, key, v) in enumerate(new):
        rp = os.path.join("replays", "%s-%s-%s.json" % (prop, ctx.tier, "%016x" % h64(key)))
        with open(os.path.join(env.VERIF_DIR, rp), "w") as f:
            json.dump(
                {"property": prop, "found_by_check": ctx.prop, "tier": ctx.tier, "seed": ctx.seed, "key": key,
                 "count": v["count"], "detail": v["detail"], "replay": v["replay"]}, f, indent=1, default=repr,
            )  # fmt: skip
        if n_printed < 12:
            lines.append("VIOLATION property=%s replay=%s" % (prop, rp))
            lines.append("  key=%s count=%d detail=%s" % (key, v["count"], json.dumps(v["detail"], default=repr)[:600]))
        elif n_printed == 12:
            lines.append("  ... and %d more distinct violation keys (replay files written; see evidence file)" % (len(new) - 12))
    if ctx.evaluations < floor_eval:
        ctx.inconclusive.append("only %d oracle evaluations (floor %d)" % (ctx.evaluations, floor_eval))
    if len(ctx.nontrivial) < floor_nt:
        ctx.inconclusive.append("only %d distinct non-trivial cases (floor %d)" % (len(ctx.nontrivial), floor_nt))
    own_new = [x for x in new]
    coverage = {
        "evaluations": int(ctx.evaluations),
        "distinct_nontrivial": len(ctx.nontrivial),
        "rule": ctx.rule,
        "samples": ctx.samples or ["(no sample recorded)"],
        "counters": jsonable(ctx.counters),
        "known_findings_hit": [{"property": p, "key": k, "count": v["count"]} for p, k, _t, v in known_hit],
        "new_violations": [{"property": p, "key": k, "count": v["count"]} for p, k, v in new],
        "inconclusive_reasons": ctx.inconclusive,
        "shards": ctx.nshards,
    }
    if ctx.exhaustive is not None:
        coverage["exhaustive"] = bool(ctx.exhaustive)
    coverage.update({k: jsonable(v) for k, v in ctx.notes.items()})
    evidence = {
        "property_id": ctx.prop, "tier": ctx.tier, "seed": ctx.seed, "level": level, "coverage": coverage,
        "assumptions": ctx.assumptions, "wall_s": round(time.time() - ctx.t0, 3), "violations": len(own_new),
    }  # fmt: skip
    path = os.path.join(env.VERIF_DIR, "evidence", "%s.json" % ctx.prop)
    with open(path, "w") as f:
        json.dump(evidence, f, indent=1, default=repr)
    for l in lines:
        print(l)
    summary = "%s tier=%s seed=%d evaluations=%d distinct_nontrivial=%d violations=%d known=%d wall=%.1fs" % (
        ctx.prop, ctx.tier, ctx.seed, ctx.evaluations, len(ctx.nontrivial), len(own_new), len(known_hit),
        time.time() - ctx.t0,
    )  # fmt: skip
    if own_new:
        print("RESULT violated " + summary)
        return EXIT_VIOLATED
    if ctx.inconclusive:
        print("INCONCLUSIVE property=%s reason=%s" % (ctx.prop, "; ".join(ctx.inconclusive)[:500]))
        print("RESULT inconclusive " + summary)
        return EXIT_INCONCLUSIVE
    print("RESULT held " + summary)
    return EXIT_HELD


def harness_error(prop, e):
    print("HARNESS-ERROR property=%s %r" % (prop, e))
    traceback.print_exc()
    return EXIT_HARNESS
