"""Probe layer: in-place wrappers on barril's public API -> event bus (DESIGN.md 2.2).

Every public method / classmethod / operator dunder of the barril classes listed in ``install`` is
replaced *on the real class* by a recording wrapper (the mechanism icontract.invariant uses), so
references taken inside barril go through the wrappers too.  A wrapper

* counts the call (``COUNTS``: every call, ``BOUNDARY``: calls made at depth 0, i.e. by the workload),
* at depth 0 emits ``call`` before invoking and ``return`` / ``raise`` after, with the live objects,
* never raises by itself and never changes a result.

Monitor / oracle code runs inside ``with muted():`` - calls made there are neither boundary events
nor counted, so evidence counters only contain what the workload did.

The library is single threaded; so is the probe (plain module state, no locks needed).
"""
import collections
import contextlib
import functools
import inspect
import sys

COUNTS = collections.Counter()  # qualified name -> calls (workload, any depth)
BOUNDARY = collections.Counter()  # qualified name -> calls at depth 0 (client boundary)
LISTENERS = []  # callables (kind, qual, args, kwargs, payload)
_D = [0]  # call depth
_MUTE = [0]
_INSTALLED = [False]

DUNDERS = {
    "__init__", "__eq__", "__ne__", "__hash__", "__lt__", "__le__", "__gt__", "__ge__",
    "__add__", "__radd__", "__sub__", "__rsub__", "__mul__", "__rmul__", "__truediv__",
    "__rtruediv__", "__floordiv__", "__rfloordiv__", "__pow__", "__reduce__", "__copy__",
    "__deepcopy__", "__len__", "__getitem__", "__iter__", "__repr__", "__str__", "__float__",
    "__neg__", "__abs__", "__mod__", "__rmod__", "__setitem__",
}  # fmt: skip


def _wrap(owner, name, fn):
    qual = "%s.%s" % (owner, name)
    deep = []  # hooks called after a normal return at ANY depth: h(args, kwargs, result)

    @functools.wraps(fn)
    def w(*a, **k):
        if _MUTE[0]:
            return fn(*a, **k)
        d = _D[0]
        COUNTS[qual] += 1
        if d:
            _D[0] = d + 1
            try:
                r = fn(*a, **k)
            finally:
                _D[0] = d
            if deep:
                for h in deep:
                    h(a, k, r)
            return r
        BOUNDARY[qual] += 1
        ls = LISTENERS
        _D[0] = 1
        try:
            if ls:
                for l in ls:
                    l("call", qual, a, k, None)
            r = fn(*a, **k)
        except BaseException as e:
            _D[0] = 1
            if ls:
                for l in ls:
                    l("raise", qual, a, k, e)
            raise
        else:
            if deep:
                for h in deep:
                    h(a, k, r)
            if ls:
                for l in ls:
                    l("return", qual, a, k, r)
            return r
        finally:
            _D[0] = 0

    w.__vp_wrapped__ = True
    w.__vp_orig__ = fn
    w.__vp_deep__ = deep
    return w


def instrument_class(cls):
    n = 0
    for name, attr in list(vars(cls).items()):
        if name.startswith("_") and name not in DUNDERS:
            continue
        if isinstance(attr, staticmethod):
            f = attr.__func__
            if getattr(f, "__vp_wrapped__", False):
                continue
            setattr(cls, name, staticmethod(_wrap(cls.__name__, name, f)))
            n += 1
        elif isinstance(attr, classmethod):
            f = attr.__func__
            if getattr(f, "__vp_wrapped__", False):
                continue
            setattr(cls, name, classmethod(_wrap(cls.__name__, name, f)))
            n += 1
        elif inspect.isfunction(attr):
            if getattr(attr, "__vp_wrapped__", False):
                continue
            setattr(cls, name, _wrap(cls.__name__, name, attr))
            n += 1
        elif isinstance(attr, property) and attr.fget is not None and inspect.isfunction(attr.fget):
            # properties built from a getter captured at class creation (``value = property(
            # GetAbstractValue)``) would bypass the wrapper: rebuild them on the wrapped getter.
            g = attr.fget
            if getattr(g, "__vp_wrapped__", False):
                continue
            wg = None
            for n2, a2 in vars(cls).items():
                if getattr(a2, "__vp_orig__", None) is g:
                    wg = a2
                    break
            if wg is not None:
                setattr(cls, name, property(wg, attr.fset, attr.fdel, attr.__doc__))
    return n


def _rebind_module_function(modname, fname, label):
    """Wraps a module level function and rebinds it in every barril module that imported it."""
    mod = sys.modules[modname]
    orig = getattr(mod, fname)
    if getattr(orig, "__vp_wrapped__", False):
        return
    w = _wrap("module", label, orig)
    for m in list(sys.modules.values()):
        if m is not None and getattr(m, "__name__", "").startswith("barril"):
            for n, v in list(vars(m).items()):
                if v is orig:
                    setattr(m, n, w)


def classes():
    import barril.units as U
    from barril.basic.fraction import Fraction, FractionValue
    from barril.curve.curve import Curve
    from barril.units import _quantity, unit_database, unit_system, unit_system_manager

    return [
        unit_database.UnitDatabase, _quantity.Quantity, U.AbstractValueWithQuantityObject,
        U.Scalar, U.Array, U.FixedArray, U.FractionScalar, FractionValue, Fraction, Curve,
        unit_system.UnitSystem, unit_system_manager.UnitSystemManager,
    ]  # fmt: skip


def install():
    if _INSTALLED[0]:
        return
    _INSTALLED[0] = True
    import barril.units  # noqa
    import barril.units.unit_system_manager  # noqa
    import barril.curve.curve  # noqa

    for cls in classes():
        instrument_class(cls)
    # Scalar.GetValue = GetAbstractValue alias etc. are separate names for the same function object:
    # both names were wrapped above (each name gets its own wrapper and its own counter).
    _rebind_module_function("barril.units._quantity", "ObtainQuantity", "ObtainQuantity")
    _rebind_module_function("barril.units.unit_database", "FixUnitIfIsLegacy", "FixUnitIfIsLegacy")
    _rebind_module_function("barril.units", "ChangeScalars", "ChangeScalars")
    _rebind_module_function("barril.units", "GetUnknownQuantity", "GetUnknownQuantity")


@contextlib.contextmanager
def muted():
    _MUTE[0] += 1
    try:
        yield
    finally:
        _MUTE[0] -= 1


def deep_hook(cls, name, hook):
    """hook(args, kwargs, result) is called after every normal return of cls.name, at any depth."""
    f = vars(cls)[name]
    f = getattr(f, "__func__", f)
    f.__vp_deep__.append(hook)


def subscribe(listener):
    LISTENERS.append(listener)


def unsubscribe(listener):
    try:
        LISTENERS.remove(listener)
    except ValueError:
        pass


def boundary_total(prefixes=None):
    if prefixes is None:
        return sum(BOUNDARY.values())
    return sum(v for k, v in BOUNDARY.items() if k.startswith(tuple(prefixes)))


def top_counts(n=25):
    return {k: v for k, v in BOUNDARY.most_common(n)}


# ------------------------------------------------------------------------------------------ reach
_REACH = {}  # code object -> [qualname, set(lines hit), set(all lines)]
_TOOL = 3


def reach(functions):
    """Registers LINE monitoring (sys.monitoring, local events, DISABLE after first hit) on the code
    objects of the given functions. Evidence only - never a verdict input."""
    mon = getattr(sys, "monitoring", None)
    if mon is None:
        return
    try:
        if mon.get_tool(_TOOL) is None:
            mon.use_tool_id(_TOOL, "vp-reach")
            mon.register_callback(_TOOL, mon.events.LINE, _on_line)
    except Exception:
        return
    for f in functions:
        f = getattr(f, "__vp_orig__", f)
        f = getattr(f, "__func__", f)
        f = getattr(f, "__vp_orig__", f)
        code = getattr(f, "__code__", None)
        if code is None or code in _REACH:
            continue
        lines = {l for (_s, _e, l) in code.co_lines() if l is not None and l != code.co_firstlineno}
        _REACH[code] = [f.__qualname__, set(), lines]
        try:
            mon.set_local_events(_TOOL, code, mon.events.LINE)
        except Exception:
            pass


def _on_line(code, line):
    ent = _REACH.get(code)
    if ent is not None:
        ent[1].add(line)
    return sys.monitoring.DISABLE


def reach_report():
    return {q: "%d/%d" % (len(hit & all_), len(all_)) for q, hit, all_ in _REACH.values()}
