"""Locate the code under test, fix the process environment, provide seeded RNGs.

The code under test is always imported from ``$VERIF_REPO/src`` (default ``/repo/src``), put first
on sys.path; ``assert_repo()`` refuses to go on unless ``barril.__file__`` really lies under it.
There is nothing to build: "rebuild from the working tree" is a fresh interpreter per check/shard.
"""
import os
import random
import sys

VERIF_DIR = os.path.dirname(os.path.dirname(os.path.abspath(__file__)))
REPO = os.environ.get("VERIF_REPO", "/repo")
REPO_SRC = os.path.join(REPO, "src")
PYTHON = "/venv/bin/python" if os.path.exists("/venv/bin/python") else sys.executable
GUARD = "BARRIL_VERIF"


def setup():
    os.environ.setdefault("LC_ALL", "C")
    os.environ[GUARD] = "1"  # no source hook exists today; the guard is set for any future one
    if REPO_SRC in sys.path:
        sys.path.remove(REPO_SRC)
    sys.path.insert(0, REPO_SRC)
    import locale

    try:
        locale.setlocale(locale.LC_ALL, "C")
    except locale.Error:
        pass


def assert_repo():
    """Returns None if barril is imported from the tree under test, else a reason string."""
    try:
        import barril
    except Exception as e:  # noqa
        return "barril not importable from %s: %r" % (REPO_SRC, e)
    f = os.path.realpath(barril.__file__)
    if not f.startswith(os.path.realpath(REPO_SRC) + os.sep):
        return "barril imported from %s, not from %s" % (f, REPO_SRC)
    return None


def seed():
    try:
        return int(os.environ.get("VERIF_SEED", "0"))
    except ValueError:
        return 0


def rng(check, shard=0, extra=""):
    return random.Random("%d/%s/%s/%s" % (seed(), check, shard, extra))
