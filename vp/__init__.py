"""Runtime-monitoring framework for the barril properties C01..C20 (see /verif/DESIGN.md)."""
