"""C07 monitor: every Quantity ever constructed keeps its fingerprint; == / hash partition is the
partition by (composing items, caption); the database's quantity cache is sound."""
import weakref

from .. import probe
from ..models import snapshot


class QuantityMonitor:
    def __init__(self):
        self.enrolled = {}  # id -> (weakref, fingerprint, born_at_step)
        self.step = 0
        self.n_checks = 0
        self._pending = []
        self._installed = False

    def install(self):
        if self._installed:
            return
        self._installed = True
        from barril.units import Quantity

        probe.install()
        probe.deep_hook(Quantity, "__init__", self._on_init)

    def _on_init(self, a, k, r):
        # fingerprinting inside __init__ of a *nested* construction could observe a half-built
        # object: only remember it here, enroll at the next quiescent point
        self._pending.append(a[0])

    def reset(self):
        self.enrolled.clear()
        self._pending[:] = []

    def enroll(self, q):
        i = id(q)
        if i in self.enrolled and self.enrolled[i][0]() is q:
            return
        try:
            with probe.muted():
                fp = snapshot.quantity_fingerprint(q)
        except AttributeError:
            return  # not fully initialised (constructor raised)
        self.enrolled[i] = (weakref.ref(q), fp, self.step)

    def quiescent(self, extra=()):
        """Call after every boundary step: enrolls what was constructed, re-fingerprints everything.
        Returns a list of (before, after, born_at_step) for quantities whose fingerprint changed."""
        self.step += 1
        pend, self._pending = self._pending, []
        for q in pend:
            self.enroll(q)
        for q in extra:
            self.enroll(q)
        changed = []
        with probe.muted():
            for i, (ref, fp, born) in list(self.enrolled.items()):
                q = ref()
                if q is None:
                    del self.enrolled[i]
                    continue
                self.n_checks += 1
                try:
                    now = snapshot.quantity_fingerprint(q)
                except Exception as e:
                    now = ("fingerprint raised", repr(e))
                if now != fp:
                    changed.append((fp, now, born))
                    self.enrolled[i] = (ref, now, born)  # report once
        return changed

    def live(self):
        return [ref() for ref, fp, born in self.enrolled.values() if ref() is not None]

    def partition_violations(self, limit=5):
        """(q1 == q2) <=> same (composing items, caption);  q1 == q2 => hash equal;  != is the negation."""
        out = []
        with probe.muted():
            qs = self.live()
            keys = [(tuple((c, tuple(ue)) for c, ue in q.GetCategoryToUnitAndExps().items()), q.GetUnknownCaption() or "") for q in qs]
            for i, a in enumerate(qs):
                for j, b in enumerate(qs):
                    self.n_checks += 1
                    eq = a == b
                    same = keys[i] == keys[j]
                    if eq != same:
                        out.append(("eq-vs-resolution", repr(a), repr(b), keys[i], keys[j], eq))
                    elif eq and hash(a) != hash(b):
                        out.append(("equal-but-hash-differs", repr(a), repr(b), keys[i], keys[j], eq))
                    elif (a != b) == eq:
                        out.append(("ne-not-negation", repr(a), repr(b), keys[i], keys[j], eq))
                    if len(out) >= limit:
                        return out
        return out


def cache_violations(db, limit=5):
    """Each cache key resolves to a quantity whose category / unit / caption are what the key (after
    default-category and legacy resolution) asks for."""
    from barril.units.unit_database import FixUnitIfIsLegacy

    out = []
    with probe.muted():
        for key, q in list(db.quantities_cache.items()):
            if len(key) == 3 and (key[0] is None or isinstance(key[0], str)) and (key[1] is None or isinstance(key[1], str)):
                c, u, cap = key
                want_u = FixUnitIfIsLegacy(u)[1] if isinstance(u, str) else None
                got = (q.GetCategory(), q.GetUnit(), q.GetUnknownCaption() or "")
                if c is not None and got[0] != c:
                    out.append(("category", key, got))
                if c is None and want_u is not None:
                    dc = db.GetDefaultCategory(want_u)
                    if dc is not None and got[0] != dc:
                        out.append(("default-category", key, got))
                if want_u is not None and got[1] != want_u:
                    out.append(("unit", key, got))
                if want_u is None and c is not None and got[1] != db.GetDefaultUnit(c):
                    out.append(("default-unit", key, got))
                if (cap or "") != got[2]:
                    out.append(("caption", key, got))
            else:
                items = tuple(k for k in key if isinstance(k, tuple))
                cap = next((k for k in key if isinstance(k, str)), "")
                got = (tuple((c, tuple(ue)) for c, ue in q.GetCategoryToUnitAndExps().items()), q.GetUnknownCaption() or "")
                if got != (items, cap):
                    out.append(("derived", key, got))
            if len(out) >= limit:
                break
    return out
