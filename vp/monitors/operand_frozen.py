"""C13 monitor: no public operation changes a value object that takes part in it.

Two observation points:
* around every depth-0 call (probe events): every barril value object found among self / args /
  kwargs (also inside short lists / tuples / dicts) is deep-snapshotted at ``call`` and compared at
  ``return`` / ``raise`` - this also covers temporaries that are not pool members;
* ``Pool``: every member (and the caller-owned container it was built from) is snapshotted once and
  compared after every step of a history, so a change that surfaces later, or through an alias kept
  by an earlier result, is still seen.
Snapshots copy container *contents* (models/snapshot.value_object).
"""
from .. import probe
from ..models import snapshot


def is_value_object(o):
    from barril.basic.fraction import Fraction, FractionValue
    from barril.units import AbstractValueWithQuantityObject

    return isinstance(o, (AbstractValueWithQuantityObject, Fraction, FractionValue))


def walk(objs, out=None, depth=0):
    import numpy as np

    out = [] if out is None else out
    for o in objs:
        if is_value_object(o):
            out.append(o)
        elif isinstance(o, np.ndarray):
            out.append(o)
        elif depth < 2 and isinstance(o, (list, tuple)) and len(o) < 24:
            if isinstance(o, list):
                out.append(o)
            walk(o, out, depth + 1)
        elif depth < 2 and isinstance(o, dict) and len(o) < 24:
            walk(o.values(), out, depth + 1)
    return out


def snap(o):
    if is_value_object(o):
        return snapshot.value_object(o)
    return snapshot.container(o)


#: calls that exist to change their receiver (configuration / explicit setters) - not "operations on operands"
MUTATORS = ("SetNumber", "SetFraction", "SetNumerator", "SetDenominator", "SetFloatValue", "SetImage", "SetDomain", "SetValues", "SetCurrent", "SetDefaultUnit", "__setitem__", "__init__")


REGISTRATIONS = ("AddCategory", "AddUnit", "AddUnitBase", "AddUnitSystem", "SetTemplateUnitSystemByUnitsMapping")


class OperandMonitor:
    def __init__(self):
        self.stack = []
        self.changed = []  # (qualified name, before, after)
        self.n_calls = 0
        self.n_snapshots = 0
        self._on = False

    def install(self):
        if not self._on:
            self._on = True
            probe.install()
            probe.subscribe(self)

    def uninstall(self):
        if self._on:
            self._on = False
            probe.unsubscribe(self)

    def __call__(self, kind, qual, a, k, payload):
        if kind == "call":
            name = qual.rsplit(".", 1)[-1]
            if name in REGISTRATIONS:
                # configuration calls: AddCategory rewrites legacy spellings inside the valid_units list it is
                # given - a list of unit names, not the container of a value object (outside C13)
                self.stack.append([])
                return
            ops = walk(list(a) + list(k.values()))
            if name in MUTATORS and a:
                ops = [o for o in ops if o is not a[0]]
            with probe.muted():
                self.stack.append([(o, snap(o)) for o in ops])
            return
        snaps = self.stack.pop() if self.stack else []
        self.n_calls += 1
        with probe.muted():
            for o, s in snaps:
                self.n_snapshots += 1
                now = snap(o)
                if now != s:
                    self.changed.append((qual, s, now))

    def drain(self):
        c, self.changed = self.changed, []
        return c


class Pool:
    """Objects of a history + the caller-owned containers they were built from."""

    def __init__(self):
        self.members = []  # (label, object, snapshot)
        self.n_checks = 0

    def add(self, label, o, *owned):
        with probe.muted():
            self.members.append((label, o, snap(o)))
            for c in owned:
                self.members.append((label + ":caller container", c, snap(c)))
        return o

    def objects(self):
        return [o for _l, o, _s in self.members if is_value_object(o)]

    def check(self):
        """[(label, before, after)] of members that changed since they were added (reported once)."""
        out = []
        with probe.muted():
            for i, (l, o, s) in enumerate(self.members):
                self.n_checks += 1
                now = snap(o)
                if now != s:
                    out.append((l, s, now))
                    self.members[i] = (l, o, now)
        return out
