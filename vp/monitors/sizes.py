"""C11 monitor: size invariants of every live FixedArray and Curve.

``check_object`` is applied to every object a workload step returns or touches; ``sweep`` walks
*all* live instances (``gc.get_objects``), so an instance produced by a route the workload did not
think of (built inside the library, kept alive by a result) is still seen.
"""
import gc
import numbers

from .. import probe


def _len(v):
    try:
        return len(v)
    except TypeError:
        return None


def check_fixedarray(o):
    """None if fine, else a short description of the broken invariant."""
    with probe.muted():
        try:
            d = o.dimension
            v = o.GetValues()
        except AttributeError:
            return None  # half-built instance of a refused construction; not reachable by a user
        n = _len(v)
        if not isinstance(d, numbers.Integral) or isinstance(d, bool):
            return "dimension %r is not an int" % (d,)
        if d < 2:
            return "dimension %r < 2" % (d,)
        if n != d:
            return "len(values)=%r but dimension=%r" % (n, d)
        if o.GetDimension() != d:
            return "GetDimension()=%r but dimension=%r" % (o.GetDimension(), d)
        if len(o) != d:
            return "len(array)=%r but dimension=%r" % (len(o), d)
    return None


def check_curve(c):
    with probe.muted():
        try:
            i, d = c.GetImage(), c.GetDomain()
        except AttributeError:
            return None
        ni, nd = _len(i.GetValues()), _len(d.GetValues())
        if ni != nd:
            return "image has %r values, domain has %r" % (ni, nd)
        if c.image is not i or c.domain is not d:
            return "image/domain properties disagree with GetImage/GetDomain"
        if c.GetLength() != ni:
            return "GetLength()=%r but image has %r values" % (c.GetLength(), ni)
    return None


def check_object(o):
    from barril.curve.curve import Curve
    from barril.units import FixedArray

    if isinstance(o, FixedArray):
        return check_fixedarray(o)
    if isinstance(o, Curve):
        return check_curve(o)
    return None


def sweep():
    """[(object, problem)] over all live FixedArray / Curve instances; also returns how many were seen."""
    from barril.curve.curve import Curve
    from barril.units import FixedArray

    gc.collect()
    bad, n_fa, n_cv = [], 0, 0
    for o in gc.get_objects():
        try:
            is_fa, is_cv = isinstance(o, FixedArray), isinstance(o, Curve)
        except Exception:
            continue
        if is_fa:
            n_fa += 1
            p = check_fixedarray(o)
        elif is_cv:
            n_cv += 1
            p = check_curve(o)
        else:
            continue
        if p:
            bad.append((o, p))
    return bad, n_fa, n_cv
