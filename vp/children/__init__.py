"""Small programs run in a process of their own, without any probe installed (some behaviours depend on who else holds a
reference to an object - a wrapper around the operator is such a holder - and must be watched from outside)."""
