"""Run as a script: short-lived Arrays built on views of living numpy arrays, operated with plain numbers, written the way
they stand in a program (inside functions, as one expression).  Prints one JSON list of findings.  No probes, no wrappers:
reference counts are what they are in an application."""
import json
import os
import sys

sys.path.insert(0, os.path.join(os.environ.get("VERIF_REPO", "/repo"), "src"))

import numpy  # noqa: E402

from barril.units import Array, FixedArray  # noqa: E402

findings = []
n = 0


def steps():
    yield "Array(depths[1:], 'm') * 1000.0", lambda depths, grid: Array(depths[1:], "m") * 1000.0
    yield "Array(depths[::2], 'm') + 1.0", lambda depths, grid: Array(depths[::2], "m") + 1.0
    yield "Array(depths[:], 'm') / 4.0", lambda depths, grid: Array(depths[:], "m") / 4.0
    yield "Array(depths.view(), 'm') - 2.0", lambda depths, grid: Array(depths.view(), "m") - 2.0
    yield "(Array(depths[1:], 'm') * 2.0 + 1.0) / 3.0", lambda depths, grid: (Array(depths[1:], "m") * 2.0 + 1.0) / 3.0
    yield "Array(grid.T, 'm') * 2.0", lambda depths, grid: Array(grid.T, "m") * 2.0
    yield "Array(grid.reshape(8), 'm') * 2.0", lambda depths, grid: Array(grid.reshape(8), "m") * 2.0
    yield "Array(grid[1:], 'm') + 0.5", lambda depths, grid: Array(grid[1:], "m") + 0.5
    yield "FixedArray(3, depths[1:], 'm') * 1000.0", lambda depths, grid: FixedArray(3, depths[1:], "m") * 1000.0
    yield "Array('length', depths[1:], 'cm') * 10.0", lambda depths, grid: Array("length", depths[1:], "cm") * 10.0
    yield "Array(depths, 'm')[1:] * 1000.0", lambda depths, grid: Array(depths, "m")[1:] * 1000.0
    yield "Array(depths, 'm').CreateCopy() * 2.0", lambda depths, grid: Array(depths, "m").CreateCopy() * 2.0
    yield "2.0 * Array(depths[1:], 'm')", lambda depths, grid: 2.0 * Array(depths[1:], "m")
    yield "Array(depths[1:], 'm') * numpy.float64(3.0)", lambda depths, grid: Array(depths[1:], "m") * numpy.float64(3.0)


for description, operation in steps():
    depths = numpy.array([10.0, 20.0, 30.0, 40.0])
    grid = numpy.array([[1.0, 2.0], [3.0, 4.0], [5.0, 6.0], [7.0, 8.0]])
    before = (depths.tobytes(), grid.tobytes())
    n += 1
    try:
        result = operation(depths, grid)
        del result
    except Exception as e:  # an expression the library does not support is not this program's business
        findings.append({"expression": description, "raised": "%s: %s" % (type(e).__name__, str(e)[:120])})
        continue
    if (depths.tobytes(), grid.tobytes()) != before:
        findings.append({"expression": description, "changed": True, "depths": depths.tolist(), "grid": grid.tolist()})
print(json.dumps({"expressions": n, "findings": findings}))
