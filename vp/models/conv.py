"""Observational affine model of the unit table + floating point error scale (DESIGN.md 2.5).

Every unit u of a quantity type is described by what its conversion functions *do*:
    off_u   = tobase_u(0.0)                 (in base units)
    slope_u = tobase_u(1.0) - tobase_u(0.0)
read through the code under test.  Relations between conversions (round trip, path independence,
route agreement) are judged against a running error scale, never an ad-hoc epsilon:
a conversion u -> v of x goes through base value b = off_u + slope_u*x; every float operation
contributes 2^-53 times the magnitude of its result, so the error of the base value is bounded by
about EPS*(|off_u| + |slope_u*x|) and converting back to a unit w divides by |slope_w| after
subtracting off_w (cancellation: the *absolute* error in base units is what survives).
"""
EPS = 2.0**-53


class Aff:
    __slots__ = ("qt", "unit", "off", "slope", "exact")

    def __init__(self, qt, unit, off, slope, exact):
        self.qt, self.unit, self.off, self.slope, self.exact = qt, unit, off, slope, exact

    @property
    def scale_only(self):
        return self.off == 0.0


def describe(db):
    """{unit: Aff} for every registered unit, read observationally (through tobase)."""
    out = {}
    for qt, infos in db.quantity_types.items():
        for info in infos:
            try:
                off = float(info.tobase(0.0))
                one = float(info.tobase(1.0))
                two = float(info.tobase(2.0))
            except Exception:
                continue
            slope = one - off
            # affine? (a Moebius row with D != 0 is not; such a row gets exact=False and callers skip it)
            affine = abs((two - one) - slope) <= 8 * EPS * (abs(two) + abs(one) + abs(off))
            # the difference above loses digits when the offset is large (degF: 255.37 vs slope 0.56):
            # where the closure carries its POSC coefficients and they reproduce the observed
            # behaviour, the slope is taken from them (b/c), which is what the closure computes.
            t = info.tobase
            if affine and all(hasattr(t, a) for a in ("__a__", "__b__", "__c__", "__d__")) and t.__d__ == 0 and t.__c__:
                s2 = t.__b__ / t.__c__
                if abs(s2 - slope) <= 64 * EPS * (abs(off) + abs(one)):
                    slope = s2
            out[info.unit] = Aff(qt, info.unit, off, slope, affine)
    return out


def base_err(au, x, *others):
    """Error scale (in base units) of anything computed from x in unit au that travels through the
    base unit and through the units in ``others``."""
    s = abs(au.off) + abs(au.slope * x)
    for o in others:
        s += abs(o.off)
    return EPS * s


def tol_in(aw, err_base, y, k=8.0):
    """Tolerance, in unit aw, for a value y whose base representation carries err_base."""
    return k * (err_base / abs(aw.slope) + EPS * abs(y)) if aw.slope else float("inf")
