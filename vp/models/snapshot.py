"""Canonical snapshots of observable state (used by C05, C07, C11, C13, C14, C15)."""


def registry(db, sample_conversions=True):
    """What the unit database reports through its public attributes / getters, as plain data.
    Copies every list, so a later in-place edit of a list handed out by the database shows up."""
    qts = []
    for qt, infos in db.quantity_types.items():
        row = []
        for i in infos:
            conv = None
            if sample_conversions:
                try:
                    conv = (repr(i.tobase(1.0)), repr(i.tobase(-3.5)), repr(i.frombase(1.0)), repr(i.frombase(-3.5)))
                except Exception as e:
                    conv = ("raised", type(e).__name__)
            row.append((i.unit, i.name, i.default_category, i.quantity_type, conv))
        qts.append((qt, tuple(row)))
    cats = []
    for c, ci in db.categories_to_quantity_types.items():
        cats.append((
            c, ci.category, ci.quantity_type, tuple(ci.valid_units) if ci.valid_units is not None else None,
            tuple(sorted(ci.valid_units_set)), ci.default_unit, repr(ci.default_value), repr(ci.min_value), repr(ci.max_value),
            ci.is_min_exclusive, ci.is_max_exclusive, ci.caption,
        ))  # fmt: skip
    u2i = tuple((u, i.quantity_type) for u, i in db.unit_to_unit_info.items())
    return (tuple(qts), tuple(cats), u2i)


def registry_getters(db):
    """The same information through the public getter methods (slower; used where the getters
    themselves are under test)."""
    out = []
    for qt in db.GetQuantityTypes():
        out.append((qt, tuple(db.GetUnits(qt)), tuple(db.GetUnitNames(qt)), db.GetBaseUnit(qt)))
    for c in sorted(db.IterCategories()):
        out.append((c, db.GetCategoryQuantityType(c), tuple(db.GetValidUnits(c)), db.GetDefaultUnit(c), repr(db.GetDefaultValue(c))))
    return tuple(out)


def registry_getters_safe(db):
    """registry_getters for databases in *any* state a registration history can produce: a getter that
    raises is recorded (class name) instead of aborting the snapshot."""

    def g(f, *a):
        try:
            r = f(*a)
            return tuple(r) if isinstance(r, list) else (repr(r) if isinstance(r, float) else r)
        except RecursionError:
            return ("raised", "RecursionError")
        except Exception as e:
            return ("raised", type(e).__name__)

    out = []
    for qt in list(db.GetQuantityTypes()):
        out.append((qt, g(db.GetUnits, qt), g(db.GetUnitNames, qt), g(db.GetBaseUnit, qt)))
    for c in sorted(db.IterCategories()):
        out.append((c, g(db.GetCategoryQuantityType, c), g(db.GetValidUnits, c), g(db.GetDefaultUnit, c), g(db.GetDefaultValue, c)))
    return tuple(out)


def diff(a, b, limit=3):
    """Short description of where two snapshots differ."""
    out = []

    def rec(x, y, path):
        if len(out) >= limit:
            return
        if type(x) is not type(y) or not isinstance(x, tuple):
            if x != y:
                out.append("%s: %r -> %r" % (path, x, y))
            return
        if len(x) != len(y):
            out.append("%s: length %d -> %d (%r -> %r)" % (path, len(x), len(y), x[-2:] if x else x, y[-2:] if y else y))
            return
        for i, (p, q) in enumerate(zip(x, y)):
            if p != q:
                rec(p, q, "%s[%d]" % (path, i))

    rec(a, b, "")
    return out


def value_object(o):
    """Deep snapshot of a barril value object: class, unit, category, dimension, container type and
    container *contents*, FractionValue parts. Private attributes are read only to reach the very
    container the object holds (``GetValues()`` would hand out the same object anyway)."""
    import numpy as np
    from barril.basic.fraction import Fraction, FractionValue

    if isinstance(o, Fraction):
        return ("Fraction", o.numerator, o.denominator)
    if isinstance(o, FractionValue):
        f = o.GetFraction()
        return ("FractionValue", repr(o.GetNumber()), f.numerator, f.denominator)
    try:
        q = o.GetQuantity()
        v = o.GetAbstractValue()
    except AttributeError:
        return ("uninitialised", type(o).__name__)
    try:
        items = tuple((c, tuple(ue)) for c, ue in q.GetCategoryToUnitAndExps().items())
        joined = tuple(q.GetComposingUnitsJoiningExponents())
    except Exception as e:
        items, joined = ("raised", type(e).__name__), ()
    return (
        type(o).__name__, id(q), q.GetUnit(), q.GetCategory(), q.GetQuantityType(),
        getattr(o, "dimension", None) if hasattr(type(o), "dimension") else None, container(v), items, joined,
    )  # fmt: skip


def container(v):
    import numpy as np
    from barril.basic.fraction import FractionValue

    if isinstance(v, np.ndarray):
        return ("nd", v.dtype.str, v.shape, v.tobytes())
    if isinstance(v, (list, tuple)):
        return (type(v).__name__, tuple(container(x) if isinstance(x, (list, tuple, np.ndarray)) else repr(x) for x in v))
    if isinstance(v, FractionValue):
        return value_object(v)
    return ("s", repr(v))


def quantity_fingerprint(q):
    """Everything a Quantity reports about itself (C07)."""
    return (
        q.GetCategory(), q.GetQuantityType(), q.GetUnit(), repr(q.GetComposingUnits()), repr(q.GetComposingCategories()),
        tuple((c, tuple(ue)) for c, ue in q.GetCategoryToUnitAndExps().items()), tuple(q.GetComposingUnitsJoiningExponents()),
        q.GetUnknownCaption(), q.IsDerived(), hash(q), repr(q), q.GetUnitCaption(),
    )  # fmt: skip
