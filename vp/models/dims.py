"""Dimensional-analysis reference model (C03, C04, C09, C10, C20).  No barril arithmetic is used.

An *amount* in the model is
    value      float (or list of floats)
    comp       ordered list of (category, unit, exponent)      -- what the operands were built from
The model knows, from the observational table description (models/conv.py), the quantity type and
the scale factor of every unit, and computes
    dimension vector   {quantity type: exponent}  (zero entries removed)
    base magnitude     value x prod(slope(unit) ** exponent)      as fractions.Fraction
for operands; for the *result* handed back by barril the same two functions are applied to the
result's own ``GetCategoryToUnitAndExps()`` - so nothing has to be assumed about which unit barril
picks when it unifies units, only that what it reports denotes the right physical amount.
"""
from fractions import Fraction as Fr


class Table:
    def __init__(self, db, aff):
        self.db = db
        self.aff = aff  # unit -> conv.Aff
        self.cat_qt = {c: ci.quantity_type for c, ci in db.categories_to_quantity_types.items()}
        self._fr = {}

    def factor(self, unit):
        f = self._fr.get(unit)
        if f is None:
            f = self._fr[unit] = Fr(self.aff[unit].slope)
        return f

    def qt_of_category(self, c):
        return self.cat_qt[c]

    def qt_of_unit(self, u):
        return self.aff[u].qt


def items_of(quantity):
    """[(category, unit, exp)] of a live barril quantity (public getter)."""
    return [(c, ue[0], ue[1]) for c, ue in quantity.GetCategoryToUnitAndExps().items()]


def dimvec(table, items):
    d = {}
    for c, u, e in items:
        qt = table.qt_of_category(c)
        d[qt] = d.get(qt, 0) + e
    return {k: v for k, v in d.items() if v}


def unitvec(items):
    d = {}
    for c, u, e in items:
        d[u] = d.get(u, 0) + e
    return {k: v for k, v in d.items() if v}


def scale(table, items):
    m = Fr(1)
    for c, u, e in items:
        m *= table.factor(u) ** e
    return m


def basemag(table, value, items):
    return Fr(value) * scale(table, items)


def combine(d1, d2, sign):
    d = dict(d1)
    for k, v in d2.items():
        d[k] = d.get(k, 0) + sign * v
    return {k: v for k, v in d.items() if v}


def times(d, n):
    return {k: v * n for k, v in d.items() if v * n}


def rel_close(a, b, rel):
    """|a-b| <= rel * max(|a|,|b|)  on Fractions / floats."""
    a, b = Fr(a), Fr(b)
    if a == b:
        return True
    return abs(a - b) <= Fr(rel) * max(abs(a), abs(b))
