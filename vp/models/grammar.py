"""Unit-symbol grammar of the table (C06, C16, C20) and derived-string grammar (C20).

symbol   := num [ "/" den ]            exactly one "/" at most
num      := "1" | factor ("." factor)*
den      := factor ("." factor)*
factor   := [integer prefix] atom [2-9]         atom = a registered unit symbol
Multi-slash symbols and symbols containing "^" or "*" are *not decomposable* and are skipped by
callers (never alarmed on). Parentheses may appear inside atoms ("scf(60F)").
"""
import math
import re

#: multi-slash symbols whose left-to-right reading is not what the row means (decided by reading the row's name)
MULTISLASH_NOT_READ = set()

AMBIG = {"F": "farad", "C": "coulomb"}  # single letters that also abbreviate degF / degC in compounds

SI_PREFIXES = {
    "E": ("exa", 1e18), "P": ("peta", 1e15), "T": ("tera", 1e12), "G": ("giga", 1e9), "M": ("mega", 1e6),
    "k": ("kilo", 1e3), "h": ("hecto", 1e2), "da": ("deca", 1e1), "d": ("deci", 1e-1), "c": ("centi", 1e-2),
    "m": ("milli", 1e-3), "u": ("micro", 1e-6), "n": ("nano", 1e-9), "p": ("pico", 1e-12), "f": ("femto", 1e-15),
    "a": ("atto", 1e-18),
}  # fmt: skip


def parse_factor(f, atoms, exclude, rowname):
    """-> (prefix, atom, exp) | None | 'ambiguous'"""
    if f in atoms and f != exclude:
        if f in AMBIG and AMBIG[f] not in rowname.lower():
            return "ambiguous"
        return (1.0, f, 1)
    m = re.match(r"^(.+?)([2-9])$", f)
    if m and m.group(1) in atoms and m.group(1) != exclude:
        s = m.group(1)
        if s in AMBIG and AMBIG[s] not in rowname.lower():
            return "ambiguous"
        return (1.0, s, int(m.group(2)))
    m = re.match(r"^(\d+)(\D.*)$", f)
    if m:
        p = parse_factor(m.group(2), atoms, None, rowname)
        if p and p != "ambiguous" and p[0] == 1.0:
            return (float(m.group(1)), p[1], p[2])
    return None


def parse_multislash(sym, atoms, rowname=""):
    """Symbols with several '/' ('kgf/cm2/m', 'mg/l/mg/l', 'cp.m3/day/kgf/cm2', '(m3/m3)/K'): read left to right
    as  first / second / third ...  where a run of '/'-separated pieces that is itself a registered compound
    symbol ('kgf/cm2', 'mg/l', 'm3/m3') counts as ONE piece - longest such run first - and a parenthesised group
    is one piece. Every piece must then decompose into registered atoms. None if it does not."""
    if "^" in sym or "*" in sym:
        return None
    # split on '/' outside parentheses
    pieces, depth, cur = [], 0, ""
    for ch in sym:
        if ch == "(":
            depth += 1
        elif ch == ")":
            depth -= 1
        if ch == "/" and depth == 0:
            pieces.append(cur)
            cur = ""
        else:
            cur += ch
    pieces.append(cur)
    if depth != 0 or len(pieces) < 3 and "(" not in sym:
        return None
    # merge runs that are registered compound symbols (longest first), never the whole symbol
    merged, i = [], 0
    while i < len(pieces):
        best = None
        for j in range(len(pieces), i + 1, -1):
            cand = "/".join(pieces[i:j])
            if cand != sym and cand in atoms:
                best = j
                break
        if best:
            merged.append("/".join(pieces[i:best]))
            i = best
        else:
            merged.append(pieces[i])
            i += 1
    if len(merged) < 2:
        return None
    out = []
    for k, piece in enumerate(merged):
        sign = 1 if k == 0 else -1
        if piece.startswith("(") and piece.endswith(")"):
            piece = piece[1:-1]
        if k == 0 and piece == "1":
            continue
        if piece in atoms and piece != sym:
            if piece in AMBIG:
                return "ambiguous"
            out.append((1.0, piece, sign))
            continue
        sub = parse_symbol(piece, atoms, rowname)
        if sub is None or sub == "ambiguous":
            # a product of atoms / a single atom with exponent
            sub = []
            for f in piece.split("."):
                pf = parse_factor(f, atoms, sym, rowname)
                if pf is None or pf == "ambiguous":
                    return pf
                sub.append(pf)
        out.extend((pre, a, sign * e) for pre, a, e in sub)
    return out or None


def parse_symbol(sym, atoms, rowname=""):
    """Decomposes a table symbol into [(prefix, atom, exp)] or returns None (not decomposable /
    atomic) or 'ambiguous'."""
    if sym.count("/") > 1 or ("(" in sym and "/" in sym and sym.startswith("(")):
        if sym in MULTISLASH_NOT_READ:
            return None
        return parse_multislash(sym, atoms, rowname)
    if "^" in sym or "*" in sym:
        return None
    parts = sym.split("/")
    out = []
    if parts[0] != "1":
        for f in parts[0].split("."):
            p = parse_factor(f, atoms, sym, rowname)
            if p is None or p == "ambiguous":
                return p
            out.append(p)
    if len(parts) == 2:
        for f in parts[1].split("."):
            p = parse_factor(f, atoms, sym, rowname)
            if p is None or p == "ambiguous":
                return p
            out.append((p[0], p[1], -p[2]))
    if not out:
        return None
    if len(out) == 1 and out[0][2] == 1 and out[0][0] == 1.0:
        return None
    return out


def digits_prec(x):
    """(significant digits n of the shortest repr, relative half unit in the last written place)"""
    if x == 0:
        return (0, 0.0)
    r = repr(float(abs(x))).lower()
    mant = r.partition("e")[0]
    digits = mant.replace(".", "").lstrip("0")
    n = len(digits.rstrip("0")) or 1
    if float(x).is_integer() and abs(x) >= 1e4 and "e" not in r:
        # a large integer literal (86400, 31558150, 365.25 * 86400) is written to the unit: its trailing zeros
        # are digits, not missing precision
        n = max(n, len(str(int(abs(x)))))
    if n >= 15:
        return (n, 2.0**-52)
    e10 = math.floor(math.log10(abs(x)))
    return (n, 0.5 * 10.0 ** (e10 - n + 1) / abs(x))


def written_precision(info, own):
    """Precision the row is written in: own row counts coefficients with >= 4 digits, component
    rows those with >= 5 (shorter literals are exact definitions)."""
    tb = info.tobase
    if not hasattr(tb, "__b__"):
        return 0.0
    t = 0.0
    for x in (tb.__b__, tb.__c__):
        n, p = digits_prec(x)
        if n >= (4 if own else 5):
            t += p
    return t


def si_prefixed(sym, info, infos):
    """If sym is an atomic row that is SI-prefix + another symbol of the same quantity type
    (optionally with a trailing exponent digit) AND its registered name is the prefix word followed
    by the other row's name: returns (other symbol, multiplier) else None."""
    if "/" in sym or "." in sym:
        return None
    for pre, (word, mult) in SI_PREFIXES.items():
        if not sym.startswith(pre):
            continue
        rest = sym[len(pre):]
        exp = 1
        other = infos.get(rest)
        if other is None or other.quantity_type != info.quantity_type:
            continue
        m = re.match(r"^(.+?)([2-9])$", rest)
        if m and m.group(1) in infos:
            exp = int(m.group(2))
        nm = info.name.lower().replace(" ", "").replace("-", "")
        on = other.name.lower().replace(" ", "").replace("-", "")
        if nm.startswith(word) and nm[len(word):].rstrip("s") == on.rstrip("s"):
            return (rest, mult**exp)
    return None


# ------------------------------------------------------------------- derived strings (C20)
def parse_unit_string(s):
    """Parses a derived unit string produced by the library ('m2.kg/s2.K', '1/s') whose factors are
    atomic symbols without '.', '/', trailing digit -> {symbol: exponent}; None if not parseable."""
    if s == "":
        return {}
    if s.count("/") > 1:
        return None
    parts = s.split("/")
    out = {}

    def factors(txt, sign):
        for f in txt.split("."):
            m = re.match(r"^(.*?)(\d+)?$", f)
            sym, e = m.group(1), int(m.group(2)) if m.group(2) else 1
            if not sym or sym in out:
                return False
            out[sym] = sign * e
        return True

    if parts[0] != "1":
        if not factors(parts[0], 1):
            return None
    elif len(parts) == 1:
        return None
    if len(parts) == 2:
        if not parts[1] or not factors(parts[1], -1):
            return None
    return out


def parse_star_string(s):
    """Parses 'a * (b) ** 2 / c * (d) ** 3' or '1 / x' -> [(rep, exp)] (multiset as list) or None."""
    if s == "":
        return []
    if s.count(" / ") > 1:
        return None
    parts = s.split(" / ")
    out = []

    def factors(txt, sign):
        for f in txt.split(" * "):
            m = re.match(r"^\((.*)\) \*\* (\d+)$", f)
            if m:
                rep, e = m.group(1), int(m.group(2))
            else:
                rep, e = f, 1
            if not rep or " * " in rep or " ** " in rep:
                return False
            out.append((rep, sign * e))
        return True

    if parts[0] != "1":
        if not factors(parts[0], 1):
            return None
    elif len(parts) == 1:
        return None
    if len(parts) == 2:
        if not parts[1] or not factors(parts[1], -1):
            return None
    return out
