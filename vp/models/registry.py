"""Reference model of UnitDatabase registration calls (C14, C15): no barril code.

The model keeps, per quantity type, the ordered unit symbols and which of them were registered as
bases, and per category the fields the documented rules determine.  ``apply(call)`` returns
"accept" / "reject" and updates the state on accept.  It models the *documented* rules only:

AddUnit / AddUnitBase   rejected iff the symbol is already registered (in any type); a base goes to
                        the front of its type, any other unit to the end
AddCategory             rejected iff: quantity_type and from_category both given; neither resolvable;
                        name taken and not override; max < min; from_category unknown; unknown type;
                        a valid/default unit (legacy spelling rewritten first) outside the type; a
                        given default unit outside non-empty valid units; an exclusive limit without
                        default value; a default value outside the limits
                        accepted: default unit = given | base if valid else first valid unit;
                        default value = given | min | max | 0.0; valid units = given list (rewritten)
Captions, exception classes and what GetValidUnits falls back to when no list was given are *not*
modelled (the statement does not fix them).
"""

LEGACY = [("1000ft3", "Mcf"), ("1000m3", "Mm3"), ("M(ft3)", "MMcf"), ("M(m3)", "MMm3"), ("k(ft3)", "Mcf"), ("Ns/m", "N.s/m"), ("lbmole", "lbmol"), ("gmole", "gmol")]


def fix_legacy(u):
    for a, b in LEGACY:
        u = u.replace(a, b)
    return u


class Cat:
    __slots__ = ("name", "qt", "valid", "default_unit", "default_value", "min", "max", "min_excl", "max_excl")

    def __init__(self, **k):
        for a, b in k.items():
            setattr(self, a, b)


class Model:
    def __init__(self):
        self.types = {}  # qt -> [units] (order)
        self.bases = {}  # qt -> set(units registered as base)
        self.unit_type = {}
        self.cats = {}  # name -> Cat (insertion order = registration order; override keeps position)

    # ------------------------------------------------------------------------------ calls
    def apply(self, call):
        name, args, kw = call
        return getattr(self, "_" + name)(*args, **kw)

    def _Probe(self, category, unit):
        """questions asked between registrations (lookups, validity checks, attempted constructions): they change nothing"""
        return "accept"

    def _AddUnit(self, qt, name, unit, frombase=None, tobase=None, default_category=None):
        if unit in self.unit_type:
            return "reject"
        self.unit_type[unit] = qt
        self.types.setdefault(qt, []).append(unit)
        return "accept"

    def _AddUnitBase(self, qt, name, unit):
        if unit in self.unit_type:
            return "reject"
        self.unit_type[unit] = qt
        self.types.setdefault(qt, []).insert(0, unit)
        self.bases.setdefault(qt, set()).add(unit)
        return "accept"

    def _AddCategory(self, category, quantity_type=None, valid_units=None, override=False, default_unit=None, default_value=None, min_value=None, max_value=None,
                     is_min_exclusive=False, is_max_exclusive=False, caption="", from_category=None):  # fmt: skip
        if from_category and quantity_type:
            return "reject"
        if not override and category in self.cats:
            return "reject"
        if min_value is not None and max_value is not None and max_value < min_value:
            return "reject"
        if from_category:
            p = self.cats.get(from_category)
            if p is None:
                return "reject"
            quantity_type = p.qt
            if valid_units is None:
                valid_units = p.valid
            if default_unit is None:
                default_unit = p.default_unit
            if default_value is None:
                default_value = p.default_value
            if min_value is None:
                min_value = p.min
            if max_value is None:
                max_value = p.max
        if quantity_type is None or quantity_type not in self.types:
            return "reject"
        units = self.types[quantity_type]
        if valid_units is not None:
            valid_units = [fix_legacy(u) for u in valid_units]
            if any(u not in units for u in valid_units):
                return "reject"
        if default_unit is None:
            default_unit = units[0]
            if valid_units and default_unit not in valid_units:
                default_unit = valid_units[0]
        else:
            default_unit = fix_legacy(default_unit)
            if default_unit not in units:
                return "reject"
            if valid_units and default_unit not in valid_units:
                return "reject"
        if default_value is None:
            if is_min_exclusive or is_max_exclusive:
                return "reject"
            default_value = min_value if min_value is not None else (max_value if max_value is not None else 0.0)
        else:
            if min_value is not None and not (default_value > min_value if is_min_exclusive else default_value >= min_value):
                return "reject"
            if max_value is not None and not (default_value < max_value if is_max_exclusive else default_value <= max_value):
                return "reject"
        self.cats[category] = Cat(name=category, qt=quantity_type, valid=valid_units, default_unit=default_unit, default_value=default_value, min=min_value, max=max_value,
                                  min_excl=bool(is_min_exclusive), max_excl=bool(is_max_exclusive))  # fmt: skip
        return "accept"

    # ----------------------------------------------------------------------------- queries
    def view(self):
        """What the model predicts the registry reports."""
        return {
            "types": {qt: list(us) for qt, us in self.types.items()},
            "categories": {c.name: (c.qt, c.default_unit, c.default_value, None if c.valid is None else list(c.valid), c.min, c.max, c.min_excl, c.max_excl) for c in self.cats.values()},
        }
