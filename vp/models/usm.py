"""Reference model of UnitSystemManager (C17): ids, current pointer, template, mappings, callback log.

Documented rules only:
  add(id, mapping)      rejected iff the id is in use, or a template is set and the mapping does not cover its
                        categories; mapping None -> copy of the template mapping (or empty); the system gets its
                        *own* mapping; if nothing is current it becomes current (one on_current)
  remove(id)            rejected iff unknown; removing the current one selects the first remaining system or none
                        (one on_current), removing another one notifies nobody
  set_current(id|None)  one on_current per change (None is announced as the null system, id None); re-selecting
                        the current system may be announced once more or not at all
  set_template(mapping) rejected iff some registered system does not cover it
  set_default(id,c,u) / remove_category(id,c)
                        change that system's mapping; one on_unit_changed(c, u|None) iff that system is current
                        (remove_category of an absent category changes and announces nothing)
"""
from collections import OrderedDict


class Model:
    def __init__(self):
        self.systems = OrderedDict()  # id -> dict
        self.current = None
        self.template = None
        self.log = []

    def add(self, id, mapping):
        if id in self.systems:
            return "reject"
        if self.template is not None:
            if mapping is None:
                mapping = dict(self.template)
            elif not set(mapping) >= set(self.template):
                return "reject"
        elif mapping is None:
            mapping = {}
        self.systems[id] = dict(mapping)
        if self.current is None:
            self.current = id
            self.log.append(("cur", id))
        return "ok"

    def remove(self, id):
        if id not in self.systems:
            return "reject"
        del self.systems[id]
        if self.current == id:
            self.current = next(iter(self.systems), None)
            self.log.append(("cur", self.current))
        return "ok"

    def set_current(self, id):
        # selecting the system that already is current changes nothing: announcing it again is what the code
        # does today, not announcing it would satisfy "notified exactly for changes" just as well -> optional
        self.log.append(("cur?" if self.current == id else "cur", id))
        self.current = id
        return "ok"

    def set_template(self, mapping):
        if any(not set(m) >= set(mapping) for m in self.systems.values()):
            return "reject"
        self.template = dict(mapping)
        return "ok"

    def set_default(self, id, cat, unit):
        unchanged = self.systems[id].get(cat) == unit
        self.systems[id][cat] = unit
        if self.current == id:
            # "notified exactly for default-unit changes": setting the unit a category already has changes nothing -
            # an announcement of it is tolerated, not demanded
            self.log.append(("unit?" if unchanged else "unit", cat, unit))
        return "ok"

    def remove_category(self, id, cat):
        if cat in self.systems[id]:
            del self.systems[id][cat]
            if self.current == id:
                self.log.append(("unit", cat, None))
        return "ok"

    def log_matches(self, observed):
        """observed callback log vs the model's, where ("cur?", id) entries are optional."""
        i = 0
        for kind, *rest in self.log:
            if kind in ("cur?", "unit?"):
                if i < len(observed) and tuple(observed[i]) == (kind[:-1],) + tuple(rest):
                    i += 1
                continue
            if i >= len(observed) or tuple(observed[i]) != (kind,) + tuple(rest):
                return False
            i += 1
        return i == len(observed)

    def default_unit(self, cat):
        if self.current is None:
            return None
        return self.systems[self.current].get(cat)

    def state(self):
        return (list(self.systems), self.current, {i: dict(m) for i, m in self.systems.items()}, None if self.template is None else dict(self.template))
