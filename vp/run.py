"""CLI: python -m vp.run <Cxx> [--tier quick|thorough] [--replay file]

A check module ``vp.checks.cNN`` provides
    SHARDS = {"quick": n, "thorough": m}      (optional, default 1 / 16)
    WATCHDOG_S = {"quick": s, "thorough": s}  (optional, generous wall clock limit per shard)
    run(ctx)                                  records into the Context
    FLOORS = (min evaluations, min distinct non-trivial)   (optional)
    replay(ctx, data)                         (optional) re-executes a recorded case

Every shard is a fresh interpreter (``subprocess.run(timeout=...)``, never multiprocessing.Pool);
the parent merges the shard dumps, classifies violations against KNOWN_FINDINGS.txt and writes the
evidence file. A shard that dies or times out makes the verdict inconclusive, never "held".
"""
import argparse
import importlib
import json
import os
import subprocess
import sys
import tempfile
import time

from . import env, verdict


def _load(prop):
    return importlib.import_module("vp.checks.%s" % prop.lower())


def _run_shard(prop, tier, shard, nshards, out):
    env.setup()
    why = env.assert_repo()
    ctx = verdict.Context(prop, tier, shard, nshards)
    if why:
        ctx.inconclusive.append(why)
    else:
        mod = _load(prop)
        mod.run(ctx)
        try:
            from . import probe

            if probe._INSTALLED[0]:
                ctx.notes.setdefault("events_by_wrapper", probe.top_counts(30))
                ctx.notes.setdefault("boundary_events", {"total": probe.boundary_total()})
                rr = probe.reach_report()
                if rr:
                    ctx.notes.setdefault("reach", rr)
            from .workloads import histories

            for k, n in histories.RAISED_IN_OWN_LINE.items():
                ctx.count("history step raised in the interpreter's own line: %s" % k, n)
        except Exception:
            pass
    with open(out, "w") as f:
        json.dump(ctx.dump(), f, default=repr)
    return 0


def main(argv=None):
    ap = argparse.ArgumentParser()
    ap.add_argument("prop")
    ap.add_argument("--tier", default=os.environ.get("VERIF_TIER", "quick"), choices=["quick", "thorough"])
    ap.add_argument("--shard", default=None, help="i/n (internal)")
    ap.add_argument("--out", default=None)
    ap.add_argument("--replay", default=None)
    ap.add_argument("--shards", type=int, default=None, help="override number of shards")
    a = ap.parse_args(argv)
    prop = a.prop.upper()
    if a.shard is not None:
        i, n = a.shard.split("/")
        try:
            return _run_shard(prop, a.tier, int(i), int(n), a.out)
        except BaseException as e:  # noqa
            return verdict.harness_error(prop, e)

    env.setup()
    mod = _load(prop)
    if a.replay:
        why = env.assert_repo()
        if why:
            print("INCONCLUSIVE property=%s reason=%s" % (prop, why))
            return verdict.EXIT_INCONCLUSIVE
        data = json.load(open(a.replay if os.path.isabs(a.replay) else os.path.join(env.VERIF_DIR, a.replay)))
        ctx = verdict.Context(prop, "quick")
        if not hasattr(mod, "replay"):
            print("check %s has no replay(); recorded case:\n%s" % (prop, json.dumps(data, indent=1)[:4000]))
            return verdict.EXIT_INCONCLUSIVE
        mod.replay(ctx, data.get("replay"))
        ctx.evaluations = max(ctx.evaluations, 1)
        for (p, k), v in ctx.violations.items():
            print("VIOLATION property=%s replay=%s" % (p, a.replay))
            print("  key=%s detail=%s" % (k, json.dumps(v["detail"], default=repr)[:1500]))
        if not ctx.violations:
            print("replay: no violation reproduced")
        return verdict.EXIT_VIOLATED if ctx.violations else verdict.EXIT_HELD

    nshards = a.shards or getattr(mod, "SHARDS", {}).get(a.tier, 1 if a.tier == "quick" else 16)
    nshards = max(1, min(nshards, (os.cpu_count() or 4)))
    watchdog = getattr(mod, "WATCHDOG_S", {}).get(a.tier, 600 if a.tier == "quick" else 3600)
    ctx = verdict.Context(prop, a.tier, 0, nshards)
    tmp = tempfile.mkdtemp(prefix="vp-%s-" % prop.lower(), dir=os.environ.get("VP_TMP", None))
    procs = []
    envv = dict(os.environ)
    envv.setdefault("PYTHONHASHSEED", "0")
    envv["LC_ALL"] = "C"
    envv["PYTHONPATH"] = env.VERIF_DIR + os.pathsep + envv.get("PYTHONPATH", "")
    envv[env.GUARD] = "1"
    for i in range(nshards):
        out = os.path.join(tmp, "shard%d.json" % i)
        log = open(os.path.join(tmp, "shard%d.log" % i), "w")
        p = subprocess.Popen(
            [env.PYTHON, "-m", "vp.run", prop, "--tier", a.tier, "--shard", "%d/%d" % (i, nshards), "--out", out],
            cwd=env.VERIF_DIR, env=envv, stdout=log, stderr=subprocess.STDOUT,
        )  # fmt: skip
        procs.append((i, p, out, log))
    deadline = time.time() + watchdog
    for i, p, out, log in procs:
        try:
            rc = p.wait(timeout=max(1, deadline - time.time()))
        except subprocess.TimeoutExpired:
            p.kill()
            p.wait()
            ctx.inconclusive.append("shard %d hit the wall-clock watchdog (%ds)" % (i, watchdog))
            continue
        finally:
            log.close()
        if rc != 0 or not os.path.exists(out):
            tail = open(os.path.join(tmp, "shard%d.log" % i)).read()[-1500:]
            ctx.inconclusive.append("shard %d died rc=%s: %s" % (i, rc, tail))
            sys.stderr.write("shard %d rc=%s\n%s\n" % (i, rc, tail))
            continue
        ctx.merge(json.load(open(out)))
    try:
        import shutil

        shutil.rmtree(tmp, ignore_errors=True)
    except Exception:
        pass
    fe, fn = getattr(mod, "FLOORS", (1, 2))
    return verdict.finish(ctx, floor_eval=fe, floor_nt=fn)


if __name__ == "__main__":
    sys.exit(main())
