"""C12 - limit validation depends only on the physical amount (DESIGN.md 4, C12).

A private database (fresh POSC copy, pushed as the singleton) gets categories for every limit
configuration {none, min, max, both} x {inclusive, exclusive} over several default units (base and
non-base, one affine type, one custom *decreasing* unit).  The reference verdict of one amount is
the category's limits applied to ``UnitDatabase.Convert(unit -> default unit)`` of that amount; an
amount whose converted value lies within the float noise of a limit (and is not the limit itself)
is *ambiguous* - either verdict is accepted there, but it must still be the same verdict for every
container kind, element order and repeated call, and equal to the conjunction of the Scalar
verdicts of the very same floats.
"""
import itertools
import math

from .. import probe
from ..models import conv, snapshot
from ..workloads import table

SHARDS = {"quick": 4, "thorough": 16}
WATCHDOG_S = {"quick": 900, "thorough": 7200}
FLOORS = (20000, 300)

NAN, INF = float("nan"), float("inf")
TYPES = [
    ("length", "m", ["m", "cm", "km", "mm", "ft", "in", "rev_m"]),
    ("length", "cm", ["m", "cm", "km", "ft", "rev_m"]),
    ("length", "ft", ["m", "ft", "in", "mi"]),
    ("temperature", "degC", ["K", "degC", "degF", "degR"]),
    ("temperature", "degF", ["K", "degC", "degF"]),
    ("pressure", "psi", ["Pa", "psi", "bar", "kPa", "atm"]),
    ("time", "min", ["s", "min", "h", "d"]),
]
LIMITS = [(None, None), (1.0, None), (None, 10.0), (1.0, 10.0), (-5.0, 5.0), (0.0, None), (2.5, 2.5), (-40.0, 212.0), (0.1, 213.4)]  # (the last pair cannot be written exactly in float32)


def make_configs(db):
    cfgs = []
    i = 0
    db.AddUnit("length", "reversed metres", "rev_m", "%f * -1.0", "%f * -1.0")
    for qt, du, units in TYPES:
        for mn, mx in LIMITS:
            for me, xe in itertools.product([False, True], [False, True]):
                if (mn is None and me) or (mx is None and xe):
                    continue
                if mn is not None and mx is not None and mn == mx and (me or xe):
                    continue  # empty interval: no default value can exist
                name = "cfg%d" % i
                i += 1
                dv = None
                if me or xe:
                    lo = mn if mn is not None else mx - 2
                    hi = mx if mx is not None else mn + 2
                    dv = (lo + hi) / 2
                db.AddCategory(name, qt, default_unit=du, min_value=mn, max_value=mx, is_min_exclusive=me, is_max_exclusive=xe, default_value=dv)
                cfgs.append({"category": name, "qt": qt, "du": du, "units": units, "min": mn, "max": mx, "min_excl": me, "max_excl": xe})
    # limits that are infinite are limits: an exclusive one excludes the infinity itself, and NaN satisfies none of them
    for qt, du, units in TYPES[:1] + [t for t in TYPES if t[1] == "degC"][:1]:
        for mn, mx in ((-INF, None), (None, INF), (-INF, INF), (-INF, 10.0), (1.0, INF)):
            for me, xe in itertools.product([False, True], [False, True]):
                if (mn is None and me) or (mx is None and xe):
                    continue
                name = "cfg%d" % i
                i += 1
                try:
                    db.AddCategory(name, qt, default_unit=du, min_value=mn, max_value=mx, is_min_exclusive=me, is_max_exclusive=xe, default_value=2.0)
                except Exception:
                    continue
                cfgs.append({"category": name, "qt": qt, "du": du, "units": units, "min": mn, "max": mx, "min_excl": me, "max_excl": xe})
    return cfgs


def numpy_scalar_items(ctx, db, cfgs):
    """Python containers whose *items* are numpy numbers (what `list(an_ndarray)` or a column read with numpy gives): int64, int32,
    float32 items in lists, tuples, rows and FixedArrays, in the default unit and in another one - judged like the same
    amounts as Python floats; the same for a numpy number handed to CheckValueForCategory."""
    import numpy as np
    from barril.units import Array, FixedArray, Scalar

    n = 0
    for cfg in cfgs[:: max(1, len(cfgs) // 40)]:
        c = cfg["category"]
        for u in cfg["units"][:3]:
            for vals in ([1, 8], [0, 64, 2], [-8, 4], [512, 1]):
                ref = [Scalar(c, float(t), u).IsValid() for t in vals]
                for tname, cast in (("np.int64", np.int64), ("np.int32", np.int32), ("np.float32", np.float32), ("np.float64", np.float64), ("np.uint8", lambda t: np.uint8(abs(t)))):
                    if tname == "np.uint8" and any(t < 0 or t > 255 for t in vals):
                        continue
                    items = [cast(t) for t in vals]
                    for kn, mk in (("list", lambda z: Array(c, list(z), u)), ("tuple", lambda z: Array(c, tuple(z), u)), ("rows", lambda z: Array(c, [tuple(z), tuple(z)], u)), ("FixedArray", lambda z: FixedArray(len(z), c, list(z), u))):
                        ctx.ev()
                        n += 1
                        case = {"config": {k: cfg[k] for k in ("qt", "du", "min", "max", "min_excl", "max_excl")}, "unit": u, "values": vals, "item type": tname, "container": kn}
                        ctx.nt(("numpy items", c, u, tname, kn))
                        try:
                            got = mk(items).IsValid()
                        except Exception as e:
                            ctx.violation("IsValid-raised:%s:%s of %s items" % (type(e).__name__, kn, tname), dict(case, error=str(e)[:160]), replay=case)
                            continue
                        if got != all(ref):
                            ctx.violation("array-verdict-differs-from-elementwise-scalars:%s of %s items" % (kn, tname), dict(case, array=got, scalars=ref), replay=case)
                    ctx.ev()
                    try:
                        ok = True
                        try:
                            db.CheckValueForCategory(c, items[0], u)
                        except ValueError:
                            ok = False
                        if ok != ref[0]:
                            ctx.violation("CheckValueForCategory-disagrees-with-Scalar:%s" % tname, dict(case, accepted=ok, scalar=ref[0]), replay=case)
                    except Exception as e:
                        ctx.violation("CheckValueForCategory-raised:%s:%s" % (type(e).__name__, tname), dict(case, error=str(e)[:160]), replay=case)
    ctx.count("containers of numpy-number items validated", n)


def float32_arrays(ctx, db, cfg):
    """an Array over a float32 (or float16) ndarray holds the amounts its elements are: the verdict is the one of the same
    amounts in a list and of the Scalars holding them - at a limit that float32 cannot write exactly, too"""
    import numpy as np
    from barril.units import Array, FixedArray, Scalar

    c, du = cfg["category"], cfg["du"]
    for lim in (cfg["min"], cfg["max"]):
        if lim is None or not math.isfinite(lim):
            continue
        for dt in (np.float32, np.float16):
            near = dt(lim)
            for v in (near, np.nextafter(near, dt(np.inf)), np.nextafter(near, dt(-np.inf)), dt(lim + 0.1), dt(lim - 0.1)):
                amounts = [float(v), float(dt(2.0))]
                case = {"config": {k: cfg[k] for k in ("qt", "du", "min", "max", "min_excl", "max_excl")}, "dtype": dt.__name__, "amounts": [repr(x) for x in amounts]}
                ctx.ev()
                ctx.nt(("float32 array", c, dt.__name__, repr(v)))
                try:
                    want = all(Scalar(c, x, du).IsValid() for x in amounts)
                    got = {"ndarray": Array(c, np.array([v, dt(2.0)], dtype=dt), du).IsValid(), "list of the same amounts": Array(c, list(amounts), du).IsValid(),
                           "FixedArray": FixedArray(2, c, np.array([v, dt(2.0)], dtype=dt), du).IsValid(), "ndarray reversed": Array(c, np.array([dt(2.0), v], dtype=dt), du).IsValid()}  # fmt: skip
                except Exception as e:
                    ctx.violation("float32-array-raised:%s" % type(e).__name__, dict(case, error=str(e)[:160]), replay=case)
                    continue
                if any(g != want for g in got.values()):
                    ctx.violation("array-verdict-differs-from-elementwise-scalars:%s" % dt.__name__, dict(case, scalars=want, arrays=got), replay=case)


def broken_limit(v, cfg):
    """(operator, limit) the value violates, or None. NaN violates the first limit there is."""
    mn, mx = cfg["min"], cfg["max"]
    if mn is not None:
        if cfg["min_excl"]:
            if not v > mn:
                return (">", mn)
        elif not v >= mn:
            return (">=", mn)
    if mx is not None:
        if cfg["max_excl"]:
            if not v < mx:
                return ("<", mx)
        elif not v <= mx:
            return ("<=", mx)
    return None


def classify(db, aff, cfg, x, u):
    """-> ('valid' | 'invalid' | 'ambiguous', converted value)"""
    du = cfg["du"]
    if cfg["min"] is None and cfg["max"] is None:
        return "valid", x
    if x != x:
        return "invalid", x
    c = db.Convert(cfg["qt"], u, du, x) if u != du else x
    verdict = "valid" if broken_limit(c, cfg) is None else "invalid"
    if u != du and math.isfinite(c):
        au, ad = aff[u], aff[du]
        tol = conv.tol_in(ad, conv.base_err(au, x, ad), c, 16.0)
        for lim in (cfg["min"], cfg["max"]):
            if lim is not None and c != lim and abs(c - lim) <= tol:
                return "ambiguous", c
    return verdict, c


def candidates(db, cfg, u, r):
    qt, du = cfg["qt"], cfg["du"]
    cand = [0.0, 1.0, -1.0, 5.0, 100.0, -100.0, INF, -INF, r.uniform(-20, 20), r.uniform(-300, 300)]
    for lim in (cfg["min"], cfg["max"]):
        if lim is not None:
            b = db.Convert(qt, du, u, lim) if u != du else lim
            cand += [b, math.nextafter(b, INF), math.nextafter(b, -INF), b + 1.0, b - 1.0, b * (1 + 1e-9) if b else 1e-9, b * (1 - 1e-9) if b else -1e-9]
    return cand


def check_report(ctx, cfg, e, elems_conv, case, tag):
    """a rejection names a limit that is violated and a converted element that violates it."""
    from barril.units.exceptions import QuantityValidationError

    if not isinstance(e, QuantityValidationError):
        if not isinstance(e, ValueError):
            ctx.violation("%s:rejection-not-ValueError:%s" % (tag, type(e).__name__), dict(case, error=str(e)[:200]), replay=case)
        return
    legal = []
    if cfg["min"] is not None:
        legal.append((">" if cfg["min_excl"] else ">=", cfg["min"]))
    if cfg["max"] is not None:
        legal.append(("<" if cfg["max_excl"] else "<=", cfg["max"]))
    if (e.operator, e.limit_value) not in legal:
        ctx.violation("%s:report-names-no-limit-of-the-category" % tag, dict(case, operator=e.operator, limit=e.limit_value, legal=legal), replay=case)
        return
    ok = {">": e.value > e.limit_value, ">=": e.value >= e.limit_value, "<": e.value < e.limit_value, "<=": e.value <= e.limit_value}[e.operator]
    if ok:
        ctx.violation("%s:reported-value-does-not-violate-the-reported-limit" % tag, dict(case, operator=e.operator, limit=e.limit_value, value=e.value), replay=case)
    if not any((c == e.value) or (c != c and e.value != e.value) or (math.isfinite(c) and abs(c - e.value) <= 1e-9 * max(1.0, abs(c))) for c in elems_conv):
        ctx.violation("%s:reported-value-is-no-element" % tag, dict(case, value=e.value, converted_elements=elems_conv[:6]), replay=case)
    if str(e.limit_value) not in str(e) and repr(e.limit_value) not in str(e) and "%g" % e.limit_value not in str(e):
        ctx.violation("%s:message-lacks-limit" % tag, dict(case, message=str(e)[:200]), replay=case)


def scalar_verdicts(ctx, db, aff, cfg, u, x):
    """Scalar, FractionScalar, CheckValueForCategory, validator message for one amount; returns the
    Scalar verdict (bool) or None when the scalar could not be built."""
    from barril.units import FractionScalar, Scalar
    from barril.units.scalar_validation.scalar_min_max_validator import ScalarMinMaxValidator

    c = cfg["category"]
    case = {"config": {k: cfg[k] for k in ("qt", "du", "min", "max", "min_excl", "max_excl")}, "unit": u, "value": repr(x)}
    want, cv = classify(db, aff, cfg, x, u)
    ctx.ev()
    try:
        s = Scalar(c, x, u)
    except Exception as e:
        ctx.violation("Scalar-construction-raised:%s" % type(e).__name__, dict(case, error=str(e)[:200]), replay=case)
        return None
    try:
        got = s.IsValid()
    except Exception as e:
        ctx.violation("IsValid-raised:%s:Scalar" % type(e).__name__, dict(case, error=str(e)[:160]), replay=case)
        return None
    ctx.nt(("scalar", c, u, want, "nan" if x != x else ("inf" if math.isinf(x) else "finite")))
    if want != "ambiguous" and got != (want == "valid"):
        ctx.violation("scalar-verdict:%s-but-IsValid=%s" % (want, got), dict(case, converted=repr(cv)), replay=case)
    if s.IsValid() != got:
        ctx.violation("scalar-verdict-not-repeatable", case, replay=case)
    exc = None
    try:
        s.CheckValidity()
    except Exception as e:
        exc = e
    if (exc is None) != got:
        ctx.violation("CheckValidity-disagrees-with-IsValid:Scalar", dict(case, is_valid=got, error=repr(exc)[:200]), replay=case)
    elif exc is not None and x == x:
        check_report(ctx, cfg, exc, [cv], case, "Scalar")
    # the same amount through the other single-amount entry points
    exc2 = None
    try:
        db.CheckValueForCategory(c, x, u)
    except Exception as e:
        exc2 = e
    if (exc2 is None) != got:
        ctx.violation("CheckValueForCategory-disagrees-with-Scalar", dict(case, scalar_valid=got, error=repr(exc2)[:200]), replay=case)
    if u == cfg["du"]:
        exc3 = None
        try:
            db.CheckValueForCategory(c, x)
        except Exception as e:
            exc3 = e
        if (exc3 is None) != got:
            ctx.violation("CheckValueForCategory(no unit)-disagrees-with-Scalar", dict(case, scalar_valid=got, error=repr(exc3)[:200]), replay=case)
    msg = ScalarMinMaxValidator.CreateScalarCheckErrorMsg(s, "P")
    wmsg = ScalarMinMaxValidator.CreateScalarCheckWarningMsg(s, "P")
    if (msg is None) != got or (wmsg is None) != got:
        ctx.violation("validator-message-disagrees-with-IsValid", dict(case, is_valid=got, message=msg), replay=case)
    elif msg is not None and x == x:
        b = broken_limit(cv, cfg)
        if b is not None and want != "ambiguous":
            # the message names a limit of the category (how the operator is worded is not demanded)
            if not any(l is not None and (repr(l) in msg or "%g" % l in msg) for l in (cfg["min"], cfg["max"])):
                ctx.violation("validator-message-names-no-limit", dict(case, message=msg), replay=case)
    if math.isfinite(x):
        try:
            f = FractionScalar(c, x, u)
            fg = f.IsValid()
            fe = None
            try:
                f.CheckValidity()
            except Exception as e:
                fe = e
            if fg != got or (fe is None) != got:
                ctx.violation("FractionScalar-verdict-differs-from-Scalar", dict(case, scalar=got, fraction=fg, error=repr(fe)[:120]), replay=case)
            # the same amount split between number and fraction
            from barril.basic.fraction import FractionValue

            if float(x).is_integer() and abs(x) < 1e6:
                f2 = FractionScalar(c, FractionValue(x - 1.0, (2, 2)), u)
                if f2.IsValid() != got:
                    ctx.violation("FractionScalar-split-verdict-differs", dict(case, scalar=got, fraction=f2.IsValid()), replay=case)
            # the FractionValue a FractionScalar was given stays the caller's (GetValue() hands out that very object) and can be
            # edited: the verdict is about the amount the object holds when it is asked - first another amount, then this one
            if abs(x) < 1e6:
                fv = FractionValue(x + 1000.0, (1, 2))
                f3 = FractionScalar(c, fv, u)
                fv.number = x
                fv.fraction = FractionValue(0.0).fraction.__class__(0, 1)
                ctx.ev()
                if float(f3.GetValue()) == x:
                    ctx.count("FractionScalars asked after the caller edited the value they hold")
                    fe3 = None
                    try:
                        f3.CheckValidity()
                    except Exception as e:
                        fe3 = e
                    if f3.IsValid() != got or (fe3 is None) != got:
                        ctx.violation("FractionScalar-verdict-is-about-an-amount-it-no-longer-holds", dict(case, scalar=got, fraction=f3.IsValid(), held_at_construction=x + 1000.5), replay=case)
        except Exception as e:
            ctx.violation("FractionScalar-raised:%s" % type(e).__name__, dict(case, error=str(e)[:200]), replay=case)
    return got


def array_verdicts(ctx, db, aff, cfg, u, vals, svs):
    """vals: list of floats; svs: {repr(x): Scalar verdict}."""
    import numpy as np
    from barril.units import Array, FixedArray

    c = cfg["category"]
    case = {"config": {k: cfg[k] for k in ("qt", "du", "min", "max", "min_excl", "max_excl")}, "unit": u, "values": [repr(v) for v in vals]}
    has_limit = cfg["min"] is not None or cfg["max"] is not None
    cls_ = [classify(db, aff, cfg, x, u) for x in vals if x == x]
    convs = [cv for _w, cv in cls_]
    if any(w == "invalid" for w, _ in cls_):
        want = "invalid"
    elif all(w == "valid" for w, _ in cls_):
        want = "valid"
    else:
        want = "ambiguous"
    conj = all(svs[repr(x)] for x in vals if x == x) if has_limit else True
    perms = list(set(itertools.permutations(range(len(vals))))) if len(vals) <= 4 else [tuple(range(len(vals))), tuple(reversed(range(len(vals))))]
    makers = [("list", list), ("tuple", tuple), ("nd", lambda v: np.array(v, dtype=float))]
    if len(vals) >= 2:
        makers.append(("FixedArray", None))
    seen = {}
    for p in perms:
        pv = [vals[i] for i in p]
        for kn, mk in makers:
            ctx.ev()
            try:
                a = FixedArray(len(pv), c, pv, u) if mk is None else Array(c, mk(pv), u)
            except Exception as e:
                ctx.violation("Array-construction-raised:%s" % type(e).__name__, dict(case, container=kn, error=str(e)[:200]), replay=case)
                continue
            cc = dict(case, container=kn, order=list(p))
            try:
                g = a.IsValid()
            except Exception as e:
                # IsValid answers True / False; anything it lets escape is not a verdict
                ctx.violation("IsValid-raised:%s:%s" % (type(e).__name__, kn), dict(cc, error=str(e)[:160]), replay=cc)
                continue
            exc = None
            try:
                a.CheckValidity()
            except Exception as e:
                exc = e
            g2 = a.IsValid()
            exc2 = None
            try:
                a.CheckValidity()
            except Exception as e:
                exc2 = e
            if g != g2 or (exc is None) != g or (exc2 is None) != g:
                ctx.violation("array-verdict-not-repeatable-or-CheckValidity-disagrees", dict(cc, first=g, second=g2, error=repr(exc)[:160], error2=repr(exc2)[:160]), replay=cc)
            if want != "ambiguous" and g != (want == "valid"):
                ctx.violation("array-verdict:%s-but-IsValid=%s:%s" % (want, g, kn), dict(cc, converted=[repr(x) for x in convs]), replay=cc)
            if g != conj:
                ctx.violation("array-verdict-differs-from-elementwise-scalars:%s" % kn, dict(cc, array=g, scalars=conj), replay=cc)
            if exc is not None:
                check_report(ctx, cfg, exc, convs, cc, "Array")
                # asked again, the rejection says the same thing in the same way (class, limit, operator, value) - as an array of the
                # same values that is asked CheckValidity() *first* says it
                try:
                    (FixedArray(len(pv), c, pv, u) if mk is None else Array(c, mk(pv), u)).CheckValidity()
                    first_hand = None
                except Exception as e_:
                    first_hand = e_
                if first_hand is not None and (type(first_hand) is not type(exc) or [getattr(first_hand, f, None) for f in ("operator", "limit_value")] != [getattr(exc, f, None) for f in ("operator", "limit_value")]):
                    ctx.violation("Array:rejection-after-IsValid-reports-differently-from-a-first-hand-one", dict(cc, first_hand=repr(first_hand)[:120], after_IsValid=repr(exc)[:120]), replay=cc)
                if exc2 is not None and (type(exc2) is not type(exc) or [getattr(exc2, f, None) for f in ("operator", "limit_value", "value")] != [getattr(exc, f, None) for f in ("operator", "limit_value", "value")]
                                         and not (getattr(exc, "value", 0) != getattr(exc, "value", 0))):
                    ctx.violation("Array:second-rejection-reports-differently", dict(cc, first=repr(exc)[:120], second=repr(exc2)[:120]), replay=cc)
            seen[(kn, p)] = g
    if len(set(seen.values())) > 1:
        ctx.violation("array-verdict-depends-on-container-or-order", dict(case, verdicts={"%s%s" % k: v for k, v in list(seen.items())[:12]}), replay=case)
    ctx.nt(("array", c, u, want, len(vals), sum(1 for x in vals if x != x)))
    # nested containers with a NaN in a row (not first): every element of every tuple is checked and NaN satisfies no limit
    if has_limit and len([x for x in vals if x == x]) >= 2 and all(w == "valid" for w, _ in cls_):
        good = [x for x in vals if x == x]
        for kn, nested in (("list-of-tuples+nan", [(good[0], float("nan"), good[1]), tuple(good)]), ("tuple-of-tuples+nan", (tuple(good), (good[0], good[1], float("nan"))))):
            ctx.ev()
            try:
                g = Array(c, nested, u).IsValid()
            except Exception as e:
                ctx.violation("nested-array-raised:%s" % type(e).__name__, dict(case, container=kn, error=str(e)[:200]), replay=case)
                continue
            if g:
                ctx.violation("nested-array-with-NaN-accepted:%s" % kn.split("+")[0], dict(case, container=kn, nested=repr(nested)[:160]), replay=case)
    # nested containers (no NaN): every element of every tuple is checked
    flat = [x for x in vals if x == x]
    if len(flat) >= 2 and has_limit:
        import collections

        Pt1, PtN = collections.namedtuple("Pt1", "a"), collections.namedtuple("PtN", ["v%d" % i for i in range(len(flat) - 1)])
        for kn, nested in (("list-of-tuples", [tuple(flat[:1]), tuple(flat[1:])]), ("tuple-of-tuples", (tuple(flat[:-1]), tuple(flat[-1:]))),
                           # rows that are named tuples (points with named coordinates) are rows
                           ("list-of-named-tuples", [Pt1(flat[0]), PtN(*flat[1:])]), ("tuple-of-named-tuples", (PtN(*flat[:-1]), Pt1(flat[-1])))):  # fmt: skip
            ctx.ev()
            try:
                g = Array(c, nested, u).IsValid()
            except Exception as e:
                ctx.violation("nested-array-raised:%s" % type(e).__name__, dict(case, container=kn, error=str(e)[:200]), replay=case)
                continue
            w2 = "invalid" if any(w == "invalid" for w, _ in cls_) else ("valid" if all(w == "valid" for w, _ in cls_) else "ambiguous")
            if w2 != "ambiguous" and g != (w2 == "valid"):
                ctx.violation("array-verdict:%s-but-IsValid=%s:%s" % (w2, g, kn), dict(case, container=kn), replay=case)


def sweep_configs(ctx, db, aff, cfgs, r):
    for ci, cfg in enumerate(cfgs):
        if ci % ctx.nshards == ctx.shard:
            float32_arrays(ctx, db, cfg)
        if ci % ctx.nshards != ctx.shard:
            continue
        for u in cfg["units"]:
            cand = candidates(db, cfg, u, r) + [NAN]
            svs = {}
            for x in cand:
                g = scalar_verdicts(ctx, db, aff, cfg, u, x)
                svs[repr(x)] = bool(g)
            svs[repr(NAN)] = True  # NaN elements of a flat array are skipped
            n_arr = 6 if ctx.tier == "quick" else 40
            for _ in range(n_arr):
                L = r.choice([0, 1, 2, 2, 3, 3, 4, 5])
                vals = [r.choice(cand) for _ in range(L)]
                if r.random() < 0.3 and L:
                    vals[r.randrange(L)] = NAN
                if r.random() < 0.1 and L:
                    vals[0] = NAN
                    vals[-1] = NAN
                array_verdicts(ctx, db, aff, cfg, u, vals, svs)
            # all-valid and one-bad arrays of the interesting shapes (first / last / middle position)
            good = [x for x in cand if x == x and classify(db, aff, cfg, x, u)[0] == "valid"]
            badv = [x for x in cand if x == x and classify(db, aff, cfg, x, u)[0] == "invalid"]
            if len(good) >= 3:
                g3 = good[:3]
                array_verdicts(ctx, db, aff, cfg, u, g3, svs)
                array_verdicts(ctx, db, aff, cfg, u, [NAN] + g3[:2] + [NAN], svs)
                for b in badv[:4]:
                    array_verdicts(ctx, db, aff, cfg, u, [b] + g3[:2], svs)
                    array_verdicts(ctx, db, aff, cfg, u, [NAN, g3[0], b], svs)
        # derived quantities are not validated
        from barril.units import Scalar

        s = Scalar(cfg["category"], 1e9, cfg["du"])
        d = s * s
        ctx.ev()
        if d.IsValid() is not True:
            ctx.violation("derived-quantity-invalid", {"config": cfg["category"]})


# ------------------------------------------------------------------- verdicts of derived objects
def _verdict(o):
    """(IsValid, operator, limit) - what the object says about itself."""
    g = o.IsValid()
    op = lim = None
    try:
        o.CheckValidity()
        raised = False
    except Exception as e:
        raised = True
        op, lim = getattr(e, "operator", type(e).__name__), getattr(e, "limit_value", None)
    return (g, raised, op, lim)


def derived_objects(ctx, db, aff, cfgs, r, n):
    """An object reached through a copy / conversion / arithmetic / pickle route - whether or not its
    source was validated before - must give the verdict of a freshly built object holding the very
    same category, unit and floats: a verdict carried along from the source would depend on history,
    not on the amount."""
    import copy
    import pickle

    import numpy as np
    from barril.basic.fraction import FractionValue
    from barril.units import Array, ChangeScalars, FixedArray, FractionScalar, Scalar

    by_qt = {}
    for c in cfgs:
        by_qt.setdefault(c["qt"], []).append(c)
    ROUTES = ["CreateCopy()", "CreateCopy(unit)", "CreateCopy(unit,category)", "CreateCopy(values)", "CreateCopy(values,unit,category)", "copy", "deepcopy", "pickle", "+self*0", "*1.0", "1.0*", "-zeros",
              "ChangingIndex(Scalar of other category)", "ChangingIndex(number)", "FromScalars(unit,category)", "ChangeScalars", "IndexAsScalar", "GetValues->new Array"]  # fmt: skip
    for _ in range(n):
        qt = r.choice(list(by_qt))
        c1, c2 = r.choice(by_qt[qt]), r.choice(by_qt[qt])
        units = [u for u in c1["units"] if u in c2["units"]]
        u1, u2 = r.choice(units), r.choice(units)
        cand = candidates(db, c1, u1, r)[:-2] + candidates(db, c2, u1, r)[10:]
        cand = [x for x in cand if math.isfinite(x)]
        kind = r.choice(["Scalar", "Array[list]", "Array[tuple]", "Array[nd]", "FixedArray", "FractionScalar"])
        L = r.randint(2, 4)
        vals = [r.choice(cand) for _ in range(L)]
        route = r.choice(ROUTES)
        warm = r.random() < 0.7
        case = {"class": kind, "category": c1["category"], "config": {k: c1[k] for k in ("qt", "du", "min", "max", "min_excl", "max_excl")}, "unit": u1, "values": [repr(v) for v in vals],
                "route": route, "other_category": {k: c2[k] for k in ("category", "du", "min", "max", "min_excl", "max_excl")}, "other_unit": u2, "source_validated_first": warm}  # fmt: skip
        try:
            if kind == "Scalar":
                src = Scalar(c1["category"], vals[0], u1)
            elif kind == "FractionScalar":
                src = FractionScalar(c1["category"], FractionValue(vals[0]), u1)
            elif kind == "FixedArray":
                src = FixedArray(L, c1["category"], list(vals), u1)
            else:
                mk = {"Array[list]": list, "Array[tuple]": tuple, "Array[nd]": lambda v: np.array(v, dtype=float)}[kind]
                src = Array(c1["category"], mk(vals), u1)
            if warm:
                src.IsValid()
            is_arr = isinstance(src, Array)
            newvals = [r.choice(cand) for _ in range(L)]
            res = None
            if route == "CreateCopy()":
                res = src.CreateCopy()
            elif route == "CreateCopy(unit)":
                res = src.CreateCopy(unit=u2)
            elif route == "CreateCopy(unit,category)":
                res = src.CreateCopy(unit=u2, category=c2["category"])
            elif route == "CreateCopy(values)":
                res = src.CreateCopy(list(newvals)) if is_arr else src.CreateCopy(newvals[0])
            elif route == "CreateCopy(values,unit,category)":
                res = src.CreateCopy(list(newvals) if is_arr else newvals[0], u2, c2["category"])
            elif route == "copy":
                res = copy.copy(src)
            elif route == "deepcopy":
                res = copy.deepcopy(src)
            elif route == "pickle":
                if kind not in ("Scalar", "FixedArray"):
                    continue
                res = pickle.loads(pickle.dumps(src))
            elif route == "+self*0":
                if kind == "FractionScalar":
                    continue
                res = src + src * 0
            elif route == "*1.0":
                if kind == "FractionScalar":
                    continue
                res = src * 1.0
            elif route == "1.0*":
                if kind == "FractionScalar":
                    continue
                res = 1.0 * src
            elif route == "-zeros":
                if not is_arr:
                    continue
                res = src - Array(c2["category"], [0.0] * L, u2)
            elif route.startswith("ChangingIndex"):
                if kind != "FixedArray":
                    continue
                amount = Scalar(c2["category"], newvals[0], u2) if "Scalar" in route else newvals[0]
                res = src.ChangingIndex(r.randrange(L), amount, r.choice([True, False]))
            elif route == "FromScalars(unit,category)":
                res = Array.FromScalars([Scalar(c1["category"], v, u1) for v in vals], unit=u2, category=c2["category"])
            elif route == "ChangeScalars":
                if kind != "Scalar":
                    continue

                class Owner:
                    pass

                ow = Owner()
                ow.a = src
                ChangeScalars(ow, a=(newvals[0], u2))
                res = ow.a
            elif route == "IndexAsScalar":
                if kind != "FixedArray":
                    continue
                from barril.units import ObtainQuantity

                res = src.IndexAsScalar(r.randrange(L), ObtainQuantity(u2, c2["category"]))
            elif route == "GetValues->new Array":
                if not is_arr:
                    continue
                res = Array(c2["category"], src.GetValues(u2), u2)
            if res is None:
                continue
            ctx.ev()
            got = _verdict(res)
            # reference: a fresh object of the same class family holding the same floats
            rc, ru = res.GetCategory(), res.GetUnit()
            if isinstance(res, Array):
                v = res.GetValues()
                fresh = Array(rc, [float(x) for x in v], ru)
            elif isinstance(res, FractionScalar):
                fresh = Scalar(rc, float(res.GetValue()), ru)
            else:
                fresh = Scalar(rc, float(res.GetValue()), ru)
            want = _verdict(fresh)
            ctx.nt(("derived", kind, route, warm, got[0]))
            if got[0] != want[0] or got[1] != want[1]:
                ctx.violation("route-verdict-differs-from-fresh-object:%s:%s" % (route, kind.split("[")[0]), dict(case, result=repr(res)[:120], result_category=rc, route_verdict=list(got), fresh_verdict=list(want)), replay=case)
            elif got[1] and (got[2], got[3]) != (want[2], want[3]):
                ctx.violation("route-rejection-reports-another-limit:%s:%s" % (route, kind.split("[")[0]), dict(case, result_category=rc, route_verdict=list(got), fresh_verdict=list(want)), replay=case)
            # the source's own verdict is not disturbed by having been used
            if warm and _verdict(src)[0] != _verdict(type(src).CreateWithQuantity(src.GetQuantity(), src.GetAbstractValue()))[0]:
                ctx.violation("source-verdict-changed:%s" % route, case, replay=case)
        except Exception as e:
            ctx.count("derived: route raised %s" % type(e).__name__)


# ----------------------------------------------------------------------------- override histories
def override_histories(ctx, r, n):
    """Limits are (re)registered with override=True *after* objects of the category - named explicitly or only
    through a unit whose default category it is - have been built and validated: what is built afterwards, by
    any route, is judged by the limits registered now."""
    import numpy as np
    from barril.units import Array, FixedArray, FractionScalar, ObtainQuantity, Scalar

    for h in range(n):
        db = table.build("posc")
        with table.pushed(db):
            qt, units = r.choice([("length", ["m", "cm", "km", "ft"]), ("time", ["s", "min", "h"]), ("mass", ["kg", "g", "lbm"]), ("temperature", ["K", "degC", "degF"])])
            c = qt  # the default category of these units
            steps = []
            for round_ in range(r.randint(1, 3)):
                # objects of the category before the (next) override, validated or not
                for _ in range(r.randint(1, 4)):
                    u = r.choice(units)
                    how = r.choice(["Scalar(x,u)", "Scalar(c,x,u)", "Array([x],u)", "ObtainQuantity(u)", "FractionScalar(x,u)"])
                    o = {"Scalar(x,u)": lambda: Scalar(1.0, u), "Scalar(c,x,u)": lambda: Scalar(c, 1.0, u), "Array([x],u)": lambda: Array([1.0], u), "ObtainQuantity(u)": lambda: ObtainQuantity(u),
                         "FractionScalar(x,u)": lambda: FractionScalar(1.0, u)}[how]()  # fmt: skip
                    if hasattr(o, "IsValid") and r.random() < 0.7:
                        o.IsValid()
                    steps.append(["build", how, u])
                du = r.choice(units)
                mn, mx = r.choice([(0.0, None), (None, 10.0), (1.0, 100.0), (-5.0, 5.0), (None, None), (50.0, 60.0)])
                kw = {"override": True, "default_unit": du, "min_value": mn, "max_value": mx}
                if mn is not None and mx is not None:
                    kw["default_value"] = (mn + mx) / 2
                db.AddCategory(c, qt, **kw)
                steps.append(["AddCategory(override)", c, {k: v for k, v in kw.items() if k != "override"}])
                cfg = {"min": mn, "max": mx, "min_excl": False, "max_excl": False, "du": du, "qt": qt}
                for x in (-1.0, 0.5, 3.0, 55.0, 1000.0):
                    for u in units:
                        conv_x = db.Convert(qt, u, du, x) if u != du else x
                        want = broken_limit(conv_x, cfg) is None
                        near = any(l is not None and abs(conv_x - l) <= 1e-9 * max(1.0, abs(l)) for l in (mn, mx))
                        if near and u != du:
                            continue
                        for how, mk in (
                            ("Scalar(x,u)", lambda: Scalar(x, u)), ("Scalar(c,x,u)", lambda: Scalar(c, x, u)), ("Scalar(ObtainQuantity(u),x)", lambda: Scalar(ObtainQuantity(u), x)),
                            ("Array([x],u)", lambda: Array([x], u)), ("Array(c,nd,u)", lambda: Array(c, np.array([x, x]), u)), ("FixedArray(2,[x,x],u)", lambda: FixedArray(2, [x, x], u)),
                            ("FractionScalar(x,u)", lambda: FractionScalar(x, u)), ("Scalar(c,x,u).CreateCopy()", lambda: Scalar(c, x, u).CreateCopy()),
                        ):  # fmt: skip
                            ctx.ev()
                            case = {"history": steps[-8:], "route": how, "unit": u, "value": x, "limits": [mn, mx], "default_unit": du}
                            try:
                                o = mk()
                                got = o.IsValid()
                            except Exception as e:
                                ctx.violation("override:route-raised:%s:%s" % (how, type(e).__name__), dict(case, error=str(e)[:160]), replay=None)
                                continue
                            if o.GetCategory() != c:
                                continue
                            if got != want:
                                ctx.violation("override:verdict-follows-an-earlier-definition-of-the-category:%s" % how, dict(case, is_valid=got, expected=want, converted=conv_x), replay=None)
                ctx.nt(("override", qt, du, mn, mx, round_))
        ctx.count("override histories")


# ------------------------------------------------------------------------------- AddCategory
def add_category_tuples(ctx, db, aff, r, n):
    from barril.units import Array, FixedArray, FractionScalar, Scalar

    # (unit lists may name a unit in a legacy spelling - '1000ft3/d' is 'Mcf/d' - and need not contain the type's base unit)
    pool = {"length": ["m", "cm", "km", "ft"], "temperature": ["K", "degC", "degF"], "time": ["s", "min", "h"], "volume flow rate": ["1000ft3/d", "Mm3/d", "m3/s", "1000m3/d", "Mcf/d", "bbl/d"],
            "mass per mol": ["lb/lbmole", "g/mol", "kg/mol"]}  # fmt: skip
    made = []
    for k in range(n):
        qt = r.choice(list(pool))
        units = pool[qt]
        kw = {}
        name = "gen%d_%d" % (ctx.shard, k)
        if made and r.random() < 0.25:
            kw["from_category"] = r.choice(made)
        else:
            kw["quantity_type"] = qt
        if r.random() < 0.5:
            kw["valid_units"] = r.sample(units, r.randint(1, len(units)))
        if r.random() < 0.6:
            kw["default_unit"] = r.choice(units + ["s", "m"])
        lim = [None, 0.0, 1.0, -5.0, 10.0, 2.5, 100.0, -273.15]
        if r.random() < 0.7:
            kw["min_value"] = r.choice(lim)
        if r.random() < 0.7:
            kw["max_value"] = r.choice(lim)
        if r.random() < 0.5:
            kw["default_value"] = r.choice([0.0, 1.0, 5.0, -5.0, 10.0, 2.5, 50.0, -300.0, 1.0000000000000002, 9.999999999999998])
        if r.random() < 0.4:
            kw["is_min_exclusive"] = r.choice([True, False])
        if r.random() < 0.4:
            kw["is_max_exclusive"] = r.choice([True, False])
        case = {"category": name, "kwargs": {a: (list(b) if isinstance(b, list) else b) for a, b in kw.items()}}
        ctx.ev()
        try:
            ci = db.AddCategory(name, **{a: (list(b) if isinstance(b, list) else b) for a, b in kw.items()})
        except Exception:
            ctx.count("AddCategory refused")
            continue
        ctx.count("AddCategory accepted")
        made.append(name)
        made[:] = made[-6:]
        ctx.nt(("AddCategory", tuple(sorted(kw)), kw.get("is_min_exclusive"), kw.get("is_max_exclusive"), kw.get("min_value") is None, kw.get("max_value") is None))
        info = db.GetCategoryInfo(name)
        du, dv = db.GetDefaultUnit(name), db.GetDefaultValue(name)
        # what the registration said is what the category reports: a limit, default value or default unit given explicitly
        # (zero is a limit like any other), else - for a copy - what the copied category has
        src = db.GetCategoryInfo(kw["from_category"]) if "from_category" in kw else None
        for field, got in (("min_value", info.min_value), ("max_value", info.max_value), ("default_value", dv), ("default_unit", du)):
            given = kw.get(field)
            if field == "default_unit" and given is not None:
                from barril.units.unit_database import FixUnitIfIsLegacy

                given = FixUnitIfIsLegacy(given)[1] if given not in db.unit_to_unit_info else given
            want = given if given is not None else (getattr(src, field) if src is not None else None)
            ctx.ev()
            if (given is not None or src is not None) and field != "default_value" and want is not None and got != want:
                ctx.violation("AddCategory:reports-another-%s-than-it-was-registered-with" % field, dict(case, registered=want, reports=got, copied_from=kw.get("from_category")), replay=case)
            if field == "default_value" and given is not None and got != given:
                ctx.violation("AddCategory:reports-another-default_value-than-it-was-registered-with", dict(case, registered=given, reports=got), replay=case)
            if field in ("min_value", "max_value") and given is None and src is None and got is not None:
                ctx.violation("AddCategory:reports-a-%s-nobody-registered" % field, dict(case, reports=got), replay=case)
        tq = db.GetCategoryQuantityType(name)
        type_units = db.GetUnits(tq)
        vu = db.GetValidUnits(name)
        if du not in type_units:
            ctx.violation("AddCategory:default-unit-of-another-type", dict(case, default_unit=du, quantity_type=tq), replay=case)
            continue
        if info.valid_units and du not in info.valid_units:
            ctx.violation("AddCategory:default-unit-not-among-the-category's-valid-units", dict(case, default_unit=du, valid_units=list(vu)), replay=case)
        cfg = {"min": info.min_value, "max": info.max_value, "min_excl": bool(info.is_min_exclusive), "max_excl": bool(info.is_max_exclusive), "du": du, "qt": tq}
        b = broken_limit(dv, cfg)
        if b is not None:
            ctx.violation("AddCategory:default-value-outside-own-limits", dict(case, default_value=dv, broken=list(b)), replay=case)
            continue
        # objects built from the bare category carry that default and are valid
        for label, mk, val in (
            ("Scalar", lambda: Scalar(name), lambda o: o.GetValue()), ("FractionScalar", lambda: FractionScalar(name), lambda o: float(o.GetValue())),
            ("Array", lambda: Array(name), lambda o: None), ("FixedArray", lambda: FixedArray(2, name), lambda o: None),
        ):  # fmt: skip
            ctx.ev()
            try:
                o = mk()
                problems = []
                if o.GetUnit() != du:
                    problems.append("unit %r != default unit %r" % (o.GetUnit(), du))
                v = val(o)
                if v is not None and v != dv:
                    problems.append("value %r != default value %r" % (v, dv))
                if label in ("Scalar", "FractionScalar") and not o.IsValid():
                    problems.append("not valid")
                if problems:
                    ctx.violation("AddCategory:default-%s-inconsistent" % label, dict(case, problems=problems, default_unit=du, default_value=dv), replay=case)
            except Exception as e:
                ctx.violation("AddCategory:default-%s-raised:%s" % (label, type(e).__name__), dict(case, error=str(e)[:200]), replay=case)
        # the default re-expressed in another unit of the type is physically the default
        for v in r.sample(type_units, min(3, len(type_units))):
            if v not in aff or du not in aff:
                continue
            ctx.ev()
            try:
                s = Scalar(name, unit=v)
                exp = db.Convert(tq, du, v, dv)
                if not (s.GetValue() == exp or abs(s.GetValue() - exp) <= conv.tol_in(aff[v], conv.base_err(aff[du], dv, aff[v]), exp, 16.0)):
                    ctx.violation("AddCategory:default-in-other-unit-is-another-amount", dict(case, unit=v, value=s.GetValue(), expected=exp), replay=case)
            except Exception as e:
                ctx.violation("AddCategory:Scalar(category,unit=)-raised:%s" % type(e).__name__, dict(case, unit=v, error=str(e)[:200]), replay=case)


def clones_with_zero_limits(ctx, db):
    """A copy of a limited category (from_category) registered with limits / a default of its own that are exactly zero:
    zero is a limit like any other - the copy validates amounts against zero on that side, not against the source's."""
    from barril.units import Array, Scalar

    db.AddCategory("c12 source", "length", default_unit="m", min_value=5.0, max_value=50.0, default_value=7.0)
    db.AddCategory("c12 source below zero", "temperature", default_unit="degC", min_value=-50.0, max_value=-5.0, default_value=-7.0)
    k = 0
    for src, kws in (
        ("c12 source", [{"min_value": 0.0}, {"min_value": 0.0, "default_value": 0.0}, {"min_value": 0, "is_min_exclusive": True}, {"min_value": -0.0, "max_value": 8.0}, {"min_value": 0.0, "default_value": 0.5, "default_unit": "cm"},
                        # only the strictness of an inherited limit is given
                        {"is_min_exclusive": True}, {"is_max_exclusive": True}, {"is_min_exclusive": True, "is_max_exclusive": True}, {"is_min_exclusive": True, "max_value": 60.0}]),
        ("c12 source below zero", [{"max_value": 0.0}, {"max_value": 0.0, "default_value": 0.0}, {"max_value": 0, "is_max_exclusive": True}, {"max_value": 0.0, "min_value": -100.0}, {"is_max_exclusive": True}, {"is_min_exclusive": True, "max_value": 0.0}]),
    ):  # fmt: skip
        sinfo = db.GetCategoryInfo(src)
        for kw in kws:
            k += 1
            name = "c12 clone %d" % k
            case = {"category": name, "from_category": src, "kwargs": kw}
            ctx.ev()
            try:
                db.AddCategory(name, from_category=src, **kw)
            except Exception as e:
                ctx.violation("clone-with-a-zero-limit-refused:%s" % type(e).__name__, dict(case, error=str(e)[:160]))
                continue
            info = db.GetCategoryInfo(name)
            want_min = kw.get("min_value", sinfo.min_value)
            want_max = kw.get("max_value", sinfo.max_value)
            if info.min_value != want_min or info.max_value != want_max:
                ctx.violation("clone-reports-other-limits-than-it-was-registered-with", dict(case, registered=[want_min, want_max], reports=[info.min_value, info.max_value]))
            du = info.default_unit
            mn_ex, mx_ex = bool(info.is_min_exclusive), bool(info.is_max_exclusive)
            if "is_min_exclusive" in kw and bool(info.is_min_exclusive) != kw["is_min_exclusive"] or "is_max_exclusive" in kw and bool(info.is_max_exclusive) != kw["is_max_exclusive"]:
                ctx.violation("clone-reports-another-strictness-than-it-was-registered-with", dict(case, reports=[info.is_min_exclusive, info.is_max_exclusive]))
            mn_ex, mx_ex = bool(kw.get("is_min_exclusive", sinfo.is_min_exclusive)), bool(kw.get("is_max_exclusive", sinfo.is_max_exclusive))
            for x in (-60.0, -50.0, -7.0, -5.0, -1.0, -0.0, 0.0, 0.5, 1.0, 5.0, 6.0, 7.0, 9.0, 50.0, 60.0):
                ok = (x > want_min if mn_ex else x >= want_min) and (x < want_max if mx_ex else x <= want_max)
                ctx.ev()
                ctx.nt(("clone", name, x))
                try:
                    got = [Scalar(name, x, du).IsValid(), Array(name, [x, x], du).IsValid()]
                except Exception as e:
                    got = repr(e)[:120]
                if got != [ok, ok]:
                    ctx.violation("clone-validates-against-other-limits-than-its-own", dict(case, amount=x, unit=du, limits=[want_min, want_max], exclusive=[mn_ex, mx_ex], verdicts=got, expected=ok))
    ctx.count("clones registered with a zero limit of their own", k)


def run(ctx):
    from barril.units import Array, Quantity, Scalar, UnitDatabase

    probe.install()
    probe.reach([Quantity.CheckValue, Array._DoValidateValues, Array.ValidateValues, UnitDatabase.AddCategory, UnitDatabase.CheckValueForCategory, Scalar.CheckValidity])
    ctx.rule = (
        "private database with one category per (quantity type/default unit of %d) x (limit pair of %d) x exclusivity flags; per category x unit: hostile amounts "
        "(exact boundaries converted into the unit, +-1 ulp, +-1e-9 relative, +-1, interior, exterior, +-inf, NaN) through Scalar / FractionScalar / CheckValueForCategory / validator messages; "
        "arrays of length 0..5 drawn from those amounts (NaN first/last/everywhere) in every permutation (<= 4 elements) x {list, tuple, ndarray, FixedArray} + nested tuples, verdict "
        "repeated twice; objects reached through 18 copy/conversion/arithmetic/pickle routes (source validated first or not) against a freshly built object with the same floats; random AddCategory keyword tuples; override histories (objects built and validated, then the category re-registered with other limits / default unit, then every route judged by the limits registered now). distinct = (category, unit, verdict class, shape)" % (len(TYPES), len(LIMITS))
    )
    ctx.assumptions = [
        "reference conversion is UnitDatabase.Convert on floats (C01/C02 vouch for it); amounts within the float noise of a limit (but not equal to it) may get either verdict, consistently",
        "NaN limits and NaN default values are outside the quantified configurations",
        "Scalar(category, unit=v) is only required to denote the default amount, not to be valid (re-expressing the default in another unit rounds)",
    ]
    db = table.build("posc")
    with table.pushed(db):
        cfgs = make_configs(db)
        aff = conv.describe(db)
        ctx.notes["configurations"] = {"n": len(cfgs)}
        before = snapshot.registry(db, sample_conversions=False)
        sweep_configs(ctx, db, aff, cfgs, ctx.rng("sweep"))
        if snapshot.registry(db, sample_conversions=False) != before:
            ctx.violation("validation-changed-the-registry", {"diff": snapshot.diff(before, snapshot.registry(db, sample_conversions=False))}, prop="C15")
        derived_objects(ctx, db, aff, cfgs, ctx.rng("derived"), 6000 if ctx.tier == "quick" else 60000)
        add_category_tuples(ctx, db, aff, ctx.rng("addcat"), 1500 if ctx.tier == "quick" else 12000)
        if ctx.shard == 0:
            clones_with_zero_limits(ctx, db)
            numpy_scalar_items(ctx, db, cfgs)
            ctx.sample({"config": cfgs[9], "unit": "cm", "amounts": ["Convert(m->cm, 1.0)", "+1 ulp", "-1 ulp", "nan", "inf"], "array": "every permutation x list/tuple/ndarray/FixedArray"})
            ctx.sample({"AddCategory": {"quantity_type": "length", "valid_units": ["cm", "km"], "default_unit": "m"}, "expected": "refused, or a default unit among the valid units"})
    override_histories(ctx, ctx.rng("override"), 6 if ctx.tier == "quick" else 60)
    ctx.inconclusive_if(probe.COUNTS["Quantity.CheckValue"] == 0 or probe.BOUNDARY["UnitDatabase.AddCategory"] == 0, "deciding wrappers never reached")
    ctx.inconclusive_if(ctx.counters.get("AddCategory accepted", 0) < 20, "fewer than 20 accepted AddCategory calls")


def replay(ctx, d):
    probe.install()
    db = table.build("posc")
    with table.pushed(db):
        cfgs = make_configs(db)
        aff = conv.describe(db)
        if d and "kwargs" in d:
            from barril.units import Scalar

            ctx.ev()
            try:
                db.AddCategory(d["category"], **d["kwargs"])
            except Exception as e:
                print("refused:", repr(e)[:200])
                return
            info = db.GetCategoryInfo(d["category"])
            if info.valid_units and info.default_unit not in info.valid_units:
                ctx.violation("AddCategory:default-unit-not-among-the-category's-valid-units", dict(d, default_unit=info.default_unit))
            cfg = {"min": info.min_value, "max": info.max_value, "min_excl": bool(info.is_min_exclusive), "max_excl": bool(info.is_max_exclusive)}
            if broken_limit(info.default_value, cfg) is not None or not Scalar(d["category"]).IsValid():
                ctx.violation("AddCategory:default-value-outside-own-limits", dict(d, default_value=info.default_value))
        elif d and "config" in d:
            cfg = [c for c in cfgs if all(c[k] == d["config"][k] for k in d["config"])][0]
            if "values" in d:
                vals = [float(v) for v in d["values"]]
                svs = {repr(x): bool(scalar_verdicts(ctx, db, aff, cfg, d["unit"], x)) for x in vals if x == x}
                svs[repr(NAN)] = True
                array_verdicts(ctx, db, aff, cfg, d["unit"], vals, svs)
            else:
                scalar_verdicts(ctx, db, aff, cfg, d["unit"], float(d["value"]))
