"""C18 - fractional values keep their numeric meaning (DESIGN.md 4, C18).

Reference model: Python's ``fractions.Fraction`` (exact rationals), a float literal meaning the short
decimal it is written as (``Fraction(Decimal(repr(x)))``).
  A  FractionValue(n, (p, q)):  float(), the four order operators, str -> CreateFromString, copy
  B  Fraction arithmetic / comparison against exact rational arithmetic
  C  CreateFromFloat(x) denotes x to rounding
  D  FractionScalar(fv, u) converts, compares and validates like Scalar(float(fv), u) - all quantity
     types x unit pairs (affine ones included), limits through a private category
"""
import copy
import math
import operator
from decimal import Decimal
from fractions import Fraction as Fr

from .. import probe
from ..models import conv
from ..workloads import table

SHARDS = {"quick": 4, "thorough": 16}
WATCHDOG_S = {"quick": 900, "thorough": 7200}
FLOORS = (20000, 500)


def dec(x):
    """the rational a literal denotes: ints exactly, floats as the short decimal they print as."""
    if isinstance(x, int):
        return Fr(x)
    return Fr(Decimal(repr(x)))


def short(r, max_int=999, decimals=(0, 0, 1, 2, 3)):
    k = r.choice(decimals)
    m = r.randint(-max_int * 10**k, max_int * 10**k)
    if k == 0:
        return m if r.random() < 0.5 else float(m)
    return m / 10**k if r.random() < 0.9 else float(Decimal(m).scaleb(-k))


def g_exact(x):
    """%g prints x exactly and in plain notation."""
    s = "%g" % x
    return "e" not in s and "inf" not in s and "nan" not in s and dec(float(s)) == dec(x)


def ulps(a, b):
    return abs(a - b) / max(math.ulp(max(abs(a), abs(b), 5e-324)), 5e-324)


# ------------------------------------------------------------------------------------------ A
def fraction_values(ctx, r, n, dens):
    from barril.basic.fraction import Fraction, FractionValue

    made = []
    for _ in range(n):
        num, p, q = short(r), short(r), r.choice(dens)
        case = {"number": repr(num), "numerator": repr(p), "denominator": q}
        ctx.ev()
        try:
            qq = float(q) if r.random() < 0.15 else q
            fv = FractionValue(num, (p, qq)) if r.random() < 0.6 else FractionValue(num, Fraction(p, qq))
        except Exception as e:
            ctx.violation("FractionValue-construction-raised:%s" % type(e).__name__, dict(case, error=str(e)[:160]), replay=case)
            continue
        exact = dec(num) + dec(p) / q
        made.append((fv, exact, case))
        ctx.nt(("fv", q, isinstance(num, int), isinstance(p, int)))
        # parts
        f = fv.GetFraction()
        if Fr(f.numerator) / Fr(f.denominator) != dec(p) / q or dec(fv.GetNumber()) != dec(num):
            ctx.violation("FractionValue-parts-differ-from-what-was-given", dict(case, stored_number=repr(fv.GetNumber()), stored_fraction=[f.numerator, f.denominator]), replay=case)
        # float()
        got = float(fv)
        scale = max(abs(float(dec(num))), abs(float(dec(p) / q)), abs(float(exact)))
        if abs(Fr(got) - exact) > 4 * Fr(math.ulp(scale)) if scale else got != 0.0:
            ctx.violation("float(FractionValue)-differs-from-number+fraction", dict(case, got=got, exact=float(exact)), replay=case)
        # str -> parse (exactly), where %g prints the parts exactly
        if g_exact(fv.GetNumber()) and g_exact(f.numerator) and g_exact(f.denominator):
            ctx.ev()
            s = str(fv)
            try:
                back = FractionValue.CreateFromString(s)
                back2 = FractionValue.CreateFromString(s, consider_locale=False)
                if not (back == fv) or (back != fv) or not (back2 == fv):
                    ctx.violation("format-then-parse-is-another-value", dict(case, text=s, parsed=repr(back)), replay=case)
                elif dec(back.GetNumber()) + Fr(back.GetFraction().numerator) / Fr(back.GetFraction().denominator) != exact:
                    ctx.violation("format-then-parse-denotes-another-amount", dict(case, text=s, parsed=repr(back)), replay=case)
                ctx.count("format/parse round trips")
                # what the parser returned is the caller's: editing it must not change what the same text means next time
                back.SetNumber(987654)
                back.GetFraction().numerator = 11
                third = FractionValue.CreateFromString(s)
                if not (third == fv) or third is back:
                    ctx.violation("parse-depends-on-an-earlier-parse-of-the-same-text", dict(case, text=s, parsed_again=repr(third)), replay=case)
            except Exception as e:
                ctx.violation("parse-of-formatted-value-raised:%s" % type(e).__name__, dict(case, text=s, error=str(e)[:120]), replay=case)
            # the localized string in the C locale is the same text
            if fv.GetLocalizedString() != s:
                ctx.violation("localized-string-differs-in-C-locale", dict(case, text=s, localized=fv.GetLocalizedString()), replay=case)
        # the fraction part on its own: the text after the number, or nothing for a zero fraction
        ctx.ev()
        try:
            lf = fv.GetLocalizedFraction()
            want_lf = "" if float(f) == 0.0 else str(f)
            if lf != want_lf:
                ctx.violation("GetLocalizedFraction-differs", dict(case, got=lf, expected=want_lf), replay=case)
        except Exception as e:
            ctx.violation("GetLocalizedFraction-raised:%s" % type(e).__name__, dict(case, error=str(e)[:120]), replay=case)
        # copy
        ctx.ev()
        c = copy.copy(fv)
        if not (c == fv) or c is fv or c.GetFraction() is fv.GetFraction() or float(c) != got:
            ctx.violation("copy-differs-or-shares-its-fraction", dict(case, copied=repr(c)), replay=case)
        else:
            # explicit edits - through the setters and through the Fraction object itself - are followed by
            # float() and the order operators at once (the amount is number + fraction *now*)
            float(c)
            den_before = Fr(c.GetFraction().denominator)
            c.SetNumber(12345)
            c.GetFraction().numerator = 7
            if float(fv) != got:
                ctx.violation("editing-a-copy-changed-the-original", case, replay=case)
            want_c = Fr(12345) + Fr(7) / den_before
            if abs(Fr(float(c)) - want_c) > 4 * Fr(math.ulp(12346.0)) or not (c > fv or float(fv) >= 12345):
                ctx.violation("float()-stale-after-editing-the-fraction-in-place", dict(case, edited=repr(c), float=float(c), expected=float(want_c)), replay=case)
            e2 = copy.copy(fv)
            lt_before = e2 < FractionValue(10**7)
            e2.GetFraction()[0] = 3 * 10**9 * int(e2.GetFraction().denominator)  # numerator := 3e9 x the denominator it has now
            if float(e2) < 2.9e9 or (e2 < FractionValue(10**7)) or not lt_before and float(fv) < 10**7:
                ctx.violation("float()-stale-after-editing-the-fraction-in-place", dict(case, edited=repr(e2), float=float(e2)), replay=case)
            e3 = copy.copy(fv)
            float(e3)
            e3.SetFraction((5, 1))
            e3.SetNumber(1)
            if float(e3) != 6.0:
                ctx.violation("float()-stale-after-the-setters", dict(case, edited=repr(e3), float=float(e3)), replay=case)
        d = copy.deepcopy(fv)
        if not (d == fv) or float(d) != got:
            ctx.violation("deepcopy-differs", dict(case, copied=repr(d)), replay=case)
    # order operators between pairs
    ops = (("<", operator.lt), ("<=", operator.le), (">", operator.gt), (">=", operator.ge))
    for _ in range(n):
        (a, ea, ca), (b, eb, cb) = r.choice(made), r.choice(made)
        ctx.ev()
        noise = 8 * Fr(math.ulp(max(abs(float(ea)), abs(float(eb)), 1e-300)))
        for nm, op in ops:
            try:
                got = op(a, b)
            except Exception as e:
                ctx.violation("FractionValue-order-raised:%s" % type(e).__name__, {"a": ca, "b": cb, "op": nm, "error": str(e)[:120]})
                break
            if abs(ea - eb) > noise and bool(got) != op(ea, eb):
                ctx.violation("FractionValue-order-disagrees-with-the-amounts:%s" % nm, {"a": ca, "b": cb, "a_exact": float(ea), "b_exact": float(eb), "got": bool(got)}, replay={"a": ca, "b": cb})
                break
        if ea == eb and float(a) == float(b) and (a < b or a > b or not a <= b or not a >= b):
            ctx.violation("FractionValue-order-incoherent-on-equal-amounts", {"a": ca, "b": cb})
        # ... and against a plain number on either side (`value > 0`, `2 > value`): answered like the amounts
        k = r.choice([0, 1, 2, -1, 0.5, 2.5, float(eb)])
        for nm, op in ops:
            ctx.ev()
            try:
                g1, g2 = op(a, k), op(k, a)
            except Exception as e:
                ctx.violation("FractionValue-order-with-a-plain-number-raised:%s" % type(e).__name__, {"a": ca, "k": repr(k), "op": nm, "error": str(e)[:120]})
                break
            if abs(ea - Fr(k)) > noise and (bool(g1) != op(ea, Fr(k)) or bool(g2) != op(Fr(k), ea)):
                ctx.violation("FractionValue-order-with-a-plain-number-disagrees:%s" % nm, {"a": ca, "k": repr(k), "value_op_k": bool(g1), "k_op_value": bool(g2)})
                break
    # the same amount split differently is equal in order (and == only compares the parts)
    for num, p, q in ((1, 1, 2), (0, 3, 2), (2, 3, 4), (5, 1, 4)):
        a, b = FractionValue(num, (p, q)), FractionValue(float(dec(num) + Fr(p, q)))
        ctx.ev()
        if a < b or a > b or float(a) != float(b):
            ctx.violation("equal-amounts-split-differently-are-ordered", {"a": repr(a), "b": repr(b)})


# ------------------------------------------------------------------------------------------ B
def values_without_a_fraction(ctx, r, n):
    """values created *without* a fraction (a bare number, nothing at all, a float handed to FractionScalar, an integral
    float through CreateFromFloat) each have a fraction of their own: editing the fraction of one of them in place is an
    edit of that one - every value created before or after still denotes its number"""
    from barril.basic.fraction import FractionValue
    from barril.units import FractionScalar

    makers = (("FractionValue(n)", lambda k: FractionValue(k), lambda o: o), ("FractionValue()", lambda k: FractionValue(), lambda o: o), ("CreateFromFloat(integral)", lambda k: FractionValue.CreateFromFloat(float(k)), lambda o: o),
              ("FractionScalar(float)", lambda k: FractionScalar("length", float(k), "m"), lambda o: o.GetValue()), ("CreateFromString('n')", lambda k: FractionValue.CreateFromString(str(k)), lambda o: o))  # fmt: skip
    for i in range(n):
        k = r.randint(0, 99)
        name, mk, fv_of = makers[i % len(makers)]
        case = {"maker": name, "number": k}
        ctx.ev()
        ctx.nt(("no fraction", name, i % 7))
        try:
            earlier = [(nm, kk, m(kk)) for (nm, m, _f), kk in zip(makers, (3, 0, 11, 2, 7))]
            victim = mk(k)
            f = fv_of(victim).GetFraction()
            if i % 3 == 0:
                f.numerator, f.denominator = 1, 4
            elif i % 3 == 1:
                f[0], f[1] = 3, 8
            else:
                fv_of(victim).SetFraction((1, 2))
            later = [(nm, kk, m(kk)) for (nm, m, _f), kk in zip(makers, (5, 0, 13, 4, 9))]
            for when, objs in (("created before the edit", earlier), ("created after the edit", later)):
                for (nm, kk, o), (_n2, _m2, f_of) in zip(objs, makers):
                    want = 0.0 if nm == "FractionValue()" else float(kk)
                    got = float(f_of(o))
                    if got != want:
                        ctx.violation("fraction-less-value-gained-a-fraction:%s" % when, dict(case, other=nm, other_number=kk, denotes=got, text=str(f_of(o))), replay=case)
        except Exception as e:
            ctx.violation("fraction-less-value-raised:%s" % type(e).__name__, dict(case, error=str(e)[:160]), replay=case)


def fraction_arithmetic(ctx, r, n, dens):
    from barril.basic.fraction import Fraction

    def mk():
        k = r.random()
        if k < 0.6:
            p, q = short(r, 99, (0, 0, 1, 2)), r.choice(dens[:40])
            if r.random() < 0.25:
                q = float(q)  # an integral denominator given as a float
            return Fraction(p, q), dec(p) / dec(q), "Fraction(%r,%r)" % (p, q)
        if k < 0.8:
            p = short(r, 99, (0, 1, 2))
            return Fraction(p), dec(p), "Fraction(%r)" % (p,)
        p = short(r, 99, (0, 0, 1, 2))
        return p, dec(p), repr(p)

    def val(x):
        return Fr(x.numerator) / Fr(x.denominator)

    BIN = (("+", operator.add), ("-", operator.sub), ("*", operator.mul), ("/", operator.truediv), ("%", operator.mod))
    for _ in range(n):
        (a, ea, ta), (b, eb, tb) = mk(), mk()
        if not isinstance(a, Fraction) and not isinstance(b, Fraction):
            continue
        case = {"a": ta, "b": tb}
        for nm, op in BIN:
            if nm in ("/", "%") and eb == 0:
                continue
            if nm == "%" and not isinstance(a, Fraction):
                continue  # number % Fraction is not offered
            ctx.ev()
            ctx.nt(("frac", nm, isinstance(a, Fraction), isinstance(b, Fraction)))
            try:
                got = op(a, b)
                exp = op(ea, eb)
                if not isinstance(got, Fraction) or val(got) != exp:
                    ctx.violation("Fraction-arithmetic-differs-from-exact:%s" % nm, dict(case, op=nm, got=repr(got), exact=str(exp)), replay=dict(case, op=nm))
                elif math.gcd(int(got.numerator), int(got.denominator)) != 1 or got.denominator <= 0:
                    ctx.violation("Fraction-result-not-in-lowest-terms:%s" % nm, dict(case, op=nm, got=repr(got)), replay=dict(case, op=nm))
            except Exception as e:
                ctx.violation("Fraction-arithmetic-raised:%s:%s" % (nm, type(e).__name__), dict(case, op=nm, error=str(e)[:120]), replay=dict(case, op=nm))
        if isinstance(a, Fraction):
            for nm, f, ef in (("neg", operator.neg, operator.neg), ("abs", abs, abs), ("float", float, float), ("inv", lambda x: x.inv(), lambda x: 1 / x), ("copy", lambda x: x.copy(), lambda x: x),
                              ("**2", lambda x: x**2, lambda x: x**2), ("**-1", lambda x: x**-1, lambda x: x**-1), ("**3", lambda x: x**3, lambda x: x**3), ("**0", lambda x: x**0, lambda x: x**0),
                              ("**-2", lambda x: x**-2, lambda x: x**-2), ("**-3", lambda x: x**-3, lambda x: x**-3), ("**1", lambda x: x**1, lambda x: x),
                              # an integral exponent that happens to be typed float is the same exponent
                              ("**2.0", lambda x: x**2.0, lambda x: x**2), ("**1.0", lambda x: x**1.0, lambda x: x), ("**-1.0", lambda x: x**-1.0, lambda x: x**-1), ("**3.0", lambda x: x**3.0, lambda x: x**3)):  # fmt: skip
                if nm in ("inv", "**-1", "**-2", "**-3", "**-1.0") and ea == 0:
                    continue
                ctx.ev()
                try:
                    got, exp = f(a), ef(ea)
                    bad = (abs(got - float(exp)) > 2 * math.ulp(abs(float(exp)))) if nm == "float" else (val(got) != exp)
                    if bad:
                        ctx.violation("Fraction-unary-differs-from-exact:%s" % nm, dict(case, op=nm, got=repr(got), exact=str(exp)), replay=dict(case, op=nm))
                except Exception as e:
                    ctx.violation("Fraction-unary-raised:%s:%s" % (nm, type(e).__name__), dict(case, op=nm, error=str(e)[:120]), replay=dict(case, op=nm))
        # comparison
        for nm, op in (("<", operator.lt), ("<=", operator.le), (">", operator.gt), (">=", operator.ge), ("==", operator.eq), ("!=", operator.ne)):
            ctx.ev()
            try:
                got = op(a, b)
                if bool(got) != op(ea, eb):
                    ctx.violation("Fraction-comparison-differs-from-exact:%s" % nm, dict(case, op=nm, got=bool(got), a_exact=str(ea), b_exact=str(eb)), replay=dict(case, op=nm))
            except Exception as e:
                ctx.violation("Fraction-comparison-raised:%s:%s" % (nm, type(e).__name__), dict(case, op=nm, error=str(e)[:120]), replay=dict(case, op=nm))


        # ... and with the *same amount* written another way (a float that is a short decimal, an int, another Fraction):
        # equal amounts are where a comparison that reads one side differently turns wrong
        for which, x, ex in (("a", a, ea), ("b", b, eb)):
            if not isinstance(x, Fraction):
                continue
            twins = [("Fraction of the same amount", Fraction(int(ex.numerator) * 3, int(ex.denominator) * 3))]
            if (ex * 1000).denominator == 1:
                twins.append(("float of the same amount", float(ex)))
            if ex.denominator == 1:
                twins.append(("int of the same amount", int(ex)))
            for tag, y in twins:
                for nm, op in (("<", operator.lt), ("<=", operator.le), (">", operator.gt), (">=", operator.ge), ("==", operator.eq), ("!=", operator.ne)):
                    for order, l, rr in (("Fraction first", x, y), ("Fraction second", y, x)):
                        ctx.ev()
                        ctx.nt(("frac-equal-amount", tag, nm, order))
                        try:
                            got = op(l, rr)
                            if bool(got) != op(ex, ex):
                                ctx.violation("Fraction-comparison-differs-from-exact:%s:%s" % (nm, tag), dict(case, op=nm, order=order, fraction=repr(x), other=repr(y), got=bool(got)), replay=dict(case, op=nm))
                        except Exception as e:
                            ctx.violation("Fraction-comparison-raised:%s:%s" % (nm, type(e).__name__), dict(case, op=nm, other=repr(y), error=str(e)[:120]), replay=dict(case, op=nm))


# ------------------------------------------------------------------------------------------ C
def create_from_float(ctx, r, n):
    from barril.basic.fraction import FractionValue

    for i in range(n):
        sig = r.randint(1, 8)
        m = r.randint(1, 10**sig - 1)
        e = r.randint(-9, 9) if i % 4 else r.randint(-30, 15)  # every 4th input from a much wider magnitude range
        x = float("%de%d" % (m, e - sig + 1))
        if r.random() < 0.4:
            x = -x
        if i < 40:
            x = [0.0, 1.0, -1.0, 0.5, 0.375, -0.375, 1e-05, 1.1e-07, 123.456, -7.25, 1e9, 1e-9, 0.1, 0.2, 0.3, 1 / 3, 2.0000001, 99999999.0, 0.99999999, 5e-324][i % 20] * (1 if i < 20 else -1)
        case = {"x": repr(x)}
        ctx.ev()
        ctx.nt(("cff", sig, e, x < 0))
        try:
            fv = FractionValue.CreateFromFloat(x)
            got = float(fv)
        except Exception as ex:
            kind = "subnormal-input:" if x != 0 and abs(x) < 2.2250738585072014e-308 else ""
            ctx.violation("CreateFromFloat-raised:%s%s" % (kind, type(ex).__name__), dict(case, error=str(ex)[:120]), replay=case)
            continue
        tol = 1e-11 * abs(x)
        if abs(got - x) > tol:
            ctx.violation("CreateFromFloat-denotes-another-amount", dict(case, result=repr(fv), denotes=got, relative_error=abs(got - x) / abs(x) if x else None), replay=case)
            continue
        f = fv.GetFraction()
        if f.denominator <= 0 or (x >= 0) != (got >= 0) and got != 0:
            ctx.violation("CreateFromFloat-sign-or-denominator-wrong", dict(case, result=repr(fv)), replay=case)
        if isinstance(x, float) and x.is_integer() and (float(f) != 0.0 or fv.GetNumber() != x):
            ctx.violation("CreateFromFloat-integer-got-a-fraction", dict(case, result=repr(fv)), replay=case)


def same_target_sequences(ctx, db, aff):
    """One target unit asked for from several source units one after the other, in one process, with the quantity given
    each way the classmethod accepts (type name, a Quantity in any unit of the type) - and the other way round, one source
    to several targets: what was worked out for one pair of units is nothing another pair may be answered with."""
    from barril.basic.fraction import FractionValue
    from barril.units import FractionScalar, ObtainQuantity, Scalar

    n = 0
    for qi, (qt, us) in enumerate(sorted(table.units_by_type(db).items())):
        us = [u for u in us if u in aff and aff[u].exact and aff[u].slope > 0]
        if qt == "Unknown" or len(us) < 3 or qi % ctx.nshards != ctx.shard:
            continue
        base = db.GetBaseUnit(qt)
        distinct, seen = [], set()
        for u in us:
            if aff[u].slope not in seen and u != base:
                seen.add(aff[u].slope)
                distinct.append(u)
        distinct = distinct[:5]
        fv = FractionValue(20, (3, 4))
        x = float(fv)
        for fixed, others, fixed_is_target in ((base, distinct, True), (base, distinct, False), (distinct[0], distinct[1:] + [base], True)):
            for how in ("str", "Quantity(base unit)", "Quantity(fixed unit)", "FractionScalar.GetValue", "UnitDatabase.Convert"):
                for o in others:
                    u, v = (o, fixed) if fixed_is_target else (fixed, o)
                    case = {"qt": qt, "u": u, "v": v, "how": how, "sequence": "several sources, one target" if fixed_is_target else "one source, several targets"}
                    ctx.ev()
                    n += 1
                    try:
                        ref = Scalar(x, u).GetValue(v)
                        if how == "str":
                            got = FractionScalar.ConvertFractionValue(fv, qt, u, v)
                        elif how == "Quantity(base unit)":
                            got = FractionScalar.ConvertFractionValue(fv, ObtainQuantity(base), u, v)
                        elif how == "Quantity(fixed unit)":
                            got = FractionScalar.ConvertFractionValue(fv, ObtainQuantity(fixed), u, v)
                        elif how == "FractionScalar.GetValue":
                            fs_ = FractionScalar(fv, u)
                            first = fs_.GetValue(v)
                            # what was handed out is the caller's: scribbling on it changes nothing the scalar tells next
                            try:
                                first.number = 777.0
                            except Exception:
                                pass
                            got = fs_.GetValue(v)
                        else:
                            got = db.Convert(qt, u, v, fv)
                    except Exception as e:
                        ctx.violation("same-target-sequence-raised:%s:%s" % (how, type(e).__name__), dict(case, error=str(e)[:160]), replay=case)
                        continue
                    tol = 1e-9 * (abs(ref) + abs(aff[u].off / aff[v].slope) + abs(aff[v].off / aff[v].slope)) + 1e-300
                    if abs(float(got) - ref) > tol or float(fv) != x:
                        ctx.violation("fraction-conversion-in-a-sequence-differs-from-Scalar:%s" % how, dict(case, got=float(got), expected=ref), replay=case)
    ctx.count("fraction conversions in same-target / same-source sequences", n)


def zero_comparisons(ctx, db, aff):
    """A fractional value that is exactly zero (0, 0 0/2, 1/2 - 1/2) is an amount like any other: compared across units - a
    unit with a zero point of its own among them - the order is the order of the physical amounts."""
    from barril.basic.fraction import FractionValue
    from barril.units import FractionScalar

    ops = (("<", operator.lt), ("<=", operator.le), (">", operator.gt), (">=", operator.ge))
    n = 0
    for qi, (qt, us) in enumerate(sorted(table.units_by_type(db).items())):
        us = [u for u in us if u in aff and aff[u].exact and aff[u].slope > 0]
        if qt == "Unknown" or len(us) < 2 or qi % ctx.nshards != ctx.shard:
            continue
        offs = [u for u in us if aff[u].off != 0.0]
        pairs = [(u, v) for u in offs for v in us if v != u] + [(v, u) for u in offs for v in us if v != u] + [(us[0], us[-1])]
        for u, v in pairs[:40]:
            au, av = aff[u], aff[v]
            for za, zb in ((FractionValue(0), FractionValue(1, (1, 2))), (FractionValue(0, (0, 2)), FractionValue(0)), (FractionValue(1, (1, 2)), FractionValue(0.0)), (FractionValue(0.5, (-1, 2)), FractionValue(300)),
                           (FractionValue(-400), FractionValue(0))):  # fmt: skip
                A = Fr(au.off) + Fr(au.slope) * Fr(float(za))
                B = Fr(av.off) + Fr(av.slope) * Fr(float(zb))
                noise = Fr(64 * conv.EPS) * (abs(Fr(au.off)) + abs(A) + abs(Fr(av.off)) + abs(B))
                case = {"qt": qt, "u": u, "v": v, "a": repr(za), "b": repr(zb)}
                ctx.ev()
                n += 1
                try:
                    fa, fb = FractionScalar(za, u), FractionScalar(zb, v)
                    for nm, op in ops:
                        if abs(A - B) > noise and bool(op(fa, fb)) != op(A, B):
                            ctx.violation("FractionScalar-with-a-zero-value-compares-against-the-physical-amounts:%s" % nm, dict(case, got=bool(op(fa, fb)), exact=op(A, B)), replay=case)
                            break
                except Exception as e:
                    ctx.violation("FractionScalar-comparison-raised:%s" % type(e).__name__, dict(case, error=str(e)[:160]), replay=case)
    ctx.count("comparisons of fractional values one of which is zero", n)


# ------------------------------------------------------------------------------------------ D
def fraction_scalars(ctx, db, aff, r):
    from barril.basic.fraction import FractionValue
    from barril.units import FractionScalar, Scalar

    ubt = table.units_by_type(db)
    work = []
    for qt, us in ubt.items():
        us = [u for u in us if u in aff and aff[u].exact and aff[u].slope > 0]
        if qt == "Unknown" or not us:
            continue
        pairs = [(u, v) for u in us for v in us if u != v] or [(us[0], us[0])]
        affine = [(u, v) for u, v in pairs if aff[u].off != aff[v].off]
        if ctx.tier == "quick":
            pairs = r.sample(pairs, min(4, len(pairs))) + r.sample(affine, min(4, len(affine)))
        for u, v in pairs:
            work.append((qt, u, v))
    ops = (("<", operator.lt), ("<=", operator.le), (">", operator.gt), (">=", operator.ge))
    for idx, (qt, u, v) in enumerate(work):
        if idx % ctx.nshards != ctx.shard:
            continue
        au, av = aff[u], aff[v]
        ctx.nt(("fs", qt, u, v))
        for num, p, q in ((5, 1, 2), (20.5, 3, 4), (0, 7, 8), (-3, -1, 4), (r.randint(-50, 50), r.randint(1, 15), r.choice([2, 4, 8, 16, 3, 10])), (short(r, 99), short(r, 20, (0, 1)), r.choice([2, 4, 5, 8]))):
            fv = FractionValue(num, (p, q))
            x = float(fv)
            case = {"qt": qt, "u": u, "v": v, "number": repr(num), "fraction": [repr(p), q]}
            ctx.ev()
            try:
                fs, s = FractionScalar(fv, u), Scalar(x, u)
                gv = fs.GetValue(v)
                got, ref = float(gv), s.GetValue(v)
            except Exception as e:
                ctx.violation("FractionScalar-conversion-raised:%s" % type(e).__name__, dict(case, error=str(e)[:160]), replay=case)
                continue
            # number and numerator travel separately: allow the error scale of both trips
            tol = conv.tol_in(av, conv.base_err(au, x, av) + conv.base_err(au, float(dec(num)), av) + conv.base_err(au, float(dec(p) / q), av), ref, 16.0)
            # the Fraction class keeps a float numerator to about 9 significant decimals (documented "special
            # handling for rounding"): that much of the *fraction part* may differ, never more
            tol += 2e-9 * abs(float(dec(p) / q) * au.slope / av.slope)
            if abs(got - ref) > tol:
                ctx.violation("FractionScalar-converts-differently-from-Scalar", dict(case, fraction_scalar=got, scalar=ref, converted=repr(gv)), replay=case)
                continue
            if fs.GetUnit() != u or float(fs.GetValue()) != x or float(fs.GetValue(u)) != x:
                ctx.violation("FractionScalar-own-unit-value-differs", dict(case, value=repr(fs.GetValue(u))), replay=case)
            # the public classmethod, with the quantity given as a string and as Quantity objects (its own unit
            # may be any unit of the type: from_unit says what the value is written in)
            from barril.units import ObtainQuantity

            for label, qarg in (("str", qt), ("Quantity(from unit)", ObtainQuantity(u)), ("Quantity(target unit)", ObtainQuantity(v)), ("Quantity(base unit)", ObtainQuantity(db.GetBaseUnit(qt)))):
                ctx.ev()
                try:
                    cv = FractionScalar.ConvertFractionValue(fv, qarg, u, v)
                    if abs(float(cv) - ref) > tol:
                        ctx.violation("ConvertFractionValue(%s)-differs-from-Scalar" % label, dict(case, got=float(cv), expected=ref), replay=case)
                    if float(fv) != x:
                        ctx.violation("ConvertFractionValue-changed-its-argument", dict(case, now=repr(fv)), replay=case)
                except Exception as e:
                    ctx.violation("ConvertFractionValue(%s)-raised:%s" % (label, type(e).__name__), dict(case, error=str(e)[:160]), replay=case)
            # the database's own conversion of a FractionValue
            ctx.ev()
            try:
                dv = db.Convert(qt, u, v, fv)
                if abs(float(dv) - ref) > tol:
                    ctx.violation("UnitDatabase.Convert(FractionValue)-differs-from-float", dict(case, got=float(dv), expected=ref), replay=case)
            except Exception as e:
                ctx.violation("UnitDatabase.Convert(FractionValue)-raised:%s" % type(e).__name__, dict(case, error=str(e)[:160]), replay=case)
            # comparisons: like the Scalars holding the floats
            y = ref + r.choice([0.0, 1.0, -1.0, abs(ref) * 1e-6, -abs(ref) * 1e-6])
            ctx.ev()
            try:
                fo, so = FractionScalar(FractionValue(y), v), Scalar(y, v)
                A = Fr(au.off) + Fr(au.slope) * Fr(x)
                B = Fr(av.off) + Fr(av.slope) * Fr(y)
                noise = Fr(64 * conv.EPS) * (abs(Fr(au.off)) + abs(Fr(au.slope) * Fr(x)) + abs(Fr(av.off)) + abs(Fr(av.slope) * Fr(y)))
                for nm, op in ops:
                    g1, g2 = op(fs, fo), op(s, so)
                    if abs(A - B) > noise and (bool(g1) != bool(g2) or bool(g1) != op(A, B)):
                        ctx.violation("FractionScalar-compares-differently-from-Scalar:%s" % nm, dict(case, other=[repr(y), v], fraction_scalar=bool(g1), scalar=bool(g2), exact=op(A, B)), replay=case)
                        break
            except Exception as e:
                ctx.violation("FractionScalar-comparison-raised:%s" % type(e).__name__, dict(case, error=str(e)[:160]), replay=case)


def validation(ctx, r):
    """validates like the Scalar: private categories with limits, one of them on an affine type."""
    from barril.basic.fraction import FractionValue
    from barril.units import FractionScalar, Scalar

    db = table.build("posc")
    with table.pushed(db):
        db.AddCategory("c18 len", "length", default_unit="m", min_value=1.0, max_value=10.0, is_max_exclusive=True, default_value=2.0)
        db.AddCategory("c18 temp", "temperature", default_unit="degC", min_value=0.0, max_value=100.0)
        for cat, units in (("c18 len", ["m", "cm", "ft", "in"]), ("c18 temp", ["degC", "K", "degF"])):
            du = db.GetDefaultUnit(cat)
            for u in units:
                for lim in (db.GetCategoryInfo(cat).min_value, db.GetCategoryInfo(cat).max_value):
                    b = db.Convert(cat, du, u, lim)
                    for num, p, q in ((math.floor(b), 0, 1), (math.floor(b) - 1, 1, 2), (math.floor(b), 1, 2), (math.floor(b) + 1, 1, 4), (math.floor(b) - 2, 7, 4), (b, 0, 1), (math.floor(b), 3, 4)):
                        fv = FractionValue(num, (p, q))
                        fs, s = FractionScalar(cat, fv, u), Scalar(cat, float(fv), u)
                        ctx.ev()
                        ctx.nt(("valid", cat, u, lim, p, q))
                        e1 = e2 = None
                        try:
                            fs.CheckValidity()
                        except Exception as e:
                            e1 = e
                        try:
                            s.CheckValidity()
                        except Exception as e:
                            e2 = e
                        if fs.IsValid() != s.IsValid() or (e1 is None) != (e2 is None) or (e1 is not None and (type(e1) is not type(e2) or getattr(e1, "operator", None) != getattr(e2, "operator", None))):
                            ctx.violation("FractionScalar-validates-differently-from-Scalar", {"category": cat, "unit": u, "value": repr(fv), "fraction_scalar": fs.IsValid(), "scalar": s.IsValid(), "errors": [repr(e1)[:100], repr(e2)[:100]]})


def run(ctx):
    from barril.basic.fraction import Fraction, FractionValue
    from barril.units import FractionScalar

    probe.install()
    probe.reach([FractionValue.CreateFromFloat, FractionValue.CreateFromString, FractionValue.__float__, FractionValue.__copy__, Fraction.__init__, Fraction.__mul__, Fraction.__old_cmp__, FractionScalar.ConvertFractionValue,
                 FractionScalar._GetComparableValues, FractionScalar.CheckValidity])  # fmt: skip
    quick = ctx.tier == "quick"
    dens = list(range(1, 65)) + [100, 1000, 10000] if quick else list(range(1, 10001))
    ctx.rule = (
        "A: FractionValue(n,(p,q)) for ints / short decimals (<= 3 decimals) n, p and q in %s: parts, float() within 4 ulp of the exact rational, order operators, str->CreateFromString exactly (where %%g prints the parts "
        "exactly), copy independence; B: Fraction + - * / %% neg abs inv ** copy and six comparisons against fractions.Fraction, results in lowest terms; C: CreateFromFloat on floats with <= 8 significant decimals in "
        "1e-9..1e9 (every 4th from 1e-30..1e15) within 1e-11 relative; D: FractionScalar vs Scalar(float(value)) for every quantity type x unit pairs (%s) incl. all affine pairs: converted value, UnitDatabase.Convert(FractionValue), four order "
        "operators, validity on private categories with limits. distinct = (part, shape of the case)"
        % ("1..64 + powers of ten" if quick else "1..10000", "4 random + 4 affine per type" if quick else "all ordered pairs")
    )
    ctx.assumptions = [
        "a float literal denotes the short decimal it prints as (that is how Fraction interprets float numerators)",
        "format/parse is demanded where %g prints number, numerator and denominator exactly in plain notation (<= 6 significant digits, 1e-4 <= |x| < 1e6)",
        "CreateFromFloat 'to rounding' = 1e-11 relative (calibrated: over 1 M inputs the continued-fraction code ends exactly on 98 %, within 1e-14 on all but a handful, and never beyond 1.01e-12; every real break is off by a factor)",
        "conversion reference is Scalar.GetValue (C01/C02 vouch for it) with the running error scale of the separate number/numerator trips + 2e-9 of the converted fraction part (Fraction keeps ~9 decimals of a float numerator)",
    ]
    r = ctx.rng("c18")
    scale = 1 if quick else 10
    fraction_values(ctx, r, 4000 * scale, dens)
    fraction_arithmetic(ctx, r, 3000 * scale, dens)
    values_without_a_fraction(ctx, r, 60 * scale)
    create_from_float(ctx, r, 5000 * scale * (1 if quick else 3))
    db = table.build("posc")
    with table.pushed(db):
        aff = conv.describe(db)
        same_target_sequences(ctx, db, aff)
        zero_comparisons(ctx, db, aff)
        fraction_scalars(ctx, db, aff, r)
    if ctx.shard == 0:
        validation(ctx, r)
        ctx.sample({"A": "FractionValue(2.5, (0.57, 4)) -> float 2.6425, str '2.5 57/400' parses back equal", "B": "Fraction(3,4) + 0.57 == 33/25", "C": "CreateFromFloat(1e-05)", "D": "FractionScalar(5 1/2, 'degC').GetValue('K') ~ Scalar(5.5,'degC').GetValue('K')"})
    ctx.inconclusive_if(ctx.counters.get("format/parse round trips", 0) < 100, "fewer than 100 format/parse round trips")
    ctx.inconclusive_if(probe.COUNTS["FractionScalar.ConvertFractionValue"] == 0, "FractionScalar conversion never reached")


def replay(ctx, d):
    probe.install()
    from barril.basic.fraction import FractionValue

    if d and "x" in d:
        x = float(d["x"])
        ctx.ev()
        got = float(FractionValue.CreateFromFloat(x))
        if abs(got - x) > 1e-12 * abs(x):
            ctx.violation("CreateFromFloat-denotes-another-amount", dict(d, denotes=got))
    else:
        r = ctx.rng("c18")
        dens = list(range(1, 65)) + [100, 1000, 10000]
        fraction_values(ctx, r, 4000, dens)
        fraction_arithmetic(ctx, r, 3000, dens)
        db = table.build("posc")
        with table.pushed(db):
            same_target_sequences(ctx, db, conv.describe(db))
            fraction_scalars(ctx, db, conv.describe(db), r)
