"""C20 - derived unit / category / quantity-type / unit-name strings render every factor unambiguously
(DESIGN.md 4, C20).

Derived quantities are produced with the library's own arithmetic (Scalar / Array / Quantity products,
quotients and powers, plus CreateDerived / ObtainQuantity requests) over a basis of *atomic* table symbols
(letters only).  models/grammar.py parses the four strings; each must recover exactly the multiset the
quantity itself reports through GetCategoryToUnitAndExps(): units joined per symbol, categories per category,
quantity types joined per type, unit names joined per name - zero exponents absent, positives before one
separator, '1' in front of a pure reciprocal.  Simple quantities of the whole table report exactly their
registered strings; repr / str of value objects show the unit.
"""
import re
from collections import Counter, OrderedDict

from .. import probe
from ..models import grammar
from ..workloads import table

SHARDS = {"quick": 4, "thorough": 16}
WATCHDOG_S = {"quick": 900, "thorough": 7200}
FLOORS = (5000, 500)
ATOM = re.compile(r"^[A-Za-z%]+$")


def basis(db):
    """{quantity type: ([atomic scale-only units], [categories])} for types with >= 2 such units."""
    out = {}
    cbt = table.categories_by_type(db)
    for qt, infos in db.quantity_types.items():
        if qt == "Unknown" or qt not in cbt:
            continue
        us = []
        for i in infos:
            try:
                if ATOM.match(i.unit) and i.tobase(0.0) == 0.0 and i.tobase(1.0) > 0 and ATOM.match(i.unit) and " * " not in i.name and " / " not in i.name and " ** " not in i.name:
                    us.append(i.unit)
            except Exception:
                pass
        cats = [c for c in cbt[qt] if " * " not in c and " / " not in c and " ** " not in c and "(" not in c]
        if len(us) >= 2 and cats:
            out[qt] = (us, cats)
    return out


def nz(counter):
    return {k: v for k, v in counter.items() if v}


def check_quantity(ctx, db, q, case, tag):
    """The four strings of a quantity against the composing map it reports."""
    ctx.ev()
    m = q.GetCategoryToUnitAndExps()
    items = [(c, u, e) for c, (u, e) in m.items()]
    derived = q.IsDerived()
    unit, cat, qt, name = q.GetUnit(), q.GetCategory(), q.GetQuantityType(), q.GetUnitName()
    strings = {"unit": unit, "category": cat, "quantity_type": qt, "unit_name": name}
    if not derived:
        return strings
    want_u, want_c, want_t, want_n = Counter(), Counter(), Counter(), Counter()
    for c, u, e in items:
        want_u[u] += e
        want_c[c] += e
        t = db.GetCategoryQuantityType(c)
        want_t[t] += e
        want_n[db.GetUnitName(t, u)] += e
    joined = nz(Counter({u: e for u, e in q.GetComposingUnitsJoiningExponents()}))
    if joined != nz(want_u):
        ctx.violation("%s:GetComposingUnitsJoiningExponents-differs-from-the-composing-map" % tag, dict(case, joined=joined, from_map=nz(want_u)), replay=case)
    got_u = grammar.parse_unit_string(unit)
    if got_u is None or nz(Counter(got_u)) != nz(want_u) or any(v == 0 for v in got_u.values()):
        ctx.violation("%s:unit-string-does-not-parse-to-the-composing-units" % tag, dict(case, unit=unit, parsed=got_u, expected=nz(want_u)), replay=case)
    else:
        why = not_table_notation(unit, nz(want_u))
        if why:
            # same multiset, but not the table's own notation ('.' between factors, one '/', exponent suffixes >= 2,
            # '1/' in front of a pure reciprocal); the order of the factors is not prescribed
            ctx.violation("%s:unit-string-not-in-the-table-grammar" % tag, dict(case, unit=unit, why=why, one_valid_rendering=render_units(q)), replay=case)
    for what, s, want in (("category", cat, want_c), ("quantity_type", qt, want_t), ("unit_name", name, want_n)):
        got = grammar.parse_star_string(s)
        gc = None if got is None else Counter()
        if got is not None:
            for rep, e in got:
                gc[rep] += e
        if got is None or nz(gc) != nz(want) or len(got) != len(nz(gc)) or any(e == 0 for _r, e in got):
            ctx.violation("%s:%s-string-does-not-list-the-factors" % (tag, what), dict(case, string=s, parsed=got, expected=nz(want)), replay=case)
    return strings


def not_table_notation(unit, want):
    """None when the string uses the table's notation for the multiset ``want`` (any order of factors)."""
    pos = [u for u, e in want.items() if e > 0]
    neg = [u for u, e in want.items() if e < 0]
    if not want:
        return None if unit == "" else "dimensionless quantity with a non-empty unit string"
    if unit.count("/") != (1 if neg else 0):
        return "number of '/' is %d" % unit.count("/")
    num, _, den = unit.partition("/")
    if not pos and num != "1":
        return "a pure reciprocal must start with '1/'"
    if pos and num == "1":
        return "'1' written in front of numerator factors"
    for part, names in ((num, pos), (den, neg)):
        if not names:
            continue
        fs = part.split(".")
        if len(fs) != len(names):
            return "%d factors written for %d units" % (len(fs), len(names))
        for f in fs:
            m = re.match(r"^([A-Za-z%]+)(\d*)$", f)
            if not m or m.group(1) not in want:
                return "factor %r is not <symbol><exponent>" % f
            e = abs(want[m.group(1)])
            if (m.group(2) or "1") != str(e) or m.group(2) == "1":
                return "exponent of %r written as %r" % (m.group(1), m.group(2))
    return None


def render_units(q):
    """the table's own notation for the joined composing units the quantity reports."""
    pos = ["%s%s" % (u, e if e != 1 else "") for u, e in q.GetComposingUnitsJoiningExponents() if e > 0]
    neg = ["%s%s" % (u, -e if e != -1 else "") for u, e in q.GetComposingUnitsJoiningExponents() if e < 0]
    if not neg:
        return ".".join(pos)
    return (".".join(pos) if pos else "1") + "/" + ".".join(neg)


def gen_factors(r, B, qts):
    """[(category, unit, exponent)] with 0-3 numerator and 0-3 denominator factors, repeated types allowed."""
    nn, nd = r.randint(0, 3), r.randint(0, 3)
    if nn + nd == 0:
        nn = 1
    out = []
    for sign, n in ((1, nn), (-1, nd)):
        for _ in range(n):
            qt = r.choice(qts) if not out or r.random() < 0.65 else B_type_of(out, r)
            us, cats = B[qt]
            out.append((r.choice(cats), r.choice(us), sign * r.choice([1, 1, 1, 2, 2, 3, 4])))
    r.shuffle(out)
    return out


_TYPE_OF = {}


def B_type_of(out, r):
    return _TYPE_OF[r.choice(out)[0]]


def build(r, factors, how):
    """-> (value object or Quantity, description of the route)"""
    import numpy as np
    from barril.units import Array, ObtainQuantity, Quantity, Scalar

    if how in ("CreateDerived", "ObtainQuantity(dict)", "ObtainQuantity(list)"):
        od = OrderedDict()
        for c, u, e in factors:
            if c in od:
                continue
            od[c] = [u, e]
        if how == "CreateDerived":
            q = Quantity.CreateDerived(od)
        elif how == "ObtainQuantity(dict)":
            q = ObtainQuantity(od)
        else:
            q = ObtainQuantity([v for v in od.values()], list(od))
        # the caller goes on working with its dict (the next quantity of a series is made by editing it in place):
        # the strings of the quantity just answered keep describing the quantity just answered
        for v in od.values():
            v[1] = v[1] + 3 if v[1] > 0 else v[1] - 3
        return q
    acc = None
    for c, u, e in factors:
        if how == "Scalar":
            x = Scalar(c, 2.0, u)
        elif how == "Array":
            x = Array(c, r.choice([[2.0, 3.0], (2.0, 3.0), np.array([2.0, 3.0]), [], (), np.array([])]), u)  # (an Array without values has its unit all the same)
        elif how == "Quantity(constructor)":
            x = Quantity(c, u)  # (an object of its own, not the interned one - and gone as soon as the product is built)
        else:
            x = ObtainQuantity(u, c)
        k = abs(e)
        if how == "Array":
            p = x
            for _ in range(k - 1):
                p = p * x
        else:
            p = x**k if k > 1 or r.random() < 0.3 else x
        if acc is None:
            acc = p if e > 0 else (1.0 / p if not how.startswith("Quantity") else None)
            if acc is None:
                # Quantity has no number / Quantity: start from a product and divide it out again
                acc = (p * p) / p / p / p
        else:
            acc = acc * p if e > 0 else acc / p
    return acc


def expected_categories(factors, how, power=1):
    """category -> net exponent the request names (the dict forms keep the first entry of a category; arithmetic adds up)"""
    want = {}
    for c, _u, e in factors:
        if how in ("CreateDerived", "ObtainQuantity(dict)", "ObtainQuantity(list)"):
            want.setdefault(c, e)
        else:
            want[c] = want.get(c, 0) + e
    return {c: e * power for c, e in want.items() if e}


def derived(ctx, db, B, r, n):
    qts = list(B)
    for qt, (us, cats) in B.items():
        for c in cats:
            _TYPE_OF[c] = qt
    seen_names = {}
    for i in range(n):
        factors = gen_factors(r, B, qts)
        how = r.choice(["Scalar", "Scalar", "Scalar", "Array", "Quantity", "Quantity(constructor)", "CreateDerived", "ObtainQuantity(dict)", "ObtainQuantity(list)"])
        case = {"factors": [list(f) for f in factors], "route": how}
        try:
            o = build(r, factors, how)
        except Exception as e:
            ctx.ev()
            ctx.count("route raised %s" % type(e).__name__)
            continue
        q = o if not hasattr(o, "GetQuantity") else o.GetQuantity()
        # the quantity is the one the request names: every category at the exponent the factors add up to (what the strings are
        # compared with below is the quantity's own composing map - which must itself be the map that was asked for)
        power = 1
        if how in ("Scalar", "Quantity", "Quantity(constructor)") and i % 3 == 0:
            # ... also after the whole amount is raised to a power: every exponent is multiplied
            power = 2 + i % 2
            try:
                o = o**power
                q = o if not hasattr(o, "GetQuantity") else o.GetQuantity()
                case = dict(case, raised_to=power)
            except Exception as e:
                ctx.count("power of a derived amount raised %s" % type(e).__name__)
                power = 1
        if how == "Array" and i % 2 == 0:
            # ... and after a row of plain numbers is divided by the whole amount (both divisions): every exponent changes its sign
            try:
                import numpy as _np

                if len(o.GetValues()) == 2:
                    o = (_np.array([9.0, 7.0]) // o) if i % 4 == 0 else (_np.array([9.0, 7.0]) / o)
                    if not hasattr(o, "GetQuantity"):
                        ctx.violation("derived:numbers-over-an-array-lost-the-unit", dict(case, result=repr(o)[:120]), replay=case)
                        continue
                    q = o.GetQuantity()
                    power = -1
                    case = dict(case, numbers_divided_by_it="//" if i % 4 == 0 else "/")
            except Exception as e:
                ctx.count("numbers over a derived array raised %s" % type(e).__name__)
        ctx.ev()
        want_c = expected_categories(factors, how, power)
        got_c = {c: e for c, (_u, e) in q.GetCategoryToUnitAndExps().items() if e}
        types_of = {}
        for c, _u, _e in factors:
            types_of.setdefault(_TYPE_OF[c], set()).add(c)
        if any(len(cs) > 1 for cs in types_of.values()) and how not in ("CreateDerived", "ObtainQuantity(dict)", "ObtainQuantity(list)"):
            # two categories of one quantity type meet in arithmetic: they cancel against each other (length2 / diameter is a
            # length) - the request then only names the net exponent of the quantity type
            def by_type(d):
                out = {}
                for c, e in d.items():
                    t = _TYPE_OF.get(c) or db.GetCategoryQuantityType(c)
                    out[t] = out.get(t, 0) + e
                return {t: e for t, e in out.items() if e}

            want_c, got_c = by_type(want_c), by_type(got_c)
        if got_c != want_c:
            ctx.violation("derived:composing-map-is-not-the-one-the-request-names", dict(case, requested=want_c, got=got_c), replay=case)
            continue
        if how not in ("CreateDerived", "ObtainQuantity(dict)", "ObtainQuantity(list)"):
            left = cancelled_leftovers(q)
            if left:
                ctx.violation("derived:categories-left-on-a-unit-whose-exponents-cancel", dict(case, leftovers=left, unit=q.GetUnit(), category=q.GetCategory()), replay=case)
                continue
        s = check_quantity(ctx, db, q, case, "derived")
        m = q.GetCategoryToUnitAndExps()
        ctx.nt(("derived", tuple(sorted((u, e) for _c, (u, e) in m.items()))))
        ctx.count("derived quantities with %d numerator / %d denominator factors" % (min(3, sum(1 for _c, (_u, e) in m.items() if e > 0)), min(3, sum(1 for _c, (_u, e) in m.items() if e < 0))))
        # asking again (in another order) gives the same strings
        ctx.ev()
        again = (q.GetUnitName(), q.GetQuantityType(), q.GetCategory(), q.GetUnit())
        if again != (s["unit_name"], s["quantity_type"], s["category"], s["unit"]):
            ctx.violation("derived:strings-change-when-asked-again", dict(case, first=s, again=list(again)), replay=case)
        # the value object shows that unit
        if hasattr(o, "GetQuantity"):
            ctx.ev()
            u = q.GetUnit()
            try:
                shown = (repr(o), str(o))
            except Exception as e:
                shown = None
                ctx.violation("derived:repr-or-str-raised:%s" % type(e).__name__, dict(case, unit=u, error=str(e)[:160]), replay=case)
            if shown is not None and (o.GetUnit() != u or (u and (u not in shown[0] or ("[%s]" % u) not in shown[1]))):
                ctx.violation("derived:repr-or-str-does-not-show-the-unit", dict(case, unit=u, repr=shown[0][:160], str=shown[1][:160]), replay=case)
            if o.GetCategory() != s["category"] or o.GetQuantityType() != s["quantity_type"] or o.GetUnitName() != s["unit_name"]:
                ctx.violation("derived:value-object-strings-differ-from-its-quantity", dict(case, object=[o.GetCategory(), o.GetQuantityType(), o.GetUnitName()], quantity=s), replay=case)


def cancelled_leftovers(q):
    """categories that a quantity *built by arithmetic* still lists although the exponents of their unit add up to zero
    (m * m / m / m is no unit at all: nothing of it is rendered - "zero exponents absent" - and nothing of it is kept)"""
    total = Counter()
    for c, (u, e) in q.GetCategoryToUnitAndExps().items():
        total[u] += e
    return sorted(c for c, (u, e) in q.GetCategoryToUnitAndExps().items() if total[u] == 0)


def cross_category_cancellations(ctx, db, B):
    """Two categories of one quantity type in one unit (depth and length in m), multiplied and divided until the unit cancels -
    alone, and beside a factor of another type that stays: Scalars, Quantities and Arrays, every order of the divisions."""
    import itertools

    from barril.units import Array, ObtainQuantity, Scalar

    qts = [qt for qt, (us, cats) in B.items() if len(cats) >= 2]
    other = {qt: next(t for t in B if t != qt) for qt in qts}
    n = 0
    for qt in qts[:: max(1, len(qts) // 12)]:
        us, cats = B[qt]
        d, l, u = cats[0], cats[1], us[0]
        tq = other[qt]
        tc, tu = B[tq][1][0], B[tq][0][0]
        for how, mk in (("Scalar", lambda c_, u_: Scalar(c_, 2.0, u_)), ("Quantity", lambda c_, u_: ObtainQuantity(u_, c_)), ("Array", lambda c_, u_: Array(c_, [2.0, 4.0], u_))):
            D, L, T = mk(d, u), mk(l, u), mk(tc, tu)
            exprs = (
                ("((d*d)/l)/d", lambda: ((D * D) / L) / D), ("((d*d*t)/l)/d", lambda: ((D * D * T) / L) / D), ("((l*l)/d)/l", lambda: ((L * L) / D) / L), ("((d*l)/d)/l", lambda: ((D * L) / D) / L),
                ("(((d*d)/l)/d)*t", lambda: (((D * D) / L) / D) * T), ("((d*d)/l)/d/d", lambda: ((D * D) / L) / D / D), ("((t*d*d)/l)/d/t", lambda: ((T * D * D) / L) / D / T), ("(d/l)*l/d", lambda: (D / L) * L / D),
                ("((d*d*d)/l/l)/d", lambda: ((D * D * D) / L / L) / D),
            )  # fmt: skip
            for name, fn in exprs:
                ctx.ev()
                n += 1
                case = {"quantity_type": qt, "categories": [d, l], "unit": u, "other_factor": [tc, tu], "expression": name, "route": how}
                try:
                    o = fn()
                except Exception as e:
                    ctx.count("cross-category expression raised %s" % type(e).__name__)
                    continue
                q = o if not hasattr(o, "GetQuantity") else o.GetQuantity()
                ctx.nt(("cross-category", qt, how, name))
                left = cancelled_leftovers(q)
                if left:
                    ctx.violation("derived:categories-left-on-a-unit-whose-exponents-cancel", dict(case, leftovers=left, unit=q.GetUnit(), category=q.GetCategory()), replay=case)
                    continue
                check_quantity(ctx, db, q, case, "derived")
    ctx.count("cross-category cancellation expressions", n)


def simple(ctx, db):
    from barril.units import Array, ObtainQuantity, Scalar

    ubt = table.units_by_type(db)
    cbt = table.categories_by_type(db)
    idx = 0
    for qt, us in ubt.items():
        if qt == "Unknown":
            continue
        cats = cbt.get(qt, [])
        for u in us:
            idx += 1
            if idx % ctx.nshards != ctx.shard:
                continue
            for c in [db.GetDefaultCategory(u)] + [x for x in cats if x != db.GetDefaultCategory(u)][: (1 if ctx.tier == "quick" else 1000)]:
                ctx.ev()
                ctx.nt(("simple", u, c))
                case = {"unit": u, "category": c}
                try:
                    q = ObtainQuantity(u, c)
                    s = Scalar(q, 2.0)
                    a = Array(q, [2.0, 3.0])
                except Exception as e:
                    ctx.violation("simple:construction-raised:%s" % type(e).__name__, dict(case, error=str(e)[:160]), replay=case)
                    continue
                got = (q.GetUnit(), q.GetCategory(), q.GetQuantityType(), q.GetUnitName(), s.GetUnit(), s.GetCategory(), s.GetQuantityType(), s.GetUnitName())
                want = (u, c, qt, db.GetUnitName(qt, u)) * 2
                if got != want:
                    ctx.violation("simple:strings-differ-from-the-registered-ones", dict(case, got=list(got), expected=list(want)), replay=case)
                try:
                    sh = (repr(s), str(s), repr(a), str(a))
                except Exception as e:
                    sh = None
                    ctx.violation("simple:repr-or-str-raised:%s" % type(e).__name__, dict(case, error=str(e)[:160]), replay=case)
                if sh is not None and (u not in sh[0] or ("[%s]" % u) not in sh[1] or u not in sh[2] or ("[%s]" % u) not in sh[3]):
                    ctx.violation("simple:repr-or-str-does-not-show-the-unit", dict(case, repr=sh[0], str=sh[1], array_repr=sh[2], array_str=sh[3]), replay=case)
                # ... however many values there are (a long array's text still ends with its unit)
                if idx % 40 == 0:
                    ctx.ev()
                    try:
                        big = Array(q, [0.123456789012345 * k for k in range(3000)])
                        big_nd = Array(q, __import__("numpy").arange(3000, dtype=float) / 7.0)
                        shown_big = (repr(big), str(big), repr(big_nd), str(big_nd))
                        if any(u not in t[-(len(u) + 8):] for t in shown_big):
                            ctx.violation("simple:repr-or-str-of-a-long-array-does-not-show-the-unit", dict(case, tails=[t[-40:] for t in shown_big]), replay=case)
                    except Exception as e:
                        ctx.violation("simple:formatting-raised:long-array:%s" % type(e).__name__, dict(case, error=str(e)[:160]), replay=case)
                # ... whatever the amount: zero, negative, huge, tiny, not a number, infinite (formatting treats some of these apart)
                for label, x in (("nan", float("nan")), ("inf", float("inf")), ("-inf", float("-inf")), ("0", 0.0), ("-0", -0.0), ("huge", 1e300), ("tiny", 5e-324), ("negative", -2.5), ("int", 7)):
                    ctx.ev()
                    try:
                        sx, ax = Scalar(q, x), Array(q, [x, 1.0])
                        shown = (repr(sx), str(sx), sx.GetFormatted(), repr(ax), str(ax), "%s" % (sx,))
                    except Exception as e:
                        ctx.violation("simple:formatting-raised:%s:%s" % (label, type(e).__name__), dict(case, value=label, error=str(e)[:160]), replay=case)
                        continue
                    if u not in shown[0] or any(("[%s]" % u) not in t for t in (shown[1], shown[2], shown[4], shown[5])) or u not in shown[3]:
                        ctx.violation("simple:repr-or-str-does-not-show-the-unit:%s" % label, dict(case, value=label, shown=list(shown)), replay=case)


def run(ctx):
    from barril.units import Quantity

    probe.install()
    probe.reach([Quantity._MakeStr, Quantity._CreateUnitsWithJoinedExponentsString, Quantity.GetUnitName, Quantity.GetComposingUnitsJoiningExponents, Quantity.__init__])
    quick = ctx.tier == "quick"
    db = table.build("posc")
    with table.pushed(db):
        B = basis(db)
        ctx.rule = (
            "derived quantities from 0-3 numerator and 0-3 denominator factors (exponents 1-4, repeated quantity types under different categories and units) over %d quantity types with >= 2 atomic (letters-only, "
            "scale-only) units, built through Scalar / Array / Quantity arithmetic and CreateDerived / ObtainQuantity requests: unit string parsed by the table grammar and compared as a multiset and as text with the "
            "joined composing units; category / quantity-type / unit-name strings parsed (balanced ' * ' / ' / ' / '(x) ** n') and compared with the composing map; asked twice; repr/str show the unit; + every unit of "
            "the table as a simple quantity under its default category (thorough: every category of its type). distinct = joined (unit, exponent) multisets and (unit, category) pairs" % len(B)
        )
        ctx.assumptions = ["reference multisets are computed from the quantity's own GetCategoryToUnitAndExps() (C04 vouches for the exponent bookkeeping)", "atomic symbols only: compound table symbols would make the unit string legitimately ambiguous"]
        ctx.notes["basis"] = {"quantity_types": str(len(B)), "atomic_units": str(sum(len(v[0]) for v in B.values()))}
        derived(ctx, db, B, ctx.rng("derived"), 5000 if quick else 60000)
        simple(ctx, db)
        if ctx.shard == 1 % ctx.nshards:
            cross_category_cancellations(ctx, db, B)
        if ctx.shard == 0:
            from barril.units import Scalar

            s = Scalar("length", 2.0, "m") / Scalar("time", 2.0, "s") / Scalar("mass", 2.0, "kg")
            ctx.sample({"(m/s)/kg": {"unit": s.GetUnit(), "category": s.GetCategory(), "quantity_type": s.GetQuantityType(), "unit_name": s.GetUnitName(), "repr": repr(s)}})
    ctx.inconclusive_if(len(B) < 10, "fewer than 10 quantity types with atomic units found")
    ctx.inconclusive_if(ctx.counters.get("derived quantities with 0 numerator / 2 denominator factors", 0) + ctx.counters.get("derived quantities with 1 numerator / 2 denominator factors", 0) == 0, "no quantity with two denominator factors")


def replay(ctx, d):
    import random

    probe.install()
    db = table.build("posc")
    with table.pushed(db):
        if d and "factors" in d:
            for _ in range(5):
                o = build(random.Random(0), [tuple(f) for f in d["factors"]], d["route"])
                q = o if not hasattr(o, "GetQuantity") else o.GetQuantity()
                check_quantity(ctx, db, q, d, "derived")
        elif d and "expression" in d:
            cross_category_cancellations(ctx, db, basis(db))
        else:
            simple(ctx, db)
