"""C11 - size invariants: FixedArray dimension (>= 2) and Curve image/domain length (DESIGN.md 4, C11).

Four workloads on the real classes, one monitor (monitors/sizes.py):
  routes   every construction route x dimension 0..6 x container kind x length 0..7 (most are
           mismatches): outcome predicted by a five-line model (accept iff d >= 2 and n == d;
           inferred dimension = n), refusal must be ValueError, caller container / source untouched
  chains   1..6 copy / arithmetic / ChangingIndex / pickle steps from a valid FixedArray, refused
           attempts interleaved: every FixedArray result keeps the source dimension
  index    ChangingIndex / IndexAsScalar against the database's own float conversion
  curves   SetImage / SetDomain / property histories against a two-integer model
plus a gc sweep over *all* live FixedArray / Curve instances after every batch.
"""
import copy
import math
import pickle

from .. import probe
from ..models import conv, snapshot
from ..monitors import sizes
from ..workloads import table

SHARDS = {"quick": 4, "thorough": 16}
WATCHDOG_S = {"quick": 900, "thorough": 7200}
FLOORS = (8000, 300)

KINDS = ("list", "tuple", "nd", "ndint")
UC = [("m", "length"), ("cm", "depth"), ("km", "length"), ("s", "time"), ("min", "time"), ("degC", "temperature"), ("K", "temperature"), ("kg", "mass"), ("ft", "diameter")]


def srepr(o):
    """repr for a report: an object whose invariant is broken may not even print"""
    try:
        return repr(o)
    except Exception as e:
        return "<%s whose repr raises %s>" % (type(o).__name__, type(e).__name__)


def cont(vals, kind):
    import numpy as np

    if kind == "list":
        return list(vals)
    if kind == "tuple":
        return tuple(vals)
    if kind == "nd":
        return np.array(vals, dtype=float)
    if kind == "ndmasked":
        # a masked array has the length of its data, masked entries included
        return np.ma.masked_array(np.array(vals, dtype=float), mask=[i % 2 == 0 for i in range(len(vals))])
    return np.array([int(v) for v in vals], dtype=np.int64)


def vals_for(r, n, kind):
    if kind == "ndint":
        return [float(r.randint(-9, 9)) for _ in range(n)]
    return [r.choice([0.0, 1.0, 2.5, -3.0, 10.0, 0.125, 1e3, 7.0]) for _ in range(n)]


def csnap(c):
    return snapshot.container(c)


# --------------------------------------------------------------------------------------- routes
ROUTES = (
    "ctor(d,values,unit)", "ctor(d,category,values,unit)", "ctor(d,quantity,values)", "ctor(d,category)", "ctor(d,category,unit=)", "ctor(d,quantity)",
    "CreateWithQuantity(q,values=,dimension=)", "CreateWithQuantity(q,value=,dimension=)", "CreateWithQuantity(q,values)", "CreateWithQuantity(q,values,None,d)",
    "CreateEmptyArray(d)", "CreateEmptyArray(d,values)", "reduce-args(d replaced)", "CreateCopy(values=)", "CreateCopy(values=,unit=)", "CreateCopy(values=,unit=,category=)",
    "FromScalars", "Array-subclass-route:cls(values=,unit=,category=)",
    "CreateCopy(values=,unit=) of a category-less array", "CreateCopy(values=) of a category-less array", "CreateCopy(values=,unit=) of a dimensionless quotient",
)  # fmt: skip


def run_route(route, d, n, kind, u, c, r):
    """-> (callable, expected_ok, expected_dimension, sources[list of (label, object)])"""
    from barril.units import FixedArray, ObtainQuantity, Scalar

    if kind.startswith("unsized"):
        # a value that has no length at all (a 0-d ndarray, a numpy float) is no container of `dimension` values: every route
        # that is told a dimension refuses it (with ValueError or, the container being ill-typed, TypeError) - none accepts it
        import numpy as np

        if route in ("FromScalars", "ctor(d,category)", "ctor(d,category,unit=)", "ctor(d,quantity)", "CreateEmptyArray(d)", "reduce-args(d replaced)") or "category-less" in route or "quotient" in route:
            return None
        v = np.array(5.0) if kind == "unsized-nd0" else np.float64(5.0)
        q = ObtainQuantity(u, c)
        table_ = {
            "ctor(d,values,unit)": lambda: FixedArray(d, v, u), "ctor(d,category,values,unit)": lambda: FixedArray(d, c, v, u), "ctor(d,quantity,values)": lambda: FixedArray(d, q, v),
            "CreateWithQuantity(q,values=,dimension=)": lambda: FixedArray.CreateWithQuantity(q, values=v, dimension=d), "CreateWithQuantity(q,value=,dimension=)": lambda: FixedArray.CreateWithQuantity(q, value=v, dimension=d),
            "CreateWithQuantity(q,values,None,d)": lambda: FixedArray.CreateWithQuantity(q, v, None, d), "CreateEmptyArray(d,values)": lambda: FixedArray.CreateEmptyArray(d, v),
        }  # fmt: skip
        if route in table_:
            return table_[route], "unsized", d, []
        if route.startswith("CreateCopy(values=") and d >= 2:
            a = FixedArray(d, q, [1.0] * d)
            kw = {"unit": u} if "unit=" in route else {}
            return (lambda: a.CreateCopy(values=v, **kw)), "unsized", d, [("array", a)]
        return None
    if kind.startswith("rows"):
        # a container of rows (points): what counts is the number of rows, whatever their width - also when the
        # width happens to equal the dimension
        if route == "FromScalars":
            return None
        w = max(1, r.choice([d, d, 2, 3]))
        vals = [tuple(vals_for(r, w, "list")) for _ in range(n)]
        v = list(vals) if kind == "rows-list" else tuple(vals)
        kind = "list"
    else:
        vals = vals_for(r, n, kind)
        v = cont(vals, kind)
    src = [("values", v)]
    q = ObtainQuantity(u, c)
    ok_dn = d >= 2 and n == d
    if route == "ctor(d,values,unit)":
        return (lambda: FixedArray(d, v, u)), ok_dn, d, src
    if route == "ctor(d,category,values,unit)":
        return (lambda: FixedArray(d, c, v, u)), ok_dn, d, src
    if route == "ctor(d,quantity,values)":
        return (lambda: FixedArray(d, q, v)), ok_dn, d, src
    if route == "ctor(d,category)":
        return (lambda: FixedArray(d, c)), d >= 2, d, []
    if route == "ctor(d,category,unit=)":
        return (lambda: FixedArray(d, c, unit=u)), d >= 2, d, []
    if route == "ctor(d,quantity)":
        return (lambda: FixedArray(d, q)), d >= 2, d, []
    if route == "CreateWithQuantity(q,values=,dimension=)":
        return (lambda: FixedArray.CreateWithQuantity(q, values=v, dimension=d)), ok_dn, d, src
    if route == "CreateWithQuantity(q,value=,dimension=)":
        return (lambda: FixedArray.CreateWithQuantity(q, value=v, dimension=d)), ok_dn, d, src
    if route == "CreateWithQuantity(q,values)":
        return (lambda: FixedArray.CreateWithQuantity(q, v)), n >= 2, n, src
    if route == "CreateWithQuantity(q,values,None,d)":
        return (lambda: FixedArray.CreateWithQuantity(q, v, None, d)), ok_dn, d, src
    if route == "CreateEmptyArray(d)":
        return (lambda: FixedArray.CreateEmptyArray(d)), d >= 2, d, []
    if route == "CreateEmptyArray(d,values)":
        return (lambda: FixedArray.CreateEmptyArray(d, v)), ok_dn, d, src
    if route == "reduce-args(d replaced)":
        # the pickling route fed with mismatching inputs: the reconstruction callable and arguments
        # __reduce__ hands to pickle, with the dimension replaced
        if n < 2:
            return None
        a = FixedArray(n, q, v)
        fn, args = a.__reduce__()
        args = (d,) + tuple(args[1:])
        return (lambda: fn(*args)), ok_dn, d, src + [("array", a)]
    if route.startswith("CreateCopy(values=") and "category-less" not in route and "quotient" not in route:
        if d < 2:
            return None
        a = FixedArray(d, q, cont(vals_for(r, d, kind), r.choice(KINDS[:3])))
        kw = {}
        if "unit=" in route:
            kw["unit"] = r.choice([x for x, cc in UC if cc == c or (x, c) in UC or _same_type(x, u)])
        if "category=" in route:
            kw["category"] = c
        return (lambda: a.CreateCopy(values=v, **kw)), n == d, d, src + [("array", a)]
    if "category-less" in route or "dimensionless quotient" in route:
        # sources without a category: an array of an empty quantity, and what array / array leaves
        if d < 2:
            return None
        if "quotient" in route:
            fa = FixedArray(d, q, cont([1.0 + i for i in range(d)], r.choice(KINDS[:3])))
            a = fa / fa
        else:
            a = FixedArray.CreateEmptyArray(d, cont(vals_for(r, d, "list"), r.choice(KINDS[:3])))
            if r.random() < 0.3:
                a = a.CreateCopy()
        kw = {"unit": u} if "unit=" in route else {}
        return (lambda: a.CreateCopy(values=v, **kw)), n == d, d, src + [("array", a)]
    if route == "FromScalars":
        ss = [Scalar(c, x, u) for x in vals]
        src = [("scalars", tuple(ss))]
        # FromScalars builds cls(values=..., unit=..., category=...): FixedArray's constructor takes the
        # dimension first, so this inherited classmethod cannot build a FixedArray; whatever it does it
        # must not hand out a FixedArray whose size invariant is broken
        return (lambda: FixedArray.FromScalars(ss)), None, None, []
    if route == "Array-subclass-route:cls(values=,unit=,category=)":
        return (lambda: FixedArray(values=v, unit=u, category=c)), None, None, src
    raise AssertionError(route)


_TYPE = {}


def _same_type(u1, u2):
    return _TYPE.get(u1) == _TYPE.get(u2)


def routes(ctx, r, n_cases):
    from barril.units import FixedArray

    for _ in range(n_cases):
        route = r.choice(ROUTES)
        d = r.choice([0, 1, 2, 2, 3, 3, 4, 5, 6])
        n = d if r.random() < 0.4 else r.randint(0, 7)
        kind = r.choice(KINDS + ("rows-list", "rows-tuple", "unsized-nd0", "unsized-npfloat", "ndmasked"))
        u, c = r.choice(UC)
        try:
            built = run_route(route, d, n, kind, u, c, r)
        except Exception as e:  # building the *valid* source failed: a defect of another kind, report it
            ctx.ev()
            ctx.violation("route-setup-raised:%s" % route, {"route": route, "d": d, "n": n, "kind": kind, "error": repr(e)[:200]})
            continue
        if built is None:
            continue
        fn, exp_ok, exp_dim, sources = built
        case = {"route": route, "dimension": d, "len": n, "container": kind, "unit": u, "category": c}
        before = [(lbl, snapshot.value_object(o) if hasattr(o, "GetQuantity") else csnap(o)) for lbl, o in sources]
        ctx.ev()
        ctx.nt((route, d, n, kind))
        res = exc = None
        try:
            res = fn()
            KEEP.append(res)
        except Exception as e:
            exc = e
        after = [(lbl, snapshot.value_object(o) if hasattr(o, "GetQuantity") else csnap(o)) for lbl, o in sources]
        if before != after:
            ctx.violation("source-changed:%s" % route, dict(case, before=repr(before)[:300], after=repr(after)[:300], outcome=repr(exc or res)[:120]), replay=case)
        if exp_ok == "unsized":
            if exc is None:
                ctx.violation("unsized-value-accepted:%s" % route, dict(case, result=srepr(res)[:160]), replay=case)
            elif not isinstance(exc, (ValueError, TypeError)):
                ctx.violation("refusal-not-ValueError:%s:%s" % (route, type(exc).__name__), dict(case, error=str(exc)[:200]), replay=case)
            else:
                ctx.count("refused")
            continue
        if exc is None:
            ctx.count("accepted")
            if isinstance(res, FixedArray):
                p = sizes.check_fixedarray(res)
                if p:
                    ctx.violation("invariant-broken:%s" % route, dict(case, problem=p, result=srepr(res)[:160]), replay=case)
                    continue
            if exp_ok is None:
                continue
            if not isinstance(res, FixedArray):
                ctx.violation("not-a-FixedArray:%s" % route, dict(case, result=srepr(res)[:160]), replay=case)
            elif not exp_ok:
                ctx.violation("mismatch-accepted:%s" % route, dict(case, result=srepr(res)[:160], result_dimension=res.dimension), replay=case)
            elif res.dimension != exp_dim:
                ctx.violation("wrong-dimension:%s" % route, dict(case, result_dimension=res.dimension, expected=exp_dim), replay=case)
        else:
            ctx.count("refused")
            if exp_ok is None:
                continue
            if exp_ok:
                ctx.violation("valid-refused:%s:%s" % (route, type(exc).__name__), dict(case, error=str(exc)[:200]), replay=case)
            elif not isinstance(exc, ValueError):
                ctx.violation("refusal-not-ValueError:%s:%s" % (route, type(exc).__name__), dict(case, error=str(exc)[:200]), replay=case)


# --------------------------------------------------------------------------------------- chains
def chains(ctx, r, n_chains):
    import numpy as np
    from barril.units import Array, FixedArray, ObtainQuantity, Scalar

    for ci in range(n_chains):
        d = r.randint(2, 6)
        u, c = r.choice(UC)
        kind = r.choice(KINDS[:3])
        cur = FixedArray(d, c, cont(vals_for(r, d, kind), kind), u)
        steps = []
        for si in range(r.randint(1, 6)):
            k = r.choice(
                ["CreateCopy()", "CreateCopy(values)", "CreateCopy(unit)", "copy", "deepcopy", "pickle", "+fixed", "-array", "*number", "number-", "number/", "*nd", "nd*", "*nd1", "+fixed(other unit)",
                 "ChangingIndex", "bad:+fixed", "bad:+array", "bad:*nd", "bad:CreateCopy(values)", "bad:array+", "*fixed", "/fixed", "Copy", "neg-index ChangingIndex", "CheckValues(other size)"]
            )  # fmt: skip
            m = d + r.choice([-1, 1, 2]) if r.random() < 0.8 else r.choice([0, 1])
            m = max(0, m)
            if m == d:
                m = d + 1
            cu, cc = cur.GetUnit(), cur.GetCategory()
            alt = [x for x, _c in UC if _same_type(x, cu)] if cu in _TYPE else []
            simple = not cur.GetQuantity().IsDerived() and bool(cc)
            before = snapshot.value_object(cur)
            exp_bad = k.startswith("bad:")
            res = exc = None
            try:
                if k == "CreateCopy()":
                    res = cur.CreateCopy()
                elif k == "CreateCopy(values)":
                    res = cur.CreateCopy(values=cont(vals_for(r, d, kind), r.choice(KINDS)))
                elif k == "CreateCopy(unit)":
                    if not (simple and alt):
                        continue
                    res = cur.CreateCopy(unit=r.choice(alt))
                elif k == "copy":
                    res = copy.copy(cur)
                elif k == "deepcopy":
                    res = copy.deepcopy(cur)
                elif k == "Copy":
                    res = cur.Copy()
                elif k == "pickle":
                    res = pickle.loads(pickle.dumps(cur))
                elif k == "+fixed":
                    res = cur + FixedArray(d, cur.GetQuantity(), cont(vals_for(r, d, kind), r.choice(KINDS[:3])))
                elif k == "+fixed(other unit)":
                    if not (simple and alt):
                        continue
                    res = cur + FixedArray(d, cc, cont(vals_for(r, d, kind), r.choice(KINDS[:3])), r.choice(alt))
                elif k == "-array":
                    res = cur - Array(cur.GetQuantity(), cont(vals_for(r, d, kind), r.choice(KINDS[:3])))
                elif k in ("*fixed", "/fixed"):
                    if len(cur.GetQuantity().GetComposingCategories()) > 3:
                        continue
                    u2, c2 = r.choice(UC)
                    o = FixedArray(d, c2, cont([1.0 + abs(x) for x in vals_for(r, d, kind)], r.choice(KINDS[:3])), u2)
                    res = cur * o if k == "*fixed" else cur / o
                elif k == "*number":
                    res = cur * r.choice([2, 0.5, np.float64(3.0), True])
                elif k == "number-":
                    res = r.choice([2, 0.5, np.float64(3.0)]) - cur
                elif k == "number/":
                    res = r.choice([2, 0.5]) / cur.CreateCopy(values=cont([1.0 + abs(x) for x in vals_for(r, d, kind)], kind))
                elif k == "*nd":
                    res = cur * np.array(vals_for(r, d, "nd"))
                elif k == "nd*":
                    res = np.array(vals_for(r, d, "nd")) * cur
                elif k == "*nd1":
                    res = cur * np.array([2.0])
                elif k in ("ChangingIndex", "neg-index ChangingIndex"):
                    i = r.randrange(d) if k == "ChangingIndex" else -r.randint(1, d)
                    if simple:
                        amount = r.choice([5.0, (5.0,), Scalar(cc, 5.0, cu), Scalar(5.0, cu)] + ([Scalar(cc, 5.0, r.choice(alt)), (5.0, r.choice(alt))] if alt else []))
                    else:
                        amount = Scalar(cur.GetQuantity(), 5.0)
                    res = cur.ChangingIndex(i, amount, r.choice([True, False]))
                elif k == "CheckValues(other size)":
                    # the public size check, asked about another (valid) size and about a wrong one: a question only
                    try:
                        cur.CheckValues([0.0] * m if m >= 2 else [0.0, 0.0], m if m >= 2 else 2)
                    except ValueError:
                        pass
                    p0 = sizes.check_fixedarray(cur)
                    if p0 or cur.dimension != d:
                        ctx.violation("CheckValues-changed-the-array-it-was-asked-on", {"start_dimension": d, "asked_about": m, "problem": p0 or "dimension is now %r" % (cur.dimension,), "steps": list(steps) + [k]})
                        break
                    try:
                        cur.CheckValues([0.0] * (d + 1))
                    except ValueError:
                        pass
                    res = cur.CreateCopy()
                elif k == "bad:+fixed":
                    if m < 2:
                        continue
                    res = cur + FixedArray(m, cur.GetQuantity(), cont(vals_for(r, m, kind), r.choice(KINDS[:3])))
                elif k == "bad:+array":
                    res = cur + Array(cur.GetQuantity(), cont(vals_for(r, m, kind), r.choice(KINDS[:3])))
                elif k == "bad:array+":
                    res = Array(cur.GetQuantity(), cont(vals_for(r, m, kind), r.choice(KINDS[:3]))) + cur
                elif k == "bad:*nd":
                    if m == 1:
                        continue  # a length-1 ndarray is a legal (broadcast) number-like operand
                    res = cur * np.array(vals_for(r, m, "nd"))
                elif k == "bad:CreateCopy(values)":
                    res = cur.CreateCopy(values=cont(vals_for(r, m, kind), r.choice(KINDS)))
            except Exception as e:
                exc = e
            steps.append(k)
            case = {"start_dimension": d, "unit": u, "category": c, "container": kind, "steps": list(steps), "other_len": m if exp_bad else None}
            ctx.ev()
            ctx.nt(("chain", k, d, type(cur.GetValues()).__name__))
            if snapshot.value_object(cur) != before:
                ctx.violation("chain-source-changed:%s" % k, dict(case, before=repr(before)[:300], after=repr(snapshot.value_object(cur))[:300]), replay=case)
            if exc is not None:
                if exp_bad:
                    ctx.count("chain refused attempts")
                    if not isinstance(exc, ValueError):
                        ctx.violation("chain-refusal-not-ValueError:%s:%s" % (k, type(exc).__name__), dict(case, error=str(exc)[:200]), replay=case)
                else:
                    ctx.violation("chain-step-raised:%s:%s" % (k, type(exc).__name__), dict(case, error=str(exc)[:200]), replay=case)
                continue
            if isinstance(res, FixedArray):
                p = sizes.check_fixedarray(res)
                if p:
                    ctx.violation("chain-invariant-broken:%s" % k, dict(case, problem=p, result=srepr(res)[:160]), replay=case)
                    break
                if res.dimension != d:
                    ctx.violation("chain-dimension-changed:%s" % k, dict(case, result_dimension=res.dimension), replay=case)
                    break
            if exp_bad:
                ctx.violation("chain-mismatch-accepted:%s" % k, dict(case, result=srepr(res)[:160]), replay=case)
                continue
            if not isinstance(res, FixedArray):
                ctx.violation("chain-result-not-FixedArray:%s" % k, dict(case, result=srepr(res)[:160]), replay=case)
                break
            cur = res
            KEEP.append(res)


# ---------------------------------------------------------------------------------------- index
def short_lived(ctx, db, aff, r, n_rounds):
    """IndexAsScalar / ChangingIndex on arrays that live for one question only: each array is created, asked once in
    another unit and dropped, and the next one (other values, same size - the allocator hands out the same address
    again and again) is asked the same. Anything remembered per object identity answers with a dead array's amounts."""
    from barril.units import FixedArray, ObtainQuantity

    pairs = [("length", "m", "cm"), ("length", "km", "ft"), ("time", "s", "min"), ("temperature", "degC", "K"), ("mass", "kg", "g")]
    reused = 0
    for c, u, v in pairs:
        q = ObtainQuantity(v, c)
        seen_ids = set()
        for k in range(n_rounds):
            d = 3
            vals = [float(k + 1), float(r.randint(-50, 50)), 0.5 * k]
            kind = ("list", "tuple", "nd")[k % 3]
            a = FixedArray(d, c, cont(vals, kind), u)
            reused += id(a) in seen_ids
            seen_ids.add(id(a))
            i = k % d
            ctx.ev()
            ctx.nt(("short-lived", c, kind, i))
            s = a.IndexAsScalar(i, q)
            ok, exp = near(ctx, aff, s.GetValue(), vals[i], u, v)
            if not ok:
                ctx.violation("IndexAsScalar-value:short-lived-array", {"category": c, "unit": u, "asked_in": v, "values": vals, "index": i, "observed": s.GetValue(), "expected": exp, "round": k})
                break
            b = a.ChangingIndex(i, (None, v))
            ok2 = all(near(ctx, aff, g, x, u, v)[0] for g, x in zip(b.GetValues(), vals))
            if not ok2:
                ctx.violation("ChangingIndex-values:short-lived-array", {"category": c, "unit": u, "asked_in": v, "values": vals, "observed": list(b.GetValues()), "round": k})
                break
            del a, s, b
    ctx.count("short-lived arrays allocated at an address used before", reused)


def near(ctx, aff, obs, x, u, v):
    """obs ~ Convert(u -> v, x) judged against the database's own float conversion + error scale."""
    au, av = aff[u], aff[v]
    exp = (au.off + au.slope * x - av.off) / av.slope if u != v else x
    tol = conv.tol_in(av, conv.base_err(au, x, av), exp, 16.0) if u != v else 0.0
    return abs(float(obs) - exp) <= tol, exp


def index_ops(ctx, db, aff, r, n_cases):
    from barril.units import FixedArray, ObtainQuantity, Scalar

    ubt = {qt: [u for u in us if u in aff and aff[u].exact and aff[u].slope > 0] for qt, us in table.units_by_type(db).items() if qt != "Unknown"}
    cbt = table.categories_by_type(db)
    qts = [qt for qt in ubt if len(ubt[qt]) >= 2 and qt in cbt]
    for _ in range(n_cases):
        qt = r.choice(qts)
        u, v = r.choice(ubt[qt]), r.choice(ubt[qt])
        c, c2 = r.choice(cbt[qt]), r.choice(cbt[qt])
        d = r.randint(2, 5)
        kind = r.choice(KINDS)
        vals = vals_for(r, d, kind)
        try:
            a = FixedArray(d, c, cont(vals, kind), u)
        except Exception:
            continue
        i = r.randrange(-d, d)
        x = r.choice([5.0, 0.25, -2.0, 1e3, 0.0, 12.5])
        # an amount (or a target quantity) without any unit cannot re-express the items that are not addressed: the call is
        # refused - or, if it answers, every other item is still the amount it was
        if _ % 9 == 0:
            from barril.units import Quantity as _Q

            for how, fn in (("ChangingIndex(i, unit-less Scalar)", lambda: a.ChangingIndex(i, Scalar.CreateEmptyScalar(x))), ("IndexAsScalar(i, unit-less quantity)", lambda: a.IndexAsScalar(i, _Q.CreateEmpty())),
                            ("ChangingIndex(i, unit-less Scalar, keep unit)", lambda: a.ChangingIndex(i, Scalar.CreateEmptyScalar(x), use_value_unit=False))):  # fmt: skip
                ctx.ev()
                case = {"qt": qt, "unit": u, "category": c, "values": vals, "container": kind, "index": i, "how": how}
                try:
                    res = fn()
                except Exception:
                    ctx.count("unit-less amounts / quantities refused by the index operations")
                    continue
                ctx.count("unit-less amounts / quantities answered by the index operations")
                others_same = True
                try:
                    if isinstance(res, FixedArray):
                        for j in range(d):
                            if j != i % d and not (res.IndexAsScalar(j).GetQuantityType() == qt and abs(res.IndexAsScalar(j).GetValue(u) - float(vals[j])) <= 1e-9 * (abs(float(vals[j])) + 1.0)):
                                others_same = False
                    else:
                        others_same = res.GetQuantityType() == qt and abs(res.GetValue(u) - float(vals[i % d])) <= 1e-9 * (abs(float(vals[i % d])) + 1.0)
                except Exception:
                    others_same = False
                if not others_same:
                    ctx.violation("index-operation-with-a-unit-less-amount-relabels-the-array", dict(case, result=srepr(res)[:160]), replay=case)
        form = r.choice(["number", "int", "(v,)", "(v,unit)", "Scalar(same unit)", "Scalar(other unit)", "Scalar(other category)", "Scalar(default category)"])
        use = r.choice([True, False])
        if form == "number":
            amount, au_, exp_q = x, u, a.GetQuantity()
        elif form == "int":
            x = float(int(x))
            amount, au_, exp_q = int(x), u, a.GetQuantity()
        elif form == "(v,)":
            amount, au_, exp_q = (x,), u, a.GetQuantity()
        elif form == "(v,unit)":
            amount, au_, exp_q = (x, v), v, ObtainQuantity(v, c)
        elif form == "Scalar(same unit)":
            amount, au_ = Scalar(c, x, u), u
            exp_q = amount.GetQuantity()
        elif form == "Scalar(other unit)":
            amount, au_ = Scalar(c, x, v), v
            exp_q = amount.GetQuantity()
        elif form == "Scalar(other category)":
            amount, au_ = Scalar(c2, x, v), v
            exp_q = amount.GetQuantity()
        else:
            amount, au_ = Scalar(x, v), v
            exp_q = amount.GetQuantity()
        if not use:
            exp_q = a.GetQuantity()
        case = {"qt": qt, "unit": u, "category": c, "values": vals, "container": kind, "index": i, "amount": repr(amount), "form": form, "use_value_unit": use}
        before = snapshot.value_object(a)
        sb = snapshot.value_object(amount) if hasattr(amount, "GetQuantity") else None
        ctx.ev()
        ctx.nt(("ChangingIndex", form, use, kind, u != v))
        try:
            res = a.ChangingIndex(i, amount, use)
        except Exception as e:
            ctx.violation("ChangingIndex-raised:%s:%s" % (form, type(e).__name__), dict(case, error=str(e)[:200]), replay=case)
            continue
        if snapshot.value_object(a) != before or (sb is not None and snapshot.value_object(amount) != sb):
            ctx.violation("ChangingIndex-changed-its-source:%s" % form, dict(case, before=repr(before)[:300], after=repr(snapshot.value_object(a))[:300]), replay=case)
        if res is a:
            ctx.violation("ChangingIndex-returned-the-source", case, replay=case)
        p = sizes.check_fixedarray(res) if isinstance(res, FixedArray) else "result is %s" % type(res).__name__
        if p or res.dimension != d:
            ctx.violation("ChangingIndex-size:%s" % form, dict(case, problem=p or "dimension %r != %r" % (res.dimension, d)), replay=case)
            continue
        if res.GetQuantity() != exp_q:
            ctx.violation(
                "ChangingIndex-quantity:%s:use_value_unit=%s" % (form, use),
                dict(case, result_category=res.GetCategory(), result_unit=res.GetUnit(), expected_category=exp_q.GetCategory(), expected_unit=exp_q.GetUnit()), replay=case,
            )  # fmt: skip
            continue
        ru = res.GetUnit()
        rv = list(res.GetValues())
        ii = i % d
        for j in range(d):
            if j == ii:
                ok, exp = near(ctx, aff, rv[j], x, au_, ru)
                what = "changed-element-differs-from-the-amount"
            else:
                ok, exp = near(ctx, aff, rv[j], vals[j], u, ru)
                what = "other-element-changed"
            if not ok:
                ctx.violation("ChangingIndex-%s:%s" % (what, form), dict(case, element=j, observed=rv[j], expected=exp, result_unit=ru), replay=case)
                break
        # IndexAsScalar
        q = r.choice([None, ObtainQuantity(v, c), ObtainQuantity(v, c2), ObtainQuantity(u, c)])
        case2 = {"qt": qt, "unit": u, "category": c, "values": vals, "container": kind, "index": i, "quantity": None if q is None else [q.GetUnit(), q.GetCategory()]}
        ctx.ev()
        ctx.nt(("IndexAsScalar", q is None, kind, u != v))
        try:
            s = a.IndexAsScalar(i) if q is None else a.IndexAsScalar(i, q)
        except Exception as e:
            ctx.violation("IndexAsScalar-raised:%s" % type(e).__name__, dict(case2, error=str(e)[:200]), replay=case2)
            continue
        eq = q if q is not None else a.GetQuantity()
        if not isinstance(s, Scalar) or s.GetQuantity() != eq:
            ctx.violation("IndexAsScalar-quantity", dict(case2, result=repr(s)[:100], result_category=getattr(s, "category", None)), replay=case2)
            continue
        ok, exp = near(ctx, aff, s.GetValue(), vals[ii], u, eq.GetUnit())
        if not ok:
            ctx.violation("IndexAsScalar-value", dict(case2, observed=s.GetValue(), expected=exp), replay=case2)
        if snapshot.value_object(a) != before:
            ctx.violation("IndexAsScalar-changed-its-source", case2, replay=case2)
        # out-of-range index: no result
        for bad_i in (d, -d - 1):
            ctx.ev()
            for nm, f in (("ChangingIndex", lambda: a.ChangingIndex(bad_i, 1.0)), ("IndexAsScalar", lambda: a.IndexAsScalar(bad_i))):
                try:
                    rr = f()
                    ctx.violation("%s-out-of-range-index-accepted" % nm, dict(case2, index=bad_i, result=repr(rr)[:100]), replay=case2)
                except Exception:
                    pass
            if snapshot.value_object(a) != before:
                ctx.violation("out-of-range-index-changed-its-source", dict(case2, index=bad_i), replay=case2)


# --------------------------------------------------------------------------------------- curves
def unitless_sources(ctx):
    """ChangingIndex on arrays that carry no unit at all (CreateEmptyArray, a ratio whose units cancel), in every container:
    whatever the call answers - a new array or a refusal - the source still holds what it held, a second call from the same
    source starts from the same values, and a result is a well-sized array that is not the source."""
    import numpy as np
    from barril.units import FixedArray, Scalar

    base = [1.0, 2.0, 3.0]
    sources = []
    for kind in ("list", "tuple", "nd"):
        mk = {"list": list, "tuple": tuple, "nd": lambda z: np.array(z, dtype=float)}[kind]
        sources.append(("CreateEmptyArray(3, %s)" % kind, lambda mk=mk: FixedArray.CreateEmptyArray(3, mk(base)), base))
        sources.append(("ratio of two %s arrays in m" % kind, lambda mk=mk: FixedArray(3, mk([2.0, 4.0, 6.0]), "m") / FixedArray(3, mk([2.0, 2.0, 2.0]), "m"), base))
        sources.append(("product m * 1/m of %s arrays" % kind, lambda mk=mk: FixedArray(3, mk(base), "m") * FixedArray(3, mk([1.0, 1.0, 1.0]), "1/m"), base))
    sources.append(("CreateEmptyArray(2)", lambda: FixedArray.CreateEmptyArray(2), [0.0, 0.0]))
    amounts = [("Scalar in m", lambda: Scalar(5.0, "m")), ("(x, 'm')", lambda: (5.0, "m")), ("number", lambda: 5.0), ("unit-less Scalar", lambda: Scalar.CreateEmptyScalar(5.0)), ("Scalar in degC", lambda: Scalar(5.0, "degC")), ("(None, 'm')", lambda: (None, "m"))]
    for sname, mk, want in sources:
        try:
            src = mk()
        except Exception as e:
            ctx.count("unit-less sources that could not be built")
            continue
        first = snapshot.value_object(src)
        for aname, am in amounts:
            for use in (True, False):
                for i in (0, -1, 1):
                    ctx.ev()
                    ctx.nt(("unit-less source", sname, aname, use))
                    case = {"source": sname, "amount": aname, "use_value_unit": use, "index": i}
                    try:
                        res = src.ChangingIndex(i, am(), use)
                    except Exception:
                        ctx.count("unit-less source: ChangingIndex refused")
                        res = None
                    if snapshot.value_object(src) != first:
                        ctx.violation("ChangingIndex-changed-its-source:unit-less source", dict(case, before=repr(first)[:200], after=repr(snapshot.value_object(src))[:200]), replay={"unitless_sources": True})
                        src = mk()
                        first = snapshot.value_object(src)
                        continue
                    if res is None:
                        continue
                    ctx.count("unit-less source: ChangingIndex answered")
                    if res is src:
                        ctx.violation("ChangingIndex-returned-the-source", case, replay={"unitless_sources": True})
                    p = sizes.check_fixedarray(res) if isinstance(res, FixedArray) else "result is %s" % type(res).__name__
                    if p or res.dimension != len(want):
                        ctx.violation("ChangingIndex-size:unit-less source", dict(case, problem=p or "dimension %r" % res.dimension), replay={"unitless_sources": True})
                        continue
                    # the items that were not addressed are the (unit-less) numbers they were
                    rv = [float(t) for t in res.GetValues()]
                    ii = i % len(want)
                    if [t for j, t in enumerate(rv) if j != ii] != [float(t) for j, t in enumerate(want) if j != ii]:
                        ctx.violation("ChangingIndex-other-element-changed:unit-less source", dict(case, observed=rv, source_values=want), replay={"unitless_sources": True})


def both_names_for_the_values(ctx):
    """The internal constructor knows the value container under two names (`values`, and `value` as the base class calls
    it). Given both - equal or not in length - the call is refused, or what it builds is a well-sized FixedArray."""
    from barril.units import FixedArray, ObtainQuantity

    q = ObtainQuantity("m", "length")
    for label, args, kw in (
        ("3 and 1, inferred", ([1.0, 2.0, 3.0],), dict(value=[9.0])), ("3 and 1, dimension 3", ([1.0, 2.0, 3.0],), dict(dimension=3, value=[9.0])), ("3 and 0, dimension 3", ([1.0, 2.0, 3.0],), dict(dimension=3, value=[])),
        ("2 and 5, inferred", ((1.0, 2.0),), dict(value=(1.0, 2.0, 3.0, 4.0, 5.0))), ("1 and 3, dimension 3", ([1.0],), dict(dimension=3, value=[1.0, 2.0, 3.0])), ("3 and 3", ([1.0, 2.0, 3.0],), dict(value=[4.0, 5.0, 6.0])),
        ("keywords, 4 and 2", (), dict(values=[1.0, 2.0, 3.0, 4.0], value=[1.0, 2.0])), ("keywords, 2 and 4, dimension 2", (), dict(values=[1.0, 2.0], value=[1.0, 2.0, 3.0, 4.0], dimension=2)),
    ):  # fmt: skip
        ctx.ev()
        ctx.nt(("both names", label))
        try:
            res = FixedArray.CreateWithQuantity(q, *args, **kw)
        except Exception:
            ctx.count("both names for the values: refused")
            continue
        ctx.count("both names for the values: accepted")
        p = sizes.check_fixedarray(res)
        if p:
            ctx.violation("CreateWithQuantity(values=, value=)-size", {"given": label, "problem": p, "result": srepr(res)[:160]}, replay={"both_names": True})


def dimensions_that_are_no_whole_numbers(ctx):
    """A dimension that is not a whole number (2.5, numpy.float64(2.5), 3.9, 5/2) with as many values as its integer part:
    no such array exists - the attempt is refused, on every route that takes a dimension; and what a refused attempt leaves
    behind on the route is nothing (the gc sweep looks at every live FixedArray afterwards)."""
    import numpy as np
    from barril.units import FixedArray, ObtainQuantity

    q = ObtainQuantity("m", "length")
    n = 0
    for d in (2.5, np.float64(2.5), 3.9, 5 / 2, np.float32(2.5), 2.0000001):
        k = int(d)
        vals = [1.0, 2.0, 3.0][:k]
        for rname, fn in (
            ("FixedArray(d, values, unit)", lambda: FixedArray(d, list(vals), "m")), ("FixedArray(d, category, values, unit)", lambda: FixedArray(d, "length", tuple(vals), "m")), ("FixedArray(d, quantity, values)", lambda: FixedArray(d, q, np.array(vals))),
            ("CreateWithQuantity(dimension=d)", lambda: FixedArray.CreateWithQuantity(q, list(vals), dimension=d)), ("CreateEmptyArray(d, values)", lambda: FixedArray.CreateEmptyArray(d, list(vals))), ("CreateWithQuantity(value=, dimension=d)", lambda: FixedArray.CreateWithQuantity(q, value=list(vals), dimension=d)),
        ):  # fmt: skip
            ctx.ev()
            n += 1
            ctx.nt(("fractional dimension", repr(d), rname))
            try:
                res = fn()
            except Exception:
                ctx.count("fractional dimensions refused")
                continue
            ctx.count("fractional dimensions accepted")
            try:
                size, dim = len(res.GetValues()), res.dimension
            except Exception as e:
                size, dim = "raised %s" % type(e).__name__, None
            if size != dim:
                ctx.violation("fixedarray-size:dimension-that-is-no-whole-number", {"route": rname, "dimension_given": repr(d), "dimension": repr(dim), "len(values)": size, "result": srepr(res)[:160]}, replay={"fractional_dimensions": True})
    ctx.count("attempts with a dimension that is no whole number", n)


def curves(ctx, r, n_hist):
    from barril.curve.curve import Curve
    from barril.units import Array, FixedArray

    def arr(n, u):
        import numpy as np

        kind = r.choice(KINDS[:3])
        k = r.random()
        if n >= 2 and k < 0.2:
            return FixedArray(n, cont(vals_for(r, n, kind), kind), u)
        if k < 0.4:
            # nested containers: the length of an Array is its number of items (points), not of numbers
            w = r.choice([1, 2, 3])
            rows = [tuple(vals_for(r, w, kind)) for _ in range(n)]
            nested = r.choice(["list-of-tuples", "tuple-of-tuples", "2-D ndarray"])
            if nested == "list-of-tuples":
                return Array(rows, u)
            if nested == "tuple-of-tuples":
                return Array(tuple(rows), u)
            return Array(np.array(rows, dtype=float).reshape(n, w), u)
        return Array(cont(vals_for(r, n, kind), kind), u)

    for _ in range(n_hist):
        ni, nd = r.randint(0, 4), r.randint(0, 4)
        if r.random() < 0.5:
            nd = ni
        img, dom = arr(ni, "m"), arr(nd, "s")
        hist = [("Curve", ni, nd)]
        ctx.ev()
        try:
            c = Curve(img, dom)
            KEEP.append(c)
        except Exception as e:
            if ni == nd:
                ctx.violation("Curve-valid-refused:%s" % type(e).__name__, {"history": hist, "error": str(e)[:200]}, replay={"history": hist})
            elif not isinstance(e, ValueError):
                ctx.violation("Curve-refusal-not-ValueError:%s" % type(e).__name__, {"history": hist, "error": str(e)[:200]}, replay={"history": hist})
            continue
        if ni != nd:
            ctx.violation("Curve-mismatch-accepted:constructor", {"history": hist}, replay={"history": hist})
            continue
        n = ni
        for _s in range(r.randint(1, 20)):
            how = r.choice(["SetImage", "SetDomain", "image=", "domain=", "SetValues"])
            m = n if r.random() < 0.45 else r.randint(0, 4)
            new = arr(m, "m" if how in ("SetImage", "image=", "SetValues") else "s")
            if r.random() < 0.08:
                # an Array over a value that has no length (a 0-d ndarray): whatever the refusal is called, the curve stays as it was
                import numpy as np

                m, new = "unsized", Array(np.array(5.0), "m" if how in ("SetImage", "image=", "SetValues") else "s")
            hist.append((how, m))
            i0, d0 = c.GetImage(), c.GetDomain()
            ctx.ev()
            ctx.nt(("curve", how, m == n, n))
            exc = None
            try:
                if how == "SetImage":
                    c.SetImage(new)
                elif how == "SetDomain":
                    c.SetDomain(new)
                elif how == "image=":
                    c.image = new
                elif how == "domain=":
                    c.domain = new
                else:
                    c.SetValues(new)
            except Exception as e:
                exc = e
            case = {"history": list(hist)}
            p = sizes.check_curve(c)
            if p:
                ctx.violation("Curve-lengths-differ-after:%s" % how, dict(case, problem=p), replay=case)
                break
            if m == n:
                if exc is not None:
                    ctx.violation("Curve-valid-refused:%s:%s" % (how, type(exc).__name__), dict(case, error=str(exc)[:200]), replay=case)
                else:
                    tgt = c.GetImage() if how in ("SetImage", "image=", "SetValues") else c.GetDomain()
                    oth, oth0 = (c.GetDomain(), d0) if how in ("SetImage", "image=", "SetValues") else (c.GetImage(), i0)
                    if tgt is not new or oth is not oth0:
                        ctx.violation("Curve-accepted-call-not-applied:%s" % how, case, replay=case)
            else:
                ctx.count("curve refused")
                if exc is None:
                    ctx.violation("Curve-mismatch-accepted:%s" % how, case, replay=case)
                elif not isinstance(exc, (ValueError, TypeError) if m == "unsized" else ValueError):
                    ctx.violation("Curve-refusal-not-ValueError:%s:%s" % (how, type(exc).__name__), dict(case, error=str(exc)[:200]), replay=case)
                if c.GetImage() is not i0 or c.GetDomain() is not d0:
                    ctx.violation("Curve-refused-call-changed-it:%s" % how, case, replay=case)


#: what the workloads produced since the last sweep (kept alive so that the sweep over *all live instances* has something
#: to look at - including whatever those objects keep alive inside the library)
KEEP = []


def do_sweep(ctx, where):
    bad, n_fa, n_cv = sizes.sweep()
    del KEEP[:]
    ctx.count("gc sweep: live FixedArrays checked", n_fa)
    ctx.count("gc sweep: live Curves checked", n_cv)
    ctx.ev(n_fa + n_cv)
    for o, p in bad[:5]:
        ctx.violation("gc-sweep:%s" % type(o).__name__, {"after": where, "problem": p, "object": srepr(o)[:160]})


def run(ctx):
    from barril.curve.curve import Curve
    from barril.units import AbstractValueWithQuantityObject, Array, FixedArray

    probe.install()
    probe.reach([FixedArray._InternalCreateWithQuantity, FixedArray.__init__, FixedArray.CreateCopy, FixedArray.CheckValues, FixedArray.CreateEmptyArray, FixedArray.__reduce__, FixedArray.ChangingIndex,
                 FixedArray.IndexAsScalar, AbstractValueWithQuantityObject.CreateWithQuantity, Curve.__init__, Curve.SetImage, Curve.SetDomain, Curve._CheckImageAndDomainLength, Array._DoOperation])  # fmt: skip
    ctx.rule = (
        "routes: %d construction routes x dimension 0..6 x container {list,tuple,float ndarray,int ndarray} x length 0..7, distinct = (route, dimension, length, container); "
        "chains: 1-6 copy/arithmetic/ChangingIndex/pickle steps incl. refused mismatching attempts, distinct = (step kind, dimension, container); index: ChangingIndex x 8 amount forms x "
        "use_value_unit x container x unit pair and IndexAsScalar against the database's float conversion; curves: histories of 1-20 SetImage/SetDomain/property/SetValues calls with lengths 0..4; "
        "non-trivial = a mismatching attempt, or an accepted one whose result is re-checked by the size monitor" % len(ROUTES)
    )
    ctx.assumptions = [
        "FixedArray values are one-dimensional containers, dimensions are ints; Curve images/domains also use nested containers (list/tuple of tuples, 2-D ndarray): length = number of items",
        "conversion reference is UnitDatabase's own float conversion (C01/C02 vouch for it)",
        "a refused attempt must raise ValueError where the statement says so (size mismatch); an out-of-range index may raise anything but must not return",
    ]
    q, th = ctx.tier == "quick", ctx.tier != "quick"
    db = table.build("posc")
    with table.pushed(db):
        aff = conv.describe(db)
        for u, a in aff.items():
            _TYPE[u] = a.qt
        scale = 1 if q else 12
        for rep in range(3):
            routes(ctx, ctx.rng("routes%d" % rep), 1500 * scale)
            do_sweep(ctx, "routes")
            chains(ctx, ctx.rng("chains%d" % rep), 500 * scale)
            do_sweep(ctx, "chains")
            index_ops(ctx, db, aff, ctx.rng("index%d" % rep), 500 * scale)
            short_lived(ctx, db, aff, ctx.rng("short%d" % rep), 40 * scale)
            curves(ctx, ctx.rng("curves%d" % rep), 250 * scale)
            do_sweep(ctx, "curves")
        if ctx.shard == 0:
            unitless_sources(ctx)
            both_names_for_the_values(ctx)
            dimensions_that_are_no_whole_numbers(ctx)
            do_sweep(ctx, "unit-less sources")
            ctx.sample({"route": "CreateWithQuantity(q,values=,dimension=)", "dimension": 3, "len": 2, "container": "nd", "expected": "ValueError, container untouched"})
            ctx.sample({"chain": ["+fixed", "bad:+array", "ChangingIndex", "pickle", "*nd1"], "expected": "dimension kept, refused attempt raises ValueError"})
            ctx.sample({"curve history": [["Curve", 2, 2], ["SetImage", 3], ["domain=", 2], ["SetDomain", 0]], "expected": "lengths always equal; refused calls leave image and domain identical"})
    # thorough tier: the repository's own tests as a workload under the global monitors (vp/suite_workload.py)
    from .. import suite_workload

    suite_workload.run(ctx, "C11")
    ctx.inconclusive_if(ctx.counters.get("gc sweep: live FixedArrays checked", 0) == 0 or ctx.counters.get("gc sweep: live Curves checked", 0) == 0, "the sweep over live instances saw no FixedArray or no Curve")
    ctx.inconclusive_if(probe.BOUNDARY["FixedArray.__init__"] == 0 or probe.BOUNDARY["FixedArray.ChangingIndex"] == 0 or probe.BOUNDARY["Curve.SetImage"] == 0, "deciding wrappers never reached")
    ctx.inconclusive_if(ctx.counters.get("refused", 0) == 0 or ctx.counters.get("accepted", 0) == 0 or ctx.counters.get("curve refused", 0) == 0, "no refused or no accepted attempt observed")


def replay(ctx, d):
    import random

    probe.install()
    db = table.build("posc")
    with table.pushed(db):
        aff = conv.describe(db)
        for u, a in aff.items():
            _TYPE[u] = a.qt
        if d and "route" in d:
            r = random.Random(0)
            for _ in range(50):
                built = run_route(d["route"], d["dimension"], d["len"], d["container"], d["unit"], d["category"], r)
                if built is None:
                    return
                fn, exp_ok, exp_dim, sources = built
                ctx.ev()
                try:
                    res = fn()
                except Exception as e:
                    if exp_ok:
                        ctx.violation("valid-refused:%s" % d["route"], dict(d, error=repr(e)[:200]))
                    elif exp_ok is False and not isinstance(e, ValueError):
                        ctx.violation("refusal-not-ValueError:%s" % d["route"], dict(d, error=repr(e)[:200]))
                    continue
                p = sizes.check_object(res)
                if p or exp_ok is False or (exp_ok and res.dimension != exp_dim):
                    ctx.violation("replayed:%s" % d["route"], dict(d, problem=p, result=srepr(res)[:160]))
        else:
            # histories are regenerated from the seed: run the quick workload of shard 0
            routes(ctx, ctx.rng("routes0"), 1500)
            chains(ctx, ctx.rng("chains0"), 500)
            index_ops(ctx, db, aff, ctx.rng("index0"), 500)
            curves(ctx, ctx.rng("curves0"), 250)
