"""C05 - dimensionally incompatible operations fail loudly and change nothing (DESIGN.md 4, C05)."""
import operator
from collections import OrderedDict

from .. import probe
from ..models import conv, dims, snapshot
from ..workloads import histories as H
from ..workloads import programs, table

SHARDS = {"quick": 4, "thorough": 16}
WATCHDOG_S = {"quick": 900, "thorough": 7200}
FLOORS = (20000, 500)
OK_FAMILIES = ("units", "type", "value")
ORDER = (("<", operator.lt), ("<=", operator.le), (">", operator.gt), (">=", operator.ge))
ADDSUB = (("+", operator.add), ("-", operator.sub))


#: (legacy spelling, the table unit it stands for)
LEGACY_FOREIGN = [("1000ft3", "Mcf"), ("1000m3", "Mm3"), ("M(ft3)", "MMcf"), ("M(m3)", "MMm3"), ("k(ft3)", "Mcf"), ("Ns/m", "N.s/m"), ("lbmole", "lbmol"), ("gmole", "gmol"),
                  ("1000ft3/d", "Mcf/d"), ("lb/lbmole", "lb/lbmol"), ("Ns/m2", "N.s/m2"), ("kgmole", "kgmol")]


class Loud:
    def __init__(self, ctx):
        self.ctx = ctx
        self.entries = {}

    def must_raise(self, entry, fn, case, operands=()):
        """fn() must raise an exception of the units / type / value families; never return."""
        self.ctx.ev()
        self.entries[entry] = self.entries.get(entry, 0) + 1
        before = [snapshot.value_object(o) for o in operands]
        try:
            r = fn()
        except Exception as e:
            fam = H.family(e)
            if fam not in OK_FAMILIES:
                self.ctx.violation("wrong-exception:%s:%s" % (entry, type(e).__name__), dict(case, entry=entry, error=str(e)[:200]), replay=dict(case, entry=entry))
        else:
            self.ctx.violation("returned:%s" % entry, dict(case, entry=entry, returned=repr(r)[:200]), replay=dict(case, entry=entry))
        for o, b in zip(operands, before):
            if snapshot.value_object(o) != b:
                self.ctx.violation("operand-changed:%s" % entry, dict(case, entry=entry, before=repr(b)[:200], after=repr(snapshot.value_object(o))[:200]), replay=dict(case, entry=entry))


def creation_and_conversion(L, db, c, qt, u, fu, x=1.5):
    """value / quantity creation with a unit foreign to the category, conversion to a foreign unit."""
    import numpy as np
    from barril.units import Array, FixedArray, FractionScalar, ObtainQuantity, Quantity, Scalar

    case = {"category": c, "qt": qt, "u": u, "foreign_unit": fu}
    M = L.must_raise
    M("Scalar(v,u,c)", lambda: Scalar(x, fu, c), case)
    M("Scalar(c,v,u)", lambda: Scalar(c, x, fu), case)
    M("Scalar(c,unit=u)", lambda: Scalar(c, unit=fu), case)
    M("Array(values,u,c)", lambda: Array([x], fu, c), case)
    M("Array(c,ndarray,u)", lambda: Array(c, np.array([x]), fu), case)
    M("FixedArray", lambda: FixedArray(2, c, [x, 2.0], fu), case)
    M("FractionScalar", lambda: FractionScalar(c, x, fu), case)
    M("ObtainQuantity", lambda: ObtainQuantity(fu, c), case)
    # a unit system that names, for this category, a unit of another quantity type (nothing checks a mapping when it is registered):
    # re-expressing an amount "in the current system" is a conversion to that unit
    from barril.units.unit_system_manager import UnitSystemManager

    usm = UnitSystemManager()
    usm.AddUnitSystem("c05", "a system with a foreign unit", {c: fu})
    s_ = Scalar(c, x, u)
    M("UnitSystemManager.ConvertToCurrent (system maps the category to a foreign unit)", lambda: usm.ConvertToCurrent(c, u, x), case)
    M("UnitSystemManager.ConvertToCurrent(list) (system maps the category to a foreign unit)", lambda: usm.ConvertToCurrent(c, u, [x, 2.0]), case)
    M("UnitSystemManager.ConvertScalarToCurrent (system maps the category to a foreign unit)", lambda: usm.ConvertScalarToCurrent(s_), case, (s_,))
    M("Quantity(c,u)", lambda: Quantity(c, fu), case)
    M("Quantity.CreateDerived", lambda: Quantity.CreateDerived(OrderedDict([(c, [fu, 2])])), case)
    oc, ou = ("time", "s") if c != "time" else ("length", "m")
    M("Quantity.CreateDerived(2 items)", lambda: Quantity.CreateDerived(OrderedDict([(c, [fu, -1]), (oc, [ou, 1])])), case)
    # the derived request forms of ObtainQuantity, and values created on what they return
    M("ObtainQuantity([(u,2)],[c])", lambda: ObtainQuantity([(fu, 2)], [c]), case)
    M("ObtainQuantity([(u,-1),(v,1)],[c,d])", lambda: ObtainQuantity([(fu, -1), (ou, 1)], [c, oc]), case)
    M("ObtainQuantity(OrderedDict)", lambda: ObtainQuantity(OrderedDict([(c, [fu, 3])])), case)
    M("Scalar(ObtainQuantity([(u,2)],[c]),v)", lambda: Scalar(ObtainQuantity([(fu, 2)], [c]), x), case)
    M("Array(ObtainQuantity(OrderedDict),values)", lambda: Array(ObtainQuantity(OrderedDict([(oc, [ou, 1]), (c, [fu, 2])])), [x]), case)
    s = Scalar(c, x, u)
    a = Array(c, [x, 2.0], u)
    an = Array(c, np.array([x, 2.0]), u)
    fs = FractionScalar(c, x, u)
    fa = FixedArray(2, c, (x, 2.0), u)
    q = s.GetQuantity()
    M("Scalar.GetValue(foreign)", lambda: s.GetValue(fu), case, (s,))
    M("Scalar.CreateCopy(unit=foreign)", lambda: s.CreateCopy(unit=fu), case, (s,))
    M("Scalar.GetFormatted(foreign)", lambda: s.GetFormatted(fu), case, (s,))
    M("Quantity.ConvertScalarValue(foreign)", lambda: q.ConvertScalarValue(x, fu), case)
    M("Quantity.Convert(foreign)", lambda: q.Convert([x], fu), case)
    M("UnitDatabase.Convert(category)", lambda: db.Convert(c, u, fu, x), case)
    M("UnitDatabase.Convert(qt)", lambda: db.Convert(qt, u, fu, x), case)
    M("UnitDatabase.Convert(ndarray)", lambda: db.Convert(qt, u, fu, np.array([x])), case)
    M("UnitDatabase.Convert(list)", lambda: db.Convert(qt, u, fu, [x]), case)
    M("UnitDatabase.Convert(tuple)", lambda: db.Convert(qt, u, fu, (x,)), case)
    M("UnitDatabase.Convert([(u,1)])", lambda: db.Convert(qt, [(u, 1)], [(fu, 1)], x), case)
    # the (unit, exponent) overload: a foreign unit at a higher exponent, two different exponents (another dimension),
    # and a target / source made of two units are all conversions to something of another dimension
    M("UnitDatabase.Convert([(u,2)],[(foreign,2)])", lambda: db.Convert(qt, [(u, 2)], [(fu, 2)], x), case)
    M("UnitDatabase.Convert([(u,2)],[(u,3)])", lambda: db.Convert(qt, [(u, 2)], [(u, 3)], x), case)
    M("UnitDatabase.Convert([(u,1)],[(u,1),(foreign,1)])", lambda: db.Convert(qt, [(u, 1)], [(u, 1), (fu, 1)], x), case)
    M("UnitDatabase.Convert([(u,1),(foreign,-1)],[(u,1)])", lambda: db.Convert(qt, [(u, 1), (fu, -1)], [(u, 1)], x), case)
    M("UnitDatabase.Convert([(u,2)],[(u,2),(foreign,1)])", lambda: db.Convert(qt, [(u, 2)], [(u, 2), (fu, 1)], x), case)
    # an amount that is exactly zero is an amount of its dimension like any other: zero metres are not zero seconds
    for zero in (0.0, 0, -0.0):
        M("UnitDatabase.Convert(qt,u,foreign,0)", lambda: db.Convert(qt, u, fu, zero), case)
        M("UnitDatabase.Convert([(u,2)],[(foreign,2)]) of zero", lambda: db.Convert(qt, [(u, 2)], [(fu, 2)], zero), case)
        M("UnitDatabase.Convert([(u,-1)],[(foreign,-1)]) of zero", lambda: db.Convert(qt, [(u, -1)], [(fu, -1)], zero), case)
        M("Scalar(zero).GetValue(foreign)", lambda: Scalar(c, zero, u).GetValue(fu), case)
        M("derived zero Scalar.GetValue([(foreign,2)])", lambda: (Scalar(c, zero, u) * Scalar(c, 1.0, u)).GetValue([(fu, 2)]), case)
        M("Array[zeros].GetValues(foreign)", lambda: Array(c, [zero, zero], u).GetValues(fu), case)
    # the reciprocal of an amount is of another dimension than the amount: 1/m is not re-expressed in cm (nor in m), whatever
    # the sign of the exponent "scales the other way round"
    same_type = [w for w in db.GetUnits(qt) if w != u][:1] + [u]
    for w in same_type:
        for e in (1, 2):
            M("UnitDatabase.Convert([(u,-e)],[(v,+e)])", lambda: db.Convert(qt, [(u, -e)], [(w, e)], x), case)
            M("UnitDatabase.Convert([(u,+e)],[(v,-e)])", lambda: db.Convert(qt, [(u, e)], [(w, -e)], x), case)
        M("reciprocal Scalar.GetValue(plain unit)", lambda: (1.0 / Scalar(c, x, u)).GetValue(w), case)
        M("reciprocal Scalar.GetValue([(v,1)])", lambda: (1.0 / Scalar(c, x, u)).GetValue([(w, 1)]), case)
        M("reciprocal Array.GetValues(plain unit)", lambda: (1.0 / Array(c, [x, x], u)).GetValues(w), case)
        M("squared Scalar.GetValue([(v,-2)])", lambda: (Scalar(c, x, u) * Scalar(c, x, u)).GetValue([(w, -2)]), case)
    # a conversion *named after* another quantity type than the one both units belong to, for every kind of value the database
    # converts (the registered converters for ndarrays and FractionValues included)
    oqt = db.GetQuantityType(fu)
    w = next((t for t in db.GetUnits(qt) if t != u), u)
    if oqt and oqt != qt and oqt != "Unknown" and w != u:  # (u -> u is answered before anything is looked at, by design)
        from barril.basic.fraction import FractionValue as _FV

        for vname, val in (("float", x), ("list", [x, 1.0]), ("tuple", (x,)), ("ndarray", np.array([x, 1.0])), ("FractionValue", _FV(3, (1, 4))), ("int", 3)):
            M("UnitDatabase.Convert(another type's name, u, v, %s)" % vname, lambda: db.Convert(oqt, u, w, val), case)
    # an Array that holds no value still has a dimension
    for ename, empty in (("list", []), ("tuple", ()), ("ndarray", np.array([]))):
        M("empty Array[%s].GetValues(foreign)" % ename, lambda: Array(c, empty, u).GetValues(fu), case)
        M("empty Array[%s].CreateCopy(unit=foreign)" % ename, lambda: Array(c, empty, u).CreateCopy(unit=fu), case)
    # a factor at exponent zero is still a (category, unit) pair: the unit belongs to the category's type or the request is refused
    cf = db.GetDefaultCategory(fu)
    if cf and cf != c:
        M("ObtainQuantity(dict) with a foreign unit at exponent 0", lambda: ObtainQuantity(OrderedDict([(c, [fu, 0]), (cf, [fu, 1])])), case)
        M("ObtainQuantity(dict) with a foreign unit at exponent 0, last", lambda: ObtainQuantity(OrderedDict([(cf, [fu, 2]), (c, [fu, 0])])), case)
        M("ObtainQuantity(list) with a foreign unit at exponent 0", lambda: ObtainQuantity([(fu, 0), (fu, 1)], [c, cf]), case)
        M("Quantity.CreateDerived with a foreign unit at exponent 0", lambda: Quantity.CreateDerived(OrderedDict([(c, [fu, 0]), (cf, [fu, 1])])), case)
    # a caption on the quantity (what the unit is shown as) changes nothing about what the amount can be re-expressed in
    M("captioned Scalar.GetValue(foreign)", lambda: Scalar(ObtainQuantity(u, c, "a caption"), x).GetValue(fu), case)
    M("captioned Scalar.CreateCopy(unit=foreign)", lambda: Scalar(ObtainQuantity(u, c, "a caption"), x).CreateCopy(unit=fu), case)
    M("captioned Scalar.GetFormatted(foreign)", lambda: Scalar(ObtainQuantity(u, c, "a caption"), x).GetFormatted(fu), case)
    M("captioned Quantity.ConvertScalarValue(foreign)", lambda: ObtainQuantity(u, c, "a caption").ConvertScalarValue(x, fu), case)
    M("captioned Array.GetValues(foreign)", lambda: Array(ObtainQuantity(u, c, "a caption"), [x, x]).GetValues(fu), case)
    M("captioned FractionScalar.GetValue(foreign)", lambda: FractionScalar.CreateWithQuantity(ObtainQuantity(u, c, "a caption"), value=x).GetValue(fu), case)
    M("Array.GetValues(foreign)", lambda: a.GetValues(fu), case, (a,))
    M("Array[nd].GetValues(foreign)", lambda: an.GetValues(fu), case, (an,))
    M("Array.CreateCopy(unit=foreign)", lambda: a.CreateCopy(unit=fu), case, (a,))
    M("FixedArray.CreateCopy(unit=foreign)", lambda: fa.CreateCopy(unit=fu), case, (fa,))
    M("FractionScalar.GetValue(foreign)", lambda: fs.GetValue(fu), case, (fs,))
    M("FractionScalar.CreateCopy(unit=foreign)", lambda: fs.CreateCopy(unit=fu), case, (fs,))


def arithmetic_simple(L, c, qt, u, fu, oqt):
    import numpy as np
    from barril.units import Array, FixedArray, FractionScalar, Scalar

    case = {"category": c, "qt": qt, "u": u, "foreign_unit": fu, "foreign_qt": oqt}
    s, o = Scalar(c, 2.0, u), Scalar(1.0, fu)
    fs, fo = FractionScalar(c, 2.0, u), FractionScalar(1.0, fu)
    al, ol = Array(c, [1.0, 2.0], u), Array([1.0, 2.0], fu)
    an, on = Array(c, np.array([1.0, 2.0]), u), Array(np.array([1.0, 2.0]), fu)
    at, ot = Array(c, (1.0, 2.0), u), Array((1.0, 2.0), fu)
    fa, fo2 = FixedArray(2, c, [1.0, 2.0], u), FixedArray(2, [1.0, 2.0], fu)
    # no values at all is a legal length: the dimensions still differ
    el, eol = Array(c, [], u), Array([], fu)
    et, eot = Array(c, (), u), Array((), fu)
    en, eon = Array(c, np.array([]), u), Array(np.array([]), fu)
    for n, op in ADDSUB:
        for tag, x, y in (("Scalar", s, o), ("Array[list]", al, ol), ("Array[nd]", an, on), ("Array[tuple]", at, ot), ("Array[list/nd]", al, on), ("FixedArray", fa, fo2),
                          ("Array[list,empty]", el, eol), ("Array[tuple,empty]", et, eot), ("Array[nd,empty]", en, eon), ("Array[list/tuple,empty]", el, eot), ("Array[list/nd,empty]", el, eon)):  # fmt: skip
            L.must_raise("%s %s %s" % (tag, n, tag), lambda: op(x, y), case, (x, y))
            L.must_raise("%s %s %s (swapped)" % (tag, n, tag), lambda: op(y, x), case, (x, y))
    for n, op in ORDER:
        L.must_raise("Scalar %s Scalar" % n, lambda: op(s, o), case, (s, o))
        L.must_raise("Scalar %s Scalar (swapped)" % n, lambda: op(o, s), case, (s, o))
        L.must_raise("FractionScalar %s FractionScalar" % n, lambda: op(fs, fo), case, (fs, fo))
        L.must_raise("FractionScalar %s FractionScalar (swapped)" % n, lambda: op(fo, fs), case, (fs, fo))
    # amounts that are no ordinary numbers (not-a-number, the infinities, the zeros) are amounts of their dimension all the same
    for xa, xb in ((float("nan"), 1.0), (1.0, float("nan")), (float("nan"), float("nan")), (float("inf"), float("-inf")), (0.0, -0.0), (float("inf"), 0.0)):
        sa, sb = Scalar(c, xa, u), Scalar(xb, fu)
        ala, alb = Array(c, [xa, 1.0], u), Array(np.array([xb, xb]), fu)
        for n, op in ORDER:
            L.must_raise("Scalar(special amount) %s Scalar" % n, lambda: op(sa, sb), dict(case, amounts=[repr(xa), repr(xb)]), (sa, sb))
            L.must_raise("Scalar(special amount) %s Scalar (swapped)" % n, lambda: op(sb, sa), dict(case, amounts=[repr(xa), repr(xb)]), (sa, sb))
        for n, op in ADDSUB:
            L.must_raise("Scalar(special amount) %s Scalar" % n, lambda: op(sa, sb), dict(case, amounts=[repr(xa), repr(xb)]), (sa, sb))
            L.must_raise("Array(special amounts) %s Array (swapped)" % n, lambda: op(alb, ala), dict(case, amounts=[repr(xa), repr(xb)]), (ala, alb))


def arithmetic_derived(ctx, L, T, B, r, n_cases):
    """pairs of derived amounts whose dimension vectors differ by one factor."""
    nul = lambda *a: None  # noqa
    done = attempts_failed = 0
    while done < n_cases:
        cls = "scalar" if r.random() < 0.6 else "array"
        cont = r.choice(("list", "tuple", "nd"))
        n = 1 if cls == "scalar" else 2
        sa, sb, d = B.same_dimension_pair(r, n, allow_dleaf=False)
        extra = B.leaf(r, n)
        how = r.choice(("*", "/"))
        sb2 = (how, sb, extra)
        try:
            a, ma = programs.evaluate(T, sa, cls, cont, nul, n)
            b, mb = programs.evaluate(T, sb2, cls, cont, nul, n)
        except programs.Degenerate:
            continue
        except programs.EvalError:
            # a valid operand that barril refuses to build: another property's finding, but this one decides nothing then
            ctx.count("derived operands that could not be built")
            attempts_failed += 1
            if attempts_failed > 20 * n_cases:
                ctx.inconclusive.append("derived operands could not be built (%d failures)" % attempts_failed)
                return
            continue
        if not ma.dim or not mb.dim or ma.dim == mb.dim:
            continue  # dimensionless operands are exempt by the statement
        done += 1
        ctx.nt(("derived", tuple(sorted(ma.dim.items())), tuple(sorted(mb.dim.items()))))
        case = {"a": programs.render(sa), "b": programs.render(sb2), "cls": cls, "container": cont}
        for nme, op in ADDSUB:
            L.must_raise("derived %s %s derived" % (cls, nme), lambda: op(a, b), case, (a, b))
            L.must_raise("derived %s %s derived (swapped)" % (cls, nme), lambda: op(b, a), case, (a, b))
        if cls == "scalar":
            for nme, op in ORDER:
                L.must_raise("derived Scalar %s" % nme, lambda: op(a, b), case, (a, b))
                L.must_raise("derived Scalar %s (swapped)" % nme, lambda: op(b, a), case, (a, b))
            qa, qb = a.GetQuantity(), b.GetQuantity()
            L.must_raise("Quantity + Quantity", lambda: qa + qb, case)
            L.must_raise("Quantity - Quantity", lambda: qb - qa, case)
            L.must_raise("UnitDatabase.Sum", lambda: T.db.Sum(qa, qb, 1.0, 2.0), case)
            L.must_raise("UnitDatabase.Subtract", lambda: T.db.Subtract(qb, qa, 1.0, 2.0), case)


def _dimension(o):
    from barril.units import UnitDatabase

    db, d = UnitDatabase.GetSingleton(), {}
    for c, (_u, e) in o.GetQuantity().GetCategoryToUnitAndExps().items():
        qt = db.GetCategoryQuantityType(c)
        d[qt] = d.get(qt, 0) + e
    return {k: v for k, v in d.items() if v}


def mixed_unit_operands(ctx, L):
    """Left operands that only an explicit request builds: derived quantities carrying two categories of one quantity
    type in different units. A rejected + / - / ordering must leave them (and the shared quantity behind them) as they
    were, and a valid product computed before the failures must come out the same after them."""
    import numpy as np
    from barril.units import Array, ObtainQuantity, Quantity, Scalar

    maps = [
        OrderedDict([("length", ["m", 1]), ("diameter", ["cm", 1])]), OrderedDict([("depth", ["km", 2]), ("length", ["ft", -1])]),
        OrderedDict([("length", ["cm", 1]), ("time", ["s", -1]), ("diameter", ["m", 1])]), OrderedDict([("mass", ["kg", 1]), ("length", ["m", -2]), ("depth", ["cm", -1])]),
    ]  # fmt: skip
    wrong = [lambda: Scalar(3.0, "s"), lambda: Scalar(3.0, "kg") / Scalar(2.0, "s"), lambda: Scalar("length", 2.0, "m"), lambda: Scalar(2.0, "m") * Scalar(2.0, "m") * Scalar(2.0, "m") * Scalar(1.0, "m")]
    for mi, m in enumerate(maps):
        for how in ("CreateDerived", "ObtainQuantity(dict)"):
            try:
                q = Quantity.CreateDerived(OrderedDict((k, list(v)) for k, v in m.items())) if how == "CreateDerived" else ObtainQuantity(OrderedDict((k, list(v)) for k, v in m.items()))
                wrong_objs = [mk() for mk in wrong]
            except Exception as e:  # barril refuses a valid operand: not this property's finding, but nothing is decided here then
                ctx.count("mixed-unit operands that could not be built")
                ctx.inconclusive.append("mixed-unit operands could not be built: %s" % repr(e)[:120])
                continue
            for cls in ("Scalar", "Array[list]", "Array[nd]"):
                a = Scalar(q, 12.0) if cls == "Scalar" else Array(q, [12.0, 3.0] if cls == "Array[list]" else np.array([12.0, 3.0]))
                k = Scalar(2.0, "m") if cls == "Scalar" else Array([2.0, 4.0], "m")
                case = {"map": [[c, u, e] for c, (u, e) in m.items()], "built_by": how, "class": cls}
                try:
                    before = (snapshot.value_object(a * k), snapshot.value_object(a / k), snapshot.quantity_fingerprint(q))
                except Exception as e:  # the *valid* product raises: the "later valid operations" clause cannot be asked
                    ctx.count("mixed-unit operands: the valid product raised")
                    ctx.inconclusive.append("valid product of a mixed-unit operand raised: %s" % repr(e)[:120])
                    continue
                for wi, mk in enumerate(wrong):
                    b = mk() if cls == "Scalar" else Array(mk().GetQuantity(), [1.0, 2.0])
                    if _dimension(a) == _dimension(b):
                        continue  # km2/ft is a length
                    ctx.nt(("mixed", mi, how, cls, wi))
                    for nme, op in ADDSUB:
                        L.must_raise("mixed-unit derived %s %s other dimension" % (cls, nme), lambda: op(a, b), case, (a, b))
                        L.must_raise("other dimension %s mixed-unit derived %s" % (nme, cls), lambda: op(b, a), case, (a, b))
                    if cls == "Scalar":
                        for nme, op in ORDER:
                            L.must_raise("mixed-unit derived Scalar %s" % nme, lambda: op(a, b), case, (a, b))
                    ctx.ev()
                    try:
                        after = (snapshot.value_object(a * k), snapshot.value_object(a / k), snapshot.quantity_fingerprint(q))
                    except Exception as e:
                        after = ("raised", repr(e)[:160])
                    if after != before:
                        ctx.violation("valid-operation-differs-after-a-rejected-one:mixed-unit derived %s" % cls, dict(case, before=repr(before)[:300], after=repr(after)[:300]), replay=case)
                        before = after


def unit_text_lookalikes(ctx, L, db):
    """A derived amount whose unit *text* equals a table unit of another dimension ((m/s)**2 prints 'm/s2', the
    acceleration unit; (N/m)**2 prints 'N/m2', the pressure unit): ordering it against, or adding it to, an amount in
    that table unit compares two different dimensions and must fail like any other such pair."""
    from barril.units import Scalar

    units = set(db.unit_to_unit_info)
    done = 0
    for u in sorted(units):
        if len(u) < 2 or u[-1] not in "23456" or u[:-1] not in units or "/" not in u[:-1] and "." not in u[:-1]:
            continue
        v, k = u[:-1], int(u[-1])
        try:
            d = Scalar(3.0, v) ** k
            t = Scalar(2.0, u)
        except Exception:
            continue
        if d.GetUnit() != u or _dimension(d) == _dimension(t):
            continue
        done += 1
        case = {"table_unit": u, "derived_from": "%s ** %d" % (v, k), "derived_unit_text": d.GetUnit()}
        ctx.nt(("unit text look-alike", u))
        for nme, op in ORDER:
            L.must_raise("look-alike: derived %s table unit" % nme, lambda: op(d, t), case, (d, t))
            L.must_raise("look-alike: table unit %s derived" % nme, lambda: op(t, d), case, (d, t))
        for nme, op in ADDSUB:
            L.must_raise("look-alike: derived %s table unit" % nme, lambda: op(d, t), case, (d, t))
            L.must_raise("look-alike: table unit %s derived" % nme, lambda: op(t, d), case, (d, t))
    ctx.count("derived amounts whose unit text equals a table unit of another dimension", done)


def override_then_create(ctx, L):
    """'at any point inside an arbitrary sequence of other operations' - here the sequence contains a registration: values
    are created under a category, the category is re-registered (override) for another quantity type, and the very
    same creations - their unit no longer belongs to the category's type - must all raise now."""
    from barril.units import Array, ObtainQuantity, Quantity, Scalar, UnitDatabase

    def make():
        db = UnitDatabase()
        db.AddUnitBase("length", "meters", "m")
        db.AddUnit("length", "centimeters", "cm", "%f * 100.0", "%f / 100.0")
        db.AddUnitBase("time", "seconds", "s")
        db.AddUnit("time", "minutes", "min", "%f / 60.0", "%f * 60.0")
        db.AddCategory("length", "length")
        db.AddCategory("time", "time")
        db.AddUnit("length", "inches", "in", "%f / 0.0254", "%f * 0.0254", default_category="bore")
        db.AddCategory("bore", "length")
        return db

    def od(*items):
        return OrderedDict((c, [u, e]) for c, u, e in items)

    creations = [
        ("Scalar(x,u,c)", lambda: Scalar(1.0, "m", "bore")), ("Scalar(c,x,u)", lambda: Scalar("bore", 1.0, "cm")), ("Scalar(x,u) by the unit's default category", lambda: Scalar(1.0, "in")),
        ("ObtainQuantity(u)", lambda: ObtainQuantity("in")), ("ObtainQuantity(u,c)", lambda: ObtainQuantity("cm", "bore")), ("Array(c,values,u)", lambda: Array("bore", [1.0], "m")),
        ("ObtainQuantity(dict)", lambda: ObtainQuantity(od(("bore", "cm", 2), ("time", "s", -1)))), ("Quantity.CreateDerived", lambda: Quantity.CreateDerived(od(("bore", "cm", 2), ("time", "s", -1)))),
        ("ObtainQuantity(list,categories)", lambda: ObtainQuantity([("cm", 2), ("s", -2)], ["bore", "time"])), ("ObtainQuantity(dict, one factor)", lambda: ObtainQuantity(od(("bore", "m", 3)))),
        ("Quantity.CreateCopyInstance(map)", lambda: ObtainQuantity("s", "time").CreateCopyInstance(od(("bore", "cm", 3), ("time", "s", 1)))),
        ("Scalar(bore) * Scalar(time)", lambda: Scalar(1.0, "m", "bore") * Scalar("time", 2.0, "s")),
    ]  # fmt: skip
    import itertools

    for warm in (True, False):
        db = make()
        with table.pushed(db):
            if warm:
                for name, mk in creations:
                    ctx.ev()
                    try:
                        mk()
                    except Exception as e:
                        ctx.violation("override:valid-creation-raised:%s" % name, {"error": repr(e)[:160]})
            db.AddCategory("bore", "time", override=True)
            for name, mk in creations:
                ctx.nt(("override", warm, name))
                L.must_raise("after override (%s): %s" % ("created before" if warm else "never created before", name), mk, {"scenario": "category re-registered for another quantity type", "created_before_the_override": warm})
            ctx.ev()
            try:
                ok = Scalar(2.0, "min", "bore").GetValue("s") == 120.0
            except Exception as e:
                ok = repr(e)
            if ok is not True:
                ctx.violation("override:valid-use-of-the-re-registered-category-fails", {"got": ok})


def exponent_twins(ctx, L):
    """Derived amounts that differ in nothing but one exponent - 1/s and 1/s2, m/s and m/s2, m2 and m3 (CPython hashes -1 and
    -2 alike) - are amounts of different dimensions: + - and the orderings are refused for Scalars, list and ndarray Arrays and
    at the database level, and the quantities are unequal."""
    import numpy as np
    from barril.units import Array, Scalar, UnitDatabase

    def build(cls, parts):
        acc = None
        for u, e in parts:
            for _ in range(abs(e)):
                f = Scalar(2.0, u) if cls == "Scalar" else Array([2.0, 4.0] if cls == "Array[list]" else np.array([2.0, 4.0]), u)
                if acc is None:
                    acc = f if e > 0 else 1.0 / f
                else:
                    acc = acc * f if e > 0 else acc / f
        return acc

    TWINS = [([("s", -1)], [("s", -2)]), ([("m", 1), ("s", -1)], [("m", 1), ("s", -2)]), ([("m", 2)], [("m", 3)]), ([("kg", 1), ("m", -1)], [("kg", 1), ("m", -2)]), ([("s", -2)], [("s", -3)]),
             ([("m", -1), ("s", -1)], [("m", -2), ("s", -2)]), ([("m", 1)], [("m", 2)]), ([("K", -1)], [("K", -2)])]  # fmt: skip
    db = UnitDatabase.GetSingleton()
    for pa, pb in TWINS:
        for cls in ("Scalar", "Array[list]", "Array[nd]"):
            try:
                a, b = build(cls, pa), build(cls, pb)
            except Exception as e:
                ctx.inconclusive.append("exponent twins could not be built: %s" % repr(e)[:120])
                continue
            case = {"a": pa, "b": pb, "class": cls}
            ctx.nt(("exponent twins", str(pa), str(pb), cls))
            for nme, op in ADDSUB:
                L.must_raise("exponent twins %s: a %s b" % (cls, nme), lambda: op(a, b), case, (a, b))
                L.must_raise("exponent twins %s: b %s a" % (cls, nme), lambda: op(b, a), case, (a, b))
            if cls == "Scalar":
                for nme, op in ORDER:
                    L.must_raise("exponent twins Scalar: a %s b" % nme, lambda: op(a, b), case, (a, b))
                qa, qb = a.GetQuantity(), b.GetQuantity()
                L.must_raise("exponent twins: UnitDatabase.Sum", lambda: db.Sum(qa, qb, 1.0, 2.0), case)
                L.must_raise("exponent twins: UnitDatabase.Subtract", lambda: db.Subtract(qb, qa, 1.0, 2.0), case)
                ctx.ev()
                if qa == qb or not (qa != qb) or a == b:
                    ctx.violation("returned:exponent twins compare equal", dict(case, quantities=[repr(qa), repr(qb)]))


def refusal_then_registration(ctx):
    """'Leaves no trace': two private databases go through the same valid history - a category, later the unit, then the
    creations in that unit. On one of them the creations are also attempted (and refused) *before* the unit exists, or
    before the category exists; afterwards both must answer alike, and the now-valid creations must succeed."""
    from barril.units import Array, ObtainQuantity, Scalar, UnitDatabase

    def make():
        db = UnitDatabase()
        UnitDatabase.FillSimple(db)  # length: m, mm, cm, km / time: s, min, h, d
        db.AddCategory("pipe length", "length")
        if "length" not in db.categories_to_quantity_types:
            db.AddCategory("length", "length")
        return db

    attempts = [
        ("Scalar(c,x,u)", lambda c: Scalar(c, 1.0, "furlong").GetValue("m")), ("Scalar(x,u,c)", lambda c: Scalar(1.0, "furlong", c).GetValue("m")), ("ObtainQuantity(u,c)", lambda c: ObtainQuantity("furlong", c).GetUnit()),
        ("Array(c,values,u)", lambda c: list(Array(c, [1.0, 2.0], "furlong").GetValues("m"))), ("Scalar.GetValue(u)", lambda c: Scalar(c, 201.168, "m").GetValue("furlong")),
        ("Scalar.CreateCopy(unit=u)", lambda c: Scalar(c, 201.168, "m").CreateCopy(unit="furlong").GetValue()), ("CheckCategoryUnit", lambda c: UnitDatabase.GetSingleton().CheckCategoryUnit(c, "furlong")),
        ("Scalar(c,unit=u)", lambda c: Scalar(c, unit="furlong").GetUnit()), ("UnitDatabase.Convert(c,u,v,x)", lambda c: UnitDatabase.GetSingleton().Convert(c, "furlong", "m", 1.0)),
        ("ObtainQuantity(dict)", lambda c: ObtainQuantity(OrderedDict([(c, ["furlong", 2])])).GetUnit()),
    ]  # fmt: skip

    def outcomes(db, cats):
        out = {}
        for c in cats:
            for name, fn in attempts:
                try:
                    out[(c, name)] = ("ok", repr(fn(c)))
                except Exception as e:
                    out[(c, name)] = ("exc", type(e).__name__)
        return out

    for scenario in ("unit registered later", "category registered later", "unit and category registered later"):
        cats = ["pipe length", "length"] + (["bore"] if "category" in scenario else [])
        res = {}
        for refused_first in (True, False):
            db = make()
            with table.pushed(db):
                if refused_first:
                    early = outcomes(db, cats)
                    for key, o in early.items():
                        ctx.ev()
                        if o[0] == "ok" and "unit" in scenario:
                            ctx.violation("returned:creation in a unit that is not registered yet:%s" % key[1], {"scenario": scenario, "category": key[0], "returned": o[1]})
                if "unit" in scenario:
                    db.AddUnit("length", "furlongs", "furlong", "%f / 201.168", "%f * 201.168")
                else:
                    # the unit exists from the start in this scenario; only the category comes later
                    pass
                if "category" in scenario:
                    db.AddCategory("bore", "length")
                if scenario == "category registered later" and "furlong" not in db.unit_to_unit_info:
                    db.AddUnit("length", "furlongs", "furlong", "%f / 201.168", "%f * 201.168")
                res[refused_first] = outcomes(db, cats)
        for key in res[True]:
            ctx.ev()
            ctx.nt(("refusal then registration", scenario, key))
            if res[True][key] != res[False][key]:
                ctx.violation("valid-operation-differs-after-a-refused-one:%s" % key[1], {"scenario": scenario, "category": key[0], "after_refusals": res[True][key], "without_refusals": res[False][key]})
            elif res[False][key][0] == "ok":
                ctx.count("operations valid after a later registration, same with and without earlier refusals")


def two_databases_disagree(ctx, L):
    """Two databases alive in one process that mean different things by one category name: what one of them accepted or
    refused for a (category, unit) pair is nothing the other may answer with - in either order of asking."""
    from barril.units import Array, ObtainQuantity, Scalar, UnitDatabase

    def make(span_type):
        db = UnitDatabase()
        UnitDatabase.FillSimple(db)  # length: m, mm, cm, km / time: s, min, h, d
        db.AddCategory("span", span_type)
        return db

    asks = [
        ("Scalar(c,x,u)", lambda u: Scalar("span", 1.0, u).GetUnit()), ("ObtainQuantity(u,c)", lambda u: ObtainQuantity(u, "span").GetUnit()), ("ObtainQuantity({c:[u,2]})", lambda u: ObtainQuantity(OrderedDict([("span", [u, 2])])).GetUnit()),
        ("Array(c,values,u)", lambda u: Array("span", [1.0], u).GetUnit()), ("CheckCategoryUnit", lambda u: UnitDatabase.GetSingleton().CheckCategoryUnit("span", u)), ("Scalar(x,u,c)", lambda u: Scalar(1.0, u, "span").GetUnit()),
    ]  # fmt: skip
    for first in ("length first", "time first"):
        dbs = {"length": make("length"), "time": make("time")}  # (both exist before anything is asked)
        order = ("length", "time", "length") if first == "length first" else ("time", "length", "time")
        for which in order:
            with table.pushed(dbs[which]):
                own, foreign = ("km", "min") if which == "length" else ("min", "km")
                for name, fn in asks:
                    case = {"databases": "span is a %s here; another database where it is a %s was asked %s" % (which, "time" if which == "length" else "length", "before" if which != order[0] or which == order[2] else "after"), "entry": name}
                    ctx.ev()
                    ctx.nt(("two databases", first, which, name))
                    try:
                        fn(own)
                    except Exception as e:
                        ctx.violation("valid-operation-refused-because-of-another-database:%s" % name, dict(case, unit=own, error="%s: %s" % (type(e).__name__, str(e)[:120])))
                    L.must_raise("two databases: %s with the other database's unit" % name, lambda: fn(foreign), dict(case, unit=foreign))


# --------------------------------------------------------------------------------- differential
POOL_UNITS = {"length": ["m", "cm", "km"], "time": ["s", "min"], "mass": ["kg", "g"], "temperature": ["degC", "K"]}
POOL_CATS = {"length": ["length", "depth"], "time": ["time"], "mass": ["mass"], "temperature": ["temperature"]}


def gen_history(r, length):
    """Returns a list of (op, is_bad). Slots 0..7 are filled first with valid objects."""
    ops = []
    slot_qt = {}
    qts = list(POOL_UNITS)

    def new_scalar(slot):
        qt = r.choice(qts)
        c = r.choice(POOL_CATS[qt])
        ops.append((("scalar", slot, r.choice(["cvu", "vuc", "q", "cwq"]), c, r.choice([1.0, 2.5, -3.0, 10.0]), r.choice(POOL_UNITS[qt])), False))
        slot_qt[slot] = (qt, "Scalar")

    def new_array(slot):
        qt = r.choice(qts)
        c = r.choice(POOL_CATS[qt])
        ops.append((("array", slot, "Array", c, [1.0, 2.0, r.choice([3.0, 0.5])], r.choice(POOL_UNITS[qt]), r.choice(["list", "tuple", "nd"])), False))
        slot_qt[slot] = (qt, "Array")

    for s in range(6):
        new_scalar(s)
    for s in range(6, 9):
        new_array(s)
    nxt = 9
    while len(ops) < length:
        k = r.random()
        s = r.choice(list(slot_qt))
        qt, cls = slot_qt[s]
        others = [q for q in qts if q != qt]
        if k < 0.12:
            new_scalar(r.randrange(0, 6))
        elif k < 0.30:  # valid conversion
            ops.append((("getvalue", s, r.choice(POOL_UNITS[qt])), False))
        elif k < 0.40:  # invalid conversion
            ops.append((("getvalue", s, r.choice(POOL_UNITS[r.choice(others)])), True))
        elif k < 0.50:  # invalid creation
            oq = r.choice(others)
            ops.append((("scalar", None, r.choice(["cvu", "vuc", "q", "cu"]), r.choice(POOL_CATS[qt]), 1.0, r.choice(POOL_UNITS[oq])), True))
        elif k < 0.60:  # invalid add / order
            cands = [t for t, (q2, c2) in slot_qt.items() if q2 != qt and c2 == cls]
            if cands:
                o = r.choice(["+", "-"] + (["<", ">=", "<=", ">"] if cls == "Scalar" else []))
                ops.append((("binop", None, o, ("slot", s), ("slot", r.choice(cands))), True))
        elif k < 0.75:  # valid add/sub/mul/div/order
            cands = [t for t, (q2, c2) in slot_qt.items() if q2 == qt and c2 == cls]
            t = r.choice(cands)
            o = r.choice(["+", "-", "*", "/"] + (["<", ">="] if cls == "Scalar" else []))
            if qt == "temperature" and o in "*/":
                o = "+"
            ops.append((("binop", None, o, ("slot", s), ("slot", t)), False))
        elif k < 0.80:
            ops.append((("copyunit", None, s, r.choice(POOL_UNITS[r.choice(others)]), None), True))
        elif k < 0.85:
            ops.append((("copyunit", None, s, r.choice(POOL_UNITS[qt]), None), False))
        elif k < 0.90:
            ops.append((("convert", r.choice(POOL_CATS[qt]), r.choice(POOL_UNITS[qt]), r.choice(POOL_UNITS[r.choice(others)]), 2.0, None), True))
        elif k < 0.95:
            ops.append((("db", r.choice(["GetValidUnits", "GetDefaultUnit", "GetCategoryQuantityType"]), (r.choice(POOL_CATS[qt]),)), False))
        else:
            ops.append((("call", s, r.choice(["IsValid", "GetValidUnits", "GetUnitName"]), ()), False))
    return ops


def differential(ctx, r, n_hist, length):
    for h in range(n_hist):
        hist = gen_history(r, length)
        out_a = []
        dba = table.build("posc")
        with table.pushed(dba):
            ea = H.Env(dba)
            for op, bad in hist:
                if bad:
                    reg = snapshot.registry(dba, sample_conversions=False)
                    pool_before = {k: snapshot.value_object(v) for k, v in ea.pool.items()}
                o, _ = H.execute(ea, op)
                ctx.ev()
                if bad:
                    if o[0] == "ok":
                        ctx.violation("history:returned:%s" % op[0], {"op": op, "outcome": o}, replay={"history": hist})
                    elif o[0] == "exc" and o[2] not in OK_FAMILIES:
                        ctx.violation("history:wrong-exception:%s:%s" % (op[0], o[1]), {"op": op, "outcome": o}, replay={"history": hist})
                    if snapshot.registry(dba, sample_conversions=False) != reg:
                        ctx.violation("history:registry-changed-by-failing:%s" % op[0], {"op": op}, replay={"history": hist})
                    for k, v in ea.pool.items():
                        if k in pool_before and snapshot.value_object(v) != pool_before[k]:
                            ctx.violation("history:operand-changed-by-failing:%s" % op[0], {"op": op, "slot": k}, replay={"history": hist})
                out_a.append(o)
        dbb = table.build("posc")
        with table.pushed(dbb):
            eb = H.Env(dbb)
            for (op, bad), oa in zip(hist, out_a):
                if bad:
                    continue
                ob, _ = H.execute(eb, op)
                ctx.ev()
                if ob != oa:
                    ctx.violation("history:valid-op-differs-after-failures:%s" % op[0], {"op": op, "with_failures": oa, "without": ob}, replay={"history": hist})
        ctx.nt(("history", tuple(op[0] for op, bad in hist if bad)))
        if h == 0 and ctx.shard == 0:
            ctx.sample({"history_prefix": [list(map(str, op)) + ["BAD" if bad else "ok"] for op, bad in hist[9:15]]})
    ctx.count("histories", n_hist)


def run(ctx):
    from barril.units import Array, Quantity, Scalar, UnitDatabase

    probe.install()
    probe.reach([UnitDatabase._DoOperationWithSameQuantity, UnitDatabase.CheckCategoryUnit, UnitDatabase.GetInfo, Quantity.__init__, Scalar.__lt__])
    ctx.rule = (
        "(A) every category x foreign units (quick: case-insensitive look-alikes + legacy spellings of units of other types + a rotating selection of other quantity types; thorough: all 1548 units and 12 legacy spellings) "
        "x 35 creation/conversion entry points; (B) + - and ordering on simple cross-type pairs (Scalar, Array in 4 container mixes, FixedArray, FractionScalar, both orders) "
        "and on derived pairs differing by one factor; (C) differential histories: the same history with the failing calls deleted, run on a twin database, must give "
        "identical outcomes for every valid operation; operands and registry snapshotted around every failing call. A case = (category, foreign unit) / dimension-vector pair / history"
    )
    ctx.assumptions = ["'units/type error' = exception derived from UnitsError, TypeError or ValueError", "dimensionless (no composing unit) operands and quantity type 'Unknown' are exempt"]
    r = ctx.rng("c05")
    db = table.build("posc")
    L = Loud(ctx)
    with table.pushed(db):
        T = dims.Table(db, conv.describe(db))
        ubt = table.units_by_type(db)
        all_units = [(qt, u) for qt, us in ubt.items() for u in us if qt != "Unknown"]
        lower = {}
        for qt, u in all_units:
            lower.setdefault(u.lower(), []).append((qt, u))
        qts = [q for q in ubt if q != "Unknown"]
        cats = [c for c in sorted(db.IterCategories()) if db.GetCategoryQuantityType(c) != "Unknown"]
        for ci, c in enumerate(cats):
            if ci % ctx.nshards != ctx.shard:
                continue
            qt = db.GetCategoryQuantityType(c)
            own = ubt[qt]
            foreign = []
            # look-alikes: a unit of another type equal to one of ours ignoring case
            for u in own:
                for oqt, fu in lower.get(u.lower(), ()):
                    if oqt != qt:
                        foreign.append((oqt, fu, u))
            # legacy spellings of units of another type: the rewrite must not smuggle them past the type check
            for leg, cur in LEGACY_FOREIGN:
                lqt = db.GetQuantityType(cur)
                if lqt is not None and lqt != qt and (ctx.tier != "quick" or (ci + len(leg)) % 3 == 0):
                    foreign.append((lqt, leg, None))
            if ctx.tier == "quick":
                k = 24
                sel = [qts[(ci * 7 + j * (len(qts) // k + 1)) % len(qts)] for j in range(k)]
                for oqt in sel:
                    if oqt != qt:
                        foreign.append((oqt, r.choice(ubt[oqt]), None))
            else:
                for oqt, fu in all_units:
                    if oqt != qt:
                        foreign.append((oqt, fu, None))
            reg = snapshot.registry(db, sample_conversions=False)
            for j, (oqt, fu, src) in enumerate(foreign):
                u = src or own[(ci + j) % len(own)]
                ctx.nt((c, fu))
                try:
                    creation_and_conversion(L, db, c, qt, u, fu)
                    if j % (1 if ctx.tier == "quick" else 25) == 0 or src:
                        arithmetic_simple(L, c, qt, u, fu, oqt)
                except Exception as e:
                    # the *valid* objects these sweeps start from could not be built (every refusal that is due is caught
                    # inside must_raise): nothing is decided for this pair, and the run says so
                    ctx.count("valid starting objects that could not be built")
                    if not any(x.startswith("valid starting objects") for x in ctx.inconclusive):
                        ctx.inconclusive.append("valid starting objects could not be built, e.g. (%s, %s): %s" % (c, fu, repr(e)[:120]))
            ctx.ev()
            if snapshot.registry(db, sample_conversions=False) != reg:
                ctx.violation("registry-changed-by-failing-calls", {"category": c, "diff": snapshot.diff(reg, snapshot.registry(db, sample_conversions=False))}, replay={"category": c})
            if ci < 2 and ctx.shard == 0:
                ctx.sample({"category": c, "foreign_units": [f[1] for f in foreign[:8]]})
        B = programs.Basis(T, ctx.rng("basis%d" % (ctx.shard % 4)))
        arithmetic_derived(ctx, L, T, B, r, 400 if ctx.tier == "quick" else 6000)
        if ctx.shard == 0:
            mixed_unit_operands(ctx, L)
            unit_text_lookalikes(ctx, L, db)
            exponent_twins(ctx, L)
    if ctx.shard == 0:
        override_then_create(ctx, L)
        refusal_then_registration(ctx)
        two_databases_disagree(ctx, L)
    differential(ctx, r, 25 if ctx.tier == "quick" else 400, 70)
    ctx.notes["entry_points"] = L.entries
    ctx.inconclusive_if(len(L.entries) < 40, "only %d entry points exercised" % len(L.entries))


def replay(ctx, d):
    probe.install()
    db = table.build("posc")
    L = Loud(ctx)
    with table.pushed(db):
        if "foreign_unit" in d:
            creation_and_conversion(L, db, d["category"], d["qt"], d["u"], d["foreign_unit"])
            arithmetic_simple(L, d["category"], d["qt"], d["u"], d["foreign_unit"], d.get("foreign_qt"))
        else:
            print("recorded case:", str(d)[:2000])
