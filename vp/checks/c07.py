"""C07 - quantities are immutable values with sound equality / hash / copy (DESIGN.md 4, C07)."""
import copy
import pickle
from collections import OrderedDict

from .. import probe
from ..models import snapshot
from ..monitors.quantity_frozen import QuantityMonitor, cache_violations
from ..workloads import histories as H
from ..workloads import table

SHARDS = {"quick": 4, "thorough": 16}
WATCHDOG_S = {"quick": 900, "thorough": 7200}
FLOORS = (5000, 200)

QTS = {
    "length": ["m", "cm", "km", "ft"],
    "time": ["s", "min", "h"],
    "mass": ["kg", "g", "lbm"],
    "amount of substance": ["mol", "lbmol", "kmol"],
}
LEGACY = {"amount of substance": ["lbmole", "gmole"]}


def pools(db):
    cbt = table.categories_by_type(db)
    return {qt: cbt.get(qt, [qt])[:3] for qt in QTS}


def gen_history(r, cats, length):
    """list of op specs. Slots: 0..5 scalars, 6..8 arrays, 9..14 quantities (incl. derived, possibly
    carrying two categories of one quantity type in different units), 15+ results."""
    ops = []
    qts = list(QTS)

    def unit(qt, legacy_ok=True):
        if legacy_ok and qt in LEGACY and r.random() < 0.3:
            return r.choice(LEGACY[qt])
        return r.choice(QTS[qt])

    def items(n=None):
        n = n or r.randint(2, 3)
        out, used = [], set()
        for _ in range(n):
            qt = r.choice(qts)
            c = r.choice(cats[qt])
            if c in used:
                continue
            used.add(c)
            out.append((c, r.choice(QTS[qt]), r.choice([-2, -1, 1, 1, 2, 3])))
        return out or [(cats["length"][0], "m", 2)]

    def mk_quantity(slot):
        k = r.random()
        qt = r.choice(qts)
        if k < 0.35:
            ops.append(("quantity", slot, unit(qt), r.choice(cats[qt] + [None]), None))
        elif k < 0.45:
            ops.append(("quantity", slot, unit(qt, False), r.choice(cats[qt]), r.choice(["cap", "Feeeet"])))
        elif k < 0.5:
            ops.append(("quantity_ctor", slot, r.choice(cats[qt]), unit(qt, False)))
        elif k < 0.55:
            ops.append(("quantity", slot, None, r.choice(cats[qt]), None))
        else:
            ops.append(("derived", slot, items(), r.choice(["CreateDerived", "ObtainQuantity(dict)", "ObtainQuantity(list)"])))

    def mk_scalar(slot):
        qt = r.choice(qts)
        form = r.choice(["cvu", "vuc", "vu", "tuple", "q", "cwq", "cu", "c"])
        ops.append(("scalar", slot, form, r.choice(cats[qt]), r.choice([1.0, 2.5, -3.0, 10.0, 0.0]), unit(qt)))

    def mk_array(slot):
        qt = r.choice(qts)
        ops.append(("array", slot, r.choice(["Array", "Array", "FixedArray"]), r.choice(cats[qt] + [None]), [1.0, 2.0, r.choice([3.0, 0.5])], unit(qt), r.choice(["list", "tuple", "nd"])))

    for s in range(6):
        mk_scalar(s)
    for s in range(6, 9):
        mk_array(s)
    for s in range(9, 15):
        mk_quantity(s)
    # value objects on top of (possibly non-unified) derived quantities
    ops.append(("wrap", 15, "Scalar", r.randrange(9, 15), [2.0], "list"))
    ops.append(("wrap", 16, "Array", r.randrange(9, 15), [2.0, 3.0], r.choice(["list", "nd"])))
    ops.append(("wrap", 17, "Scalar", r.randrange(9, 15), [5.0], "list"))
    nxt = 18
    scal = [0, 1, 2, 3, 4, 5, 15, 17]
    arrs = [6, 7, 8, 16]
    quants = list(range(9, 15))
    while len(ops) < length:
        k = r.random()
        if k < 0.30:
            pool = r.choice([scal, scal, arrs, quants])
            a, b = r.choice(pool), r.choice(pool)
            o = r.choice(["+", "-", "*", "/", "*", "/", "+", "-", "//"] + (["<", "==", "!="] if pool is scal else ["==", "!="]))
            dst = nxt if o in ("+", "-", "*", "/", "//") else None
            ops.append(("binop", dst, o, ("slot", a), ("slot", b)))
            if dst is not None:
                pool.append(dst) if len(pool) < 14 else None
                nxt += 1
        elif k < 0.36:
            ops.append(("pow", None, ("slot", r.choice(scal + quants)), r.randint(1, 4)))
        elif k < 0.46:
            s = r.choice(scal + arrs)
            ops.append(("getvalue", s, unit(r.choice(qts))))
        elif k < 0.54:
            s = r.choice(scal + arrs)
            ops.append(("copyunit", None, s, unit(r.choice(qts)), r.choice([None, None, r.choice(cats[r.choice(qts)])])))
        elif k < 0.64:
            ops.append(("copy", None, r.choice(scal + arrs + quants), r.choice(["copy", "deepcopy", "pickle", "Copy", "CreateCopy"])))
        elif k < 0.72:
            ops.append(("call", r.choice(scal + arrs), r.choice(["IsValid", "GetValidUnits", "GetUnitName", "GetFormattedSuffix", "GetQuantity", "HasCategory"]), ()))
        elif k < 0.78:
            ops.append(("call", r.choice(quants), r.choice(["GetValidUnits", "GetUnitName", "GetComposingUnitsJoiningExponents", "GetCategoryToUnitAndExpsCopy", "IsDerived", "MakeCopy", "GetCategoryInfo"]), ()))
        elif k < 0.82:
            ops.append(("call", r.choice(quants), "SetUnknownCaption", ("x",)))
        elif k < 0.88:
            ops.append(("builtin", r.choice(["repr", "str"]), r.choice(scal + arrs + quants)))
        elif k < 0.94:
            mk_quantity(r.choice(quants))
        else:
            mk_scalar(r.choice(scal[:6]))
    return ops


class Checker:
    def __init__(self, ctx, mon):
        self.ctx, self.mon = ctx, mon

    def run_history(self, hist):
        from barril.units import Quantity, ReadOnlyError

        ctx, mon = self.ctx, self.mon
        db = table.build("posc")
        mon.reset()
        requests = {}  # (kind, request) -> object, for "identical object when the request is repeated"
        with table.pushed(db):
            env = H.Env(db)
            for i, op in enumerate(hist):
                o, res = H.execute(env, op)
                ctx.ev()
                extra = []
                with probe.muted():
                    if isinstance(res, Quantity):
                        extra.append(res)
                    elif hasattr(res, "GetQuantity"):
                        try:
                            extra.append(res.GetQuantity())
                        except Exception:
                            pass
                    extra.extend(db.quantities_cache.values())
                for before, after, born in mon.quiescent(extra):
                    ctx.violation("quantity-changed-after:%s" % op[0], {"step": i, "op": op, "before": before, "after": after, "born_at_step": born}, replay={"history": hist[: i + 1]})
                with probe.muted():
                    if op[0] in ("quantity", "derived", "quantity_ctor") and o[0] == "ok":
                        rk = repr(op[2:])
                        if op[0] != "quantity_ctor":
                            prev = requests.get(rk)
                            ctx.ev()
                            if prev is not None and prev is not res:
                                ctx.violation("repeated-request-not-identical:%s" % op[0], {"op": op, "first": repr(prev), "second": repr(res), "equal": prev == res}, replay={"history": hist[: i + 1]})
                            requests[rk] = res
                    if op[0] == "copy" and o[0] == "ok":
                        src = env.pool[op[2]]
                        ctx.ev()
                        if isinstance(src, Quantity):
                            if op[3] in ("copy", "deepcopy", "Copy") and res is not src:
                                ctx.violation("copy-not-identical:%s" % op[3], {"op": op, "src": repr(src)}, replay={"history": hist[: i + 1]})
                            if op[3] == "pickle" and not (res == src and hash(res) == hash(src)):
                                ctx.violation("pickle-not-equal", {"op": op, "src": repr(src), "got": repr(res), "src_items": snapshot.quantity_fingerprint(src)[5], "got_items": snapshot.quantity_fingerprint(res)[5]}, replay={"history": hist[: i + 1]})
                        elif op[3] == "pickle" and hasattr(src, "GetQuantity") and hasattr(res, "GetQuantity"):
                            if not res.GetQuantity() == src.GetQuantity():
                                ctx.violation("pickle-not-equal", {"op": op, "src": repr(src.GetQuantity()), "got": repr(res.GetQuantity())}, replay={"history": hist[: i + 1]})
                    if op[0] == "call" and op[2] == "SetUnknownCaption" and o[0] != "skip":
                        ctx.ev()
                        if o != ("exc", "ReadOnlyError", "other:ReadOnlyError"):
                            ctx.violation("mutator-did-not-raise-ReadOnlyError", {"op": op, "outcome": o}, replay={"history": hist[: i + 1]})
            # end of history: equality partition + cache soundness
            for v in mon.partition_violations():
                ctx.violation("partition:%s" % v[0], {"a": v[1], "b": v[2], "items_a": v[3], "items_b": v[4], "eq": v[5]}, replay={"history": hist})
            for v in cache_violations(db):
                ctx.violation("cache:%s" % v[0], {"key": v[1], "resolved": v[2]}, replay={"history": hist})
            ctx.ev(2)
            ctx.count("quantities enrolled", len(mon.enrolled))
            ctx.count("cache entries checked", len(db.quantities_cache))


def long_haul(ctx, r):
    """'The identical object when the same request is repeated' - also when thousands of other quantities were
    requested in between (every unit of the table, with and without category, with captions, derived): a cache
    that forgets, evicts or re-keys would hand out a second instance."""
    from barril.units import ObtainQuantity, Quantity, Scalar

    db = table.build("posc")
    with table.pushed(db):
        ubt = table.units_by_type(db)
        cbt = table.categories_by_type(db)
        requests = []
        for qt in ("length", "time", "mass", "temperature", "pressure"):
            u, c = r.choice(ubt[qt]), r.choice(cbt[qt])
            requests += [("u", (u,)), ("u,c", (u, c)), ("u,c,caption", (u, c, "a caption")), ("u,None,caption", (u, None, "another caption")), ("None,c", (None, c)),
                         ("list", ([(u, 2)], [c])), ("dict", (OrderedDict([(c, [u, 3])]),))]  # fmt: skip
        first = [(name, args, ObtainQuantity(*args)) for name, args in requests]
        fps = [snapshot.quantity_fingerprint(q) for _n, _a, q in first]
        derived0 = (Scalar(2.0, "m") / Scalar(1.0, "s")).GetQuantity()
        n = 0
        for qt, us in ubt.items():
            for u in us:
                try:
                    ObtainQuantity(u)
                    n += 1
                    for c in cbt.get(qt, [])[:2]:
                        ObtainQuantity(u, c)
                        ObtainQuantity(u, c, "x")
                        n += 2
                except Exception:
                    pass
        ctx.count("long haul: other quantities requested in between", n)
        for (name, args, q), fp in zip(first, fps):
            ctx.ev()
            ctx.nt(("longhaul", name, repr(args)[:60]))
            again = ObtainQuantity(*args)
            if again is not q:
                ctx.violation("long-haul:repeated-request-not-identical:%s" % name, {"request": repr(args)[:120], "first": repr(q), "second": repr(again), "equal": again == q, "requests_in_between": n})
            elif snapshot.quantity_fingerprint(q) != fp:
                ctx.violation("long-haul:quantity-changed:%s" % name, {"request": repr(args)[:120], "before": repr(fp)[:300], "after": repr(snapshot.quantity_fingerprint(q))[:300]})
        ctx.ev()
        if (Scalar(2.0, "m") / Scalar(1.0, "s")).GetQuantity() is not derived0:
            ctx.violation("long-haul:repeated-request-not-identical:arithmetic-result", {"quantity": repr(derived0)})
        if Quantity.CreateEmpty() is not Quantity.CreateEmpty():
            ctx.violation("long-haul:repeated-request-not-identical:CreateEmpty", {})
        for v in cache_violations(db, 5):
            ctx.violation("long-haul:cache:%s" % v[0], {"key": repr(v[1])[:200], "resolved": repr(v[2])[:200]})


def run(ctx):
    from barril.units import Quantity, UnitDatabase

    mon = QuantityMonitor()
    mon.install()
    probe.reach([UnitDatabase._MatchQuantities, UnitDatabase._DoOperationWithSameQuantity, UnitDatabase._DoOperationResultingInNewQuantity, Quantity._CreateDerived, Quantity.__reduce__, Quantity.__eq__, Quantity.__hash__])
    ctx.rule = (
        "hostile histories (60-80 steps) over a small pool of units / categories / quantity types on a fresh POSC database: quantity creation in every form "
        "(string, legacy spelling, caption, constructor, default unit, CreateDerived / ObtainQuantity(dict) / ObtainQuantity(list) incl. two categories of one quantity type "
        "in different units), Scalar/Array/Quantity arithmetic with differing units and categories on both sides, conversions, failed operations, copies, pickles; "
        "after every step every Quantity constructed so far (enrolled from the Quantity.__init__ probe) and every cache value is re-fingerprinted; per history: "
        "==/hash partition over all pairs, cache soundness; one long-haul pass per shard: 35 requests repeated after ~5000 other quantities (every unit of the table) were requested. distinct non-trivial = distinct (op kind sequence) histories"
    )
    ctx.assumptions = ["vandalism through private attributes or through a dict the caller keeps and mutates after handing it to ObtainQuantity is not an operation of the library"]
    r = ctx.rng("hist")
    ck = Checker(ctx, mon)
    n_hist = 150 if ctx.tier == "quick" else 2500
    db0 = table.build("posc")
    cats = pools(db0)
    for h in range(n_hist):
        hist = gen_history(r, cats, r.randint(60, 80))
        ck.run_history(hist)
        ctx.nt(tuple(op[0] + str(op[2] if op[0] == "binop" else "") for op in hist))
        if h == 0 and ctx.shard == 0:
            ctx.sample({"history_steps_18_26": [[str(x) for x in op] for op in hist[18:26]]})
    long_haul(ctx, ctx.rng("longhaul"))
    ctx.count("fingerprint comparisons", mon.n_checks)
    ctx.notes["monitor"] = {"fingerprint_and_pair_checks": mon.n_checks}
    # thorough tier: the repository's own tests as a workload under the global monitors (vp/suite_workload.py)
    from .. import suite_workload

    suite_workload.run(ctx, "C07")
    ctx.inconclusive_if(probe.COUNTS["Quantity.__init__"] == 0, "Quantity.__init__ probe never fired")
    ctx.inconclusive_if(mon.n_checks < 1000, "monitor made only %d comparisons" % mon.n_checks)


def replay(ctx, d):
    mon = QuantityMonitor()
    mon.install()

    def fix(op):
        op = list(op)
        return tuple(tuple(x) if isinstance(x, list) and op[0] == "binop" else ([tuple(i) for i in x] if isinstance(x, list) and op[0] == "derived" else (tuple(x) if isinstance(x, list) and op[0] in ("call", "db") else x)) for x in op)

    Checker(ctx, mon).run_history([fix(op) for op in d["history"]])
