"""C07 - quantities are immutable values with sound equality / hash / copy (DESIGN.md 4, C07)."""
import itertools
import copy
import pickle
from collections import OrderedDict

from .. import probe
from ..models import snapshot
from ..monitors.quantity_frozen import QuantityMonitor, cache_violations
from ..workloads import histories as H
from ..workloads import table

SHARDS = {"quick": 4, "thorough": 16}
WATCHDOG_S = {"quick": 900, "thorough": 7200}
FLOORS = (5000, 200)

QTS = {
    "length": ["m", "cm", "km", "ft"],
    "time": ["s", "min", "h"],
    "mass": ["kg", "g", "lbm"],
    "amount of substance": ["mol", "lbmol", "kmol"],
}
LEGACY = {"amount of substance": ["lbmole", "gmole"]}


def pools(db):
    cbt = table.categories_by_type(db)
    return {qt: cbt.get(qt, [qt])[:3] for qt in QTS}


def gen_history(r, cats, length):
    """list of op specs. Slots: 0..5 scalars, 6..8 arrays, 9..14 quantities (incl. derived, possibly
    carrying two categories of one quantity type in different units), 15+ results."""
    ops = []
    qts = list(QTS)

    def unit(qt, legacy_ok=True):
        if legacy_ok and qt in LEGACY and r.random() < 0.3:
            return r.choice(LEGACY[qt])
        return r.choice(QTS[qt])

    def items(n=None):
        n = n or r.randint(2, 3)
        out, used = [], set()
        for _ in range(n):
            qt = r.choice(qts)
            c = r.choice(cats[qt])
            if c in used:
                continue
            used.add(c)
            out.append((c, r.choice(QTS[qt]), r.choice([-2, -1, 1, 1, 2, 3])))
        return out or [(cats["length"][0], "m", 2)]

    def mk_quantity(slot):
        k = r.random()
        qt = r.choice(qts)
        if k < 0.35:
            ops.append(("quantity", slot, unit(qt), r.choice(cats[qt] + [None]), None))
        elif k < 0.45:
            ops.append(("quantity", slot, unit(qt, False), r.choice(cats[qt]), r.choice(["cap", "Feeeet"])))
        elif k < 0.5:
            ops.append(("quantity_ctor", slot, r.choice(cats[qt]), unit(qt, False)))
        elif k < 0.55:
            ops.append(("quantity", slot, None, r.choice(cats[qt]), None))
        else:
            ops.append(("derived", slot, items(), r.choice(["CreateDerived", "ObtainQuantity(dict)", "ObtainQuantity(list)"])))

    def mk_scalar(slot):
        qt = r.choice(qts)
        form = r.choice(["cvu", "vuc", "vu", "tuple", "q", "cwq", "cu", "c"])
        ops.append(("scalar", slot, form, r.choice(cats[qt]), r.choice([1.0, 2.5, -3.0, 10.0, 0.0]), unit(qt)))

    def mk_array(slot):
        qt = r.choice(qts)
        ops.append(("array", slot, r.choice(["Array", "Array", "FixedArray"]), r.choice(cats[qt] + [None]), [1.0, 2.0, r.choice([3.0, 0.5])], unit(qt), r.choice(["list", "tuple", "nd"])))

    for s in range(6):
        mk_scalar(s)
    for s in range(6, 9):
        mk_array(s)
    for s in range(9, 15):
        mk_quantity(s)
    # value objects on top of (possibly non-unified) derived quantities
    ops.append(("wrap", 15, "Scalar", r.randrange(9, 15), [2.0], "list"))
    ops.append(("wrap", 16, "Array", r.randrange(9, 15), [2.0, 3.0], r.choice(["list", "nd"])))
    ops.append(("wrap", 17, "Scalar", r.randrange(9, 15), [5.0], "list"))
    nxt = 18
    scal = [0, 1, 2, 3, 4, 5, 15, 17]
    arrs = [6, 7, 8, 16]
    quants = list(range(9, 15))
    while len(ops) < length:
        k = r.random()
        if k < 0.30:
            pool = r.choice([scal, scal, arrs, quants])
            a, b = r.choice(pool), r.choice(pool)
            o = r.choice(["+", "-", "*", "/", "*", "/", "+", "-", "//"] + (["<", "==", "!="] if pool is scal else ["==", "!="]))
            dst = nxt if o in ("+", "-", "*", "/", "//") else None
            ops.append(("binop", dst, o, ("slot", a), ("slot", b)))
            if dst is not None:
                pool.append(dst) if len(pool) < 14 else None
                nxt += 1
        elif k < 0.36:
            ops.append(("pow", None, ("slot", r.choice(scal + quants)), r.choice([1, 2, 3, 4, -1, -2, -3, 0, -1, 2])))
        elif k < 0.46:
            s = r.choice(scal + arrs)
            ops.append(("getvalue", s, unit(r.choice(qts))))
        elif k < 0.54:
            s = r.choice(scal + arrs)
            ops.append(("copyunit", None, s, unit(r.choice(qts)), r.choice([None, None, r.choice(cats[r.choice(qts)])])))
        elif k < 0.64:
            ops.append(("copy", None, r.choice(scal + arrs + quants), r.choice(["copy", "deepcopy", "pickle", "Copy", "CreateCopy"])))
        elif k < 0.72:
            ops.append(("call", r.choice(scal + arrs), r.choice(["IsValid", "GetValidUnits", "GetUnitName", "GetFormattedSuffix", "GetQuantity", "HasCategory"]), ()))
        elif k < 0.78:
            ops.append(("call", r.choice(quants), r.choice(["GetValidUnits", "GetUnitName", "GetComposingUnitsJoiningExponents", "GetCategoryToUnitAndExpsCopy", "IsDerived", "MakeCopy", "GetCategoryInfo"]), ()))
        elif k < 0.82:
            ops.append(("call", r.choice(quants), "SetUnknownCaption", (r.choice(["x", "cap", "Feeeet", "", None]),)))
        elif k < 0.88:
            ops.append(("builtin", r.choice(["repr", "str"]), r.choice(scal + arrs + quants)))
        elif k < 0.94:
            mk_quantity(r.choice(quants))
        else:
            mk_scalar(r.choice(scal[:6]))
    return ops


class Checker:
    def __init__(self, ctx, mon):
        self.ctx, self.mon = ctx, mon

    def run_history(self, hist):
        from barril.units import ObtainQuantity, Quantity, ReadOnlyError

        ctx, mon = self.ctx, self.mon
        db = table.build("posc")
        mon.reset()
        requests = {}  # (kind, request) -> object, for "identical object when the request is repeated"
        with table.pushed(db):
            env = H.Env(db)
            for i, op in enumerate(hist):
                o, res = H.execute(env, op)
                ctx.ev()
                extra = []
                with probe.muted():
                    if isinstance(res, Quantity):
                        extra.append(res)
                    elif hasattr(res, "GetQuantity"):
                        try:
                            extra.append(res.GetQuantity())
                        except Exception:
                            pass
                    extra.extend(db.quantities_cache.values())
                for before, after, born in mon.quiescent(extra):
                    ctx.violation("quantity-changed-after:%s" % op[0], {"step": i, "op": op, "before": before, "after": after, "born_at_step": born}, replay={"history": hist[: i + 1]})
                with probe.muted():
                    if op[0] in ("quantity", "derived", "quantity_ctor") and o[0] == "ok":
                        rk = repr(op[2:])
                        if op[0] != "quantity_ctor":
                            prev = requests.get(rk)
                            ctx.ev()
                            if prev is not None and prev is not res:
                                ctx.violation("repeated-request-not-identical:%s" % op[0], {"op": op, "first": repr(prev), "second": repr(res), "equal": prev == res}, replay={"history": hist[: i + 1]})
                            requests[rk] = res
                    if op[0] == "derived" and o[0] == "ok":
                        # the request names its composing map: the answer carries exactly that map (a single factor
                        # with exponent 1 is the simple quantity), whichever of the three request forms was used
                        items = op[2]
                        ctx.ev()
                        ctx.count("derived requests compared with the map they name")
                        want = [(c, u, e) for c, u, e in items]
                        got = [(c, u, e) for c, (u, e) in res.GetCategoryToUnitAndExps().items()] if isinstance(res, Quantity) else None
                        if got != want:
                            ctx.violation("derived-request-answered-with-another-composing-map:%s" % op[3], {"op": op, "asked": want, "got": got, "answer": repr(res)}, replay={"history": hist[: i + 1]})
                        for other_form in ("CreateDerived", "ObtainQuantity(dict)", "ObtainQuantity(list)"):
                            if other_form != op[3]:
                                o2, res2 = H.execute(env, ("derived", None, items, other_form))
                                ctx.ev()
                                if o2[0] != "ok" or not (res2 == res and hash(res2) == hash(res)):
                                    ctx.violation("derived-request-forms-disagree:%s-vs-%s" % (op[3], other_form), {"op": op, "first": repr(res), "other": repr(res2), "other_outcome": o2[:2]}, replay={"history": hist[: i + 1]})
                    if op[0] == "derived" and o[0] == "ok" and isinstance(res, Quantity):
                        # "a copy with another map" (MakeCopy / CreateCopyInstance) is one more request form: asked for
                        # the same factors in another order, as a plain dict or an OrderedDict, it answers what
                        # CreateDerived answers for that map
                        perm = list(reversed(op[2])) if len(op[2]) > 1 else list(op[2])
                        try:
                            ref = Quantity.CreateDerived(OrderedDict((c, [u, e]) for c, u, e in perm))
                        except Exception:
                            ref = None
                        if ref is not None:
                            for form, fn in (
                                ("MakeCopy(dict)", lambda: res.MakeCopy({c: [u, e] for c, u, e in perm})), ("MakeCopy(OrderedDict)", lambda: res.MakeCopy(OrderedDict((c, [u, e]) for c, u, e in perm))),
                                ("CreateCopyInstance(dict)", lambda: res.CreateCopyInstance({c: [u, e] for c, u, e in perm})), ("MakeCopy(dict, same order)", None),
                            ):  # fmt: skip
                                ctx.ev()
                                try:
                                    if fn is None:
                                        cp, want_q = res.MakeCopy({c: [u, e] for c, u, e in op[2]}), res
                                    else:
                                        cp, want_q = fn(), ref
                                except Exception as e:
                                    ctx.violation("copy-with-a-map-raised:%s:%s" % (form, type(e).__name__), {"op": op, "map": perm, "error": str(e)[:160]}, replay={"history": hist[: i + 1]})
                                    continue
                                if not (cp == want_q and hash(cp) == hash(want_q)) or snapshot.quantity_fingerprint(cp)[5] != snapshot.quantity_fingerprint(want_q)[5]:
                                    ctx.violation("copy-with-a-map-answers-another-quantity:%s" % form, {"op": op, "map": perm, "got": repr(cp), "got_items": snapshot.quantity_fingerprint(cp)[5], "CreateDerived_gives": repr(want_q), "its_items": snapshot.quantity_fingerprint(want_q)[5]}, replay={"history": hist[: i + 1]})
                    if op[0] == "derived" and o[0] == "ok" and isinstance(res, Quantity):
                        # a caller that keeps working on the dict it handed over (building m/s, m/s2, m/s3 from one dict):
                        # the quantity answered for a map not requested before must not follow the caller's later edits
                        far = [(c, u, e + 5 if e > 0 else e - 5) for c, u, e in op[2]]
                        for form in ("CreateDerived", "ObtainQuantity(dict)", "MakeCopy(dict)", "ObtainQuantity(list)"):
                            work = OrderedDict((c, [u, e + (k_form := ("CreateDerived", "ObtainQuantity(dict)", "MakeCopy(dict)", "ObtainQuantity(list)").index(form)) * (1 if e > 0 else -1)]) for c, u, e in far)
                            asked = [(c, v[0], v[1]) for c, v in work.items()]
                            try:
                                if form == "CreateDerived":
                                    q2 = Quantity.CreateDerived(work)
                                elif form == "ObtainQuantity(dict)":
                                    q2 = ObtainQuantity(work)
                                elif form == "MakeCopy(dict)":
                                    q2 = res.MakeCopy(work)
                                else:
                                    rows = [v for v in work.values()]
                                    q2 = ObtainQuantity(rows, list(work))
                            except Exception:
                                continue
                            fp2 = snapshot.quantity_fingerprint(q2)
                            if form in ("ObtainQuantity(dict)", "ObtainQuantity(list)"):
                                # the same with one entry in a legacy spelling (the request is rewritten on the way in): the
                                # *other* entries are still the caller's lists
                                wl = OrderedDict([("volume", ["1000ft3", 2 + k_form]), ("time", ["s", -3 - k_form])])
                                try:
                                    ql = ObtainQuantity(wl) if form == "ObtainQuantity(dict)" else ObtainQuantity([v_ for v_ in wl.values()], list(wl))
                                    fpl = snapshot.quantity_fingerprint(ql)
                                    wl["time"][0], wl["time"][1] = "h", 2
                                    wl["volume"][1] = 9
                                    ctx.ev()
                                    if snapshot.quantity_fingerprint(ql) != fpl:
                                        ctx.violation("quantity-follows-the-callers-later-edits-of-the-map:%s (one entry in a legacy spelling)" % form, {"before": repr(fpl)[:300], "after": repr(snapshot.quantity_fingerprint(ql))[:300]}, replay={"history": hist[: i + 1]})
                                except Exception as e:
                                    ctx.violation("derived-request-with-a-legacy-entry-raised:%s" % type(e).__name__, {"form": form, "error": str(e)[:160]}, replay={"history": hist[: i + 1]})
                            for v in work.values():
                                v[1] = 1
                                v[0] = "s" if v[0] != "s" else "m"
                            work.clear()
                            ctx.ev()
                            ctx.count("maps edited by the caller after the request")
                            now = snapshot.quantity_fingerprint(q2)
                            if now != fp2:
                                ctx.violation("quantity-follows-the-callers-later-edits-of-the-map:%s" % form, {"asked": asked, "before": repr(fp2)[:300], "after": repr(now)[:300]}, replay={"history": hist[: i + 1]})
                    if op[0] == "copy" and o[0] == "ok":
                        src = env.pool[op[2]]
                        ctx.ev()
                        if isinstance(src, Quantity):
                            if op[3] in ("copy", "deepcopy", "Copy") and res is not src:
                                ctx.violation("copy-not-identical:%s" % op[3], {"op": op, "src": repr(src)}, replay={"history": hist[: i + 1]})
                            if op[3] == "pickle" and not (res == src and hash(res) == hash(src)):
                                ctx.violation("pickle-not-equal", {"op": op, "src": repr(src), "got": repr(res), "src_items": snapshot.quantity_fingerprint(src)[5], "got_items": snapshot.quantity_fingerprint(res)[5]}, replay={"history": hist[: i + 1]})
                        elif op[3] == "pickle" and hasattr(src, "GetQuantity") and hasattr(res, "GetQuantity"):
                            if not res.GetQuantity() == src.GetQuantity():
                                ctx.violation("pickle-not-equal", {"op": op, "src": repr(src.GetQuantity()), "got": repr(res.GetQuantity())}, replay={"history": hist[: i + 1]})
                    if op[0] == "call" and op[2] == "SetUnknownCaption" and o[0] != "skip":
                        ctx.ev()
                        if o != ("exc", "ReadOnlyError", "other:ReadOnlyError"):
                            ctx.violation("mutator-did-not-raise-ReadOnlyError", {"op": op, "outcome": o}, replay={"history": hist[: i + 1]})
            # end of history: equality partition + cache soundness
            for v in mon.partition_violations():
                ctx.violation("partition:%s" % v[0], {"a": v[1], "b": v[2], "items_a": v[3], "items_b": v[4], "eq": v[5]}, replay={"history": hist})
            for v in cache_violations(db):
                ctx.violation("cache:%s" % v[0], {"key": v[1], "resolved": v[2]}, replay={"history": hist})
            ctx.ev(2)
            ctx.count("quantities enrolled", len(mon.enrolled))
            ctx.count("cache entries checked", len(db.quantities_cache))


def long_haul(ctx, r):
    """'The identical object when the same request is repeated' - also when thousands of other quantities were
    requested in between (every unit of the table, with and without category, with captions, derived): a cache
    that forgets, evicts or re-keys would hand out a second instance."""
    from barril.units import ObtainQuantity, Quantity, Scalar

    db = table.build("posc")
    with table.pushed(db):
        ubt = table.units_by_type(db)
        cbt = table.categories_by_type(db)
        requests = []
        for qt in ("length", "time", "mass", "temperature", "pressure"):
            u, c = r.choice(ubt[qt]), r.choice(cbt[qt])
            requests += [("u", (u,)), ("u,c", (u, c)), ("u,c,caption", (u, c, "a caption")), ("u,None,caption", (u, None, "another caption")), ("None,c", (None, c)),
                         ("list", ([(u, 2)], [c])), ("dict", (OrderedDict([(c, [u, 3])]),))]  # fmt: skip
        first = [(name, args, ObtainQuantity(*args)) for name, args in requests]
        fps = [snapshot.quantity_fingerprint(q) for _n, _a, q in first]
        derived0 = (Scalar(2.0, "m") / Scalar(1.0, "s")).GetQuantity()
        n = 0
        for qt, us in ubt.items():
            for u in us:
                try:
                    ObtainQuantity(u)
                    n += 1
                    for c in cbt.get(qt, [])[:2]:
                        ObtainQuantity(u, c)
                        ObtainQuantity(u, c, "x")
                        n += 2
                except Exception:
                    pass
        ctx.count("long haul: other quantities requested in between", n)
        for (name, args, q), fp in zip(first, fps):
            ctx.ev()
            ctx.nt(("longhaul", name, repr(args)[:60]))
            again = ObtainQuantity(*args)
            if again is not q:
                ctx.violation("long-haul:repeated-request-not-identical:%s" % name, {"request": repr(args)[:120], "first": repr(q), "second": repr(again), "equal": again == q, "requests_in_between": n})
            elif snapshot.quantity_fingerprint(q) != fp:
                ctx.violation("long-haul:quantity-changed:%s" % name, {"request": repr(args)[:120], "before": repr(fp)[:300], "after": repr(snapshot.quantity_fingerprint(q))[:300]})
        ctx.ev()
        if (Scalar(2.0, "m") / Scalar(1.0, "s")).GetQuantity() is not derived0:
            ctx.violation("long-haul:repeated-request-not-identical:arithmetic-result", {"quantity": repr(derived0)})
        if Quantity.CreateEmpty() is not Quantity.CreateEmpty():
            ctx.violation("long-haul:repeated-request-not-identical:CreateEmpty", {})
        for v in cache_violations(db, 5):
            ctx.violation("long-haul:cache:%s" % v[0], {"key": repr(v[1])[:200], "resolved": repr(v[2])[:200]})


REQUEST_FAMILIES = [
    # (current spelling, legacy spellings) - the same few requests in every order
    ("Mcf/d", ["1000ft3/d", "k(ft3)/d"]), ("lbmol", ["lbmole"]), ("N.s/m", ["Ns/m"]), ("MMm3", ["M(m3)"]), ("kg/gmol", ["kg/gmole"]), ("m", []), ("degC", []), ("<unknown>", []), ("s", []),
]  # fmt: skip


def request_orders(ctx, r, n_orders):
    """'The identical object when the same request is repeated' whatever was requested in between: a small family of
    requests that name one unit (current / legacy spelling x explicit category / none / another category of the type x
    caption / none, as a string request and through Scalar), asked in many orders on a fresh database; after every new
    request every earlier one is asked again. Requests that name the same category, unit and caption are equal."""
    from barril.units import ObtainQuantity, Scalar

    db0 = table.build("posc")
    cbt = table.categories_by_type(db0)
    for cur, legs in REQUEST_FAMILIES:
        if cur not in db0.unit_to_unit_info:
            continue
        qt = db0.unit_to_unit_info[cur].quantity_type
        c0 = db0.GetDefaultCategory(cur)
        others = [c for c in cbt.get(qt, []) if c != c0][:1]
        forms = []
        for u in [cur] + legs:
            forms += [(u, c0, None), (u, None, None), (u, c0, "cap"), (u, None, "cap")]
            forms += [(u, c, None) for c in others]
        if db0.GetDefaultUnit(c0) == cur:
            # the unit left out: "the default unit of the category" - with and without a caption, and with an empty caption
            forms += [(None, c0, None), (None, c0, "cap"), (cur, c0, ""), (None, c0, "")]
        forms = [("ObtainQuantity",) + f for f in forms] + [("Scalar",) + f for f in forms if f[2] is None and f[0] is not None][:4]
        for k in range(n_orders):
            order = list(forms)
            r.shuffle(order)
            order = order[: r.randint(3, len(order))]
            db = table.build("posc")
            with table.pushed(db):
                got = []
                for how, u, c, cap in order:
                    try:
                        q = ObtainQuantity(u, c, cap) if how == "ObtainQuantity" else (Scalar(c, 1.0, u) if c else Scalar(1.0, u)).GetQuantity()
                    except Exception as e:
                        ctx.ev()
                        ctx.violation("request-order:request-raised:%s" % type(e).__name__, {"order": order, "request": [how, u, c, cap], "error": str(e)[:160]})
                        break
                    got.append(((how, u, c, cap), q, snapshot.quantity_fingerprint(q)))
                    # the mutator raises whatever it is asked to set - also the caption the quantity already has
                    for new_caption in (q.GetUnknownCaption(), "other", ""):
                        ctx.ev()
                        try:
                            q.SetUnknownCaption(new_caption)
                            ctx.violation("mutator-did-not-raise-ReadOnlyError", {"request": [how, u, c, cap], "SetUnknownCaption": new_caption, "own_caption": q.GetUnknownCaption()})
                        except Exception as e:
                            if type(e).__name__ != "ReadOnlyError":
                                ctx.violation("mutator-raised-another-error:%s" % type(e).__name__, {"request": [how, u, c, cap], "SetUnknownCaption": new_caption})
                    ctx.nt(("request-order", cur, how, u == cur, c is None, cap))
                    for (req, q0, fp0) in got:
                        ctx.ev()
                        h0, u0, cc0, cap0 = req
                        again = ObtainQuantity(u0, cc0, cap0) if h0 == "ObtainQuantity" else (Scalar(cc0, 1.0, u0) if cc0 else Scalar(1.0, u0)).GetQuantity()
                        if again is not q0:
                            ctx.violation("request-order:repeated-request-not-identical", {"order": order[: len(got)], "request": list(req), "first": repr(q0), "again": repr(again), "equal": again == q0})
                        elif snapshot.quantity_fingerprint(q0) != fp0:
                            ctx.violation("request-order:quantity-changed", {"order": order[: len(got)], "request": list(req)})
                # same (category, unit, caption) named -> equal, hash-equal; otherwise unequal
                for (ra, qa, _fa), (rb, qb, _fb) in itertools.combinations(got, 2):
                    ctx.ev()
                    same = (ra[2] or c0, ra[3] or None) == (rb[2] or c0, rb[3] or None)  # (an empty caption is no caption)
                    if same and not (qa == qb and hash(qa) == hash(qb)):
                        ctx.violation("request-order:same-category-unit-caption-not-equal", {"a": list(ra), "b": list(rb), "qa": repr(qa), "qb": repr(qb)})
                    if not same and qa == qb:
                        ctx.violation("request-order:different-requests-equal", {"a": list(ra), "b": list(rb), "qa": repr(qa), "qb": repr(qb)})
                # the category registered again for the same quantity type with another default unit: "the default unit of the
                # category" is the new one from then on, for the unit-less request too
                if db0.GetDefaultUnit(c0) == cur and got:
                    qt_ = db.GetCategoryQuantityType(c0)
                    other_u = next((w for w in db.GetUnits(qt_) if w != cur), None)
                    if other_u is not None:
                        ctx.ev()
                        try:
                            before_q = ObtainQuantity(None, c0)
                            db.AddCategory(c0, qt_, override=True, default_unit=other_u)
                            after_q, explicit = ObtainQuantity(None, c0), ObtainQuantity(other_u, c0)
                            if after_q.GetUnit() != other_u or not (after_q == explicit and hash(after_q) == hash(explicit)) or ObtainQuantity(None, c0, "cap").GetUnit() != other_u:
                                ctx.violation("request-order:unit-less-request-keeps-the-default-unit-of-the-overridden-definition", {"category": c0, "old_default": cur, "new_default": other_u, "got": repr(after_q), "before": repr(before_q)})
                        except Exception as e:
                            ctx.violation("request-order:override-raised:%s" % type(e).__name__, {"category": c0, "error": str(e)[:160]})
            ctx.count("request orders run")


def reused_request_maps(ctx):
    """A caller that keeps ONE dict and edits it between requests (m2/s, m3/s, m2/s, ... in a loop): every request is
    answered with the quantity of what the dict holds *now* - whether the previous request was a first one or a repeat."""
    from barril.units import ObtainQuantity, Quantity

    db = table.build("posc")
    with table.pushed(db):
        for form in ("ObtainQuantity(dict)", "CreateDerived", "ObtainQuantity(list,categories)", "MakeCopy(dict)"):
            for caption in (None, "a caption"):
                work = OrderedDict([("length", ["m", 2]), ("time", ["s", -1])])
                seen = []
                for step, (e1, u2) in enumerate([(2, "s"), (2, "s"), (3, "s"), (3, "s"), (2, "s"), (3, "min"), (3, "min"), (2, "min"), (2, "s"), (4, "s"), (2, "s")]):
                    work["length"][1] = e1
                    work["time"][0] = u2
                    ctx.ev()
                    try:
                        if form == "ObtainQuantity(dict)":
                            q = ObtainQuantity(work, None, caption)
                        elif form == "CreateDerived":
                            q = Quantity.CreateDerived(work, caption)
                        elif form == "MakeCopy(dict)":
                            q = ObtainQuantity("m", "length").MakeCopy(work)
                        else:
                            q = ObtainQuantity([v for v in work.values()], list(work), caption)
                        got = [(c, v[0], v[1]) for c, v in q.GetCategoryToUnitAndExps().items()]
                    except Exception as e:
                        ctx.violation("reused-map:request-raised:%s:%s" % (form, type(e).__name__), {"step": step, "error": str(e)[:160]})
                        break
                    want = [("length", "m", e1), ("time", u2, -1)]
                    seen.append(want)
                    if got != want:
                        ctx.violation("reused-map:answered-with-the-quantity-of-an-earlier-request:%s" % form, {"caption": caption, "asked": want, "got": got, "requests_so_far": seen[-4:]}, replay={"reused_maps": True})
                        break
                ctx.count("requests through one reused, edited map")


def maps_handed_back(ctx):
    """A caller that builds a new quantity from the composing map of an existing one (what `GetCategoryToUnitAndExps()` hands
    out), also a map that leaves a unit to the category (None): neither the existing quantity nor the caller's own map is
    rewritten by the request."""
    from barril.units import ObtainQuantity, Quantity

    db = table.build("posc")
    with table.pushed(db):
        for mk in (lambda: OrderedDict([("length", [None, 2]), ("time", ["s", -1])]), lambda: OrderedDict([("length", ["m", 1]), ("time", [None, -2])]), lambda: OrderedDict([("depth", [None, 1]), ("length", ["cm", 1])])):
            for first in ("ObtainQuantity(dict)", "CreateDerived", "Quantity(map)"):
                ctx.ev()
                try:
                    mine = mk()
                    before_mine = repr(mine)
                    q = ObtainQuantity(mine) if first == "ObtainQuantity(dict)" else (Quantity.CreateDerived(mine) if first == "CreateDerived" else Quantity(mine, None))
                    if repr(mine) != before_mine:
                        ctx.violation("request-rewrote-the-callers-map:%s" % first, {"handed_over": before_mine, "now": repr(mine)}, replay={"maps_handed_back": True})
                    fp0 = snapshot.quantity_fingerprint(q)
                    for again in ("CreateDerived(q.GetCategoryToUnitAndExps())", "ObtainQuantity(q.GetCategoryToUnitAndExps())", "q.MakeCopy(q.GetCategoryToUnitAndExps())", "CreateDerived(copy of it)"):
                        m2 = q.GetCategoryToUnitAndExps()
                        q2 = {"CreateDerived(q.GetCategoryToUnitAndExps())": lambda: Quantity.CreateDerived(m2), "ObtainQuantity(q.GetCategoryToUnitAndExps())": lambda: ObtainQuantity(m2), "q.MakeCopy(q.GetCategoryToUnitAndExps())": lambda: q.MakeCopy(m2),
                              "CreateDerived(copy of it)": lambda: Quantity.CreateDerived(q.GetCategoryToUnitAndExpsCopy())}[again]()
                        ctx.ev()
                        if snapshot.quantity_fingerprint(q) != fp0:
                            ctx.violation("quantity-changed-when-its-own-map-was-handed-to-a-request:%s" % again, {"built_by": first, "before": repr(fp0)[:240], "after": repr(snapshot.quantity_fingerprint(q))[:240]}, replay={"maps_handed_back": True})
                            fp0 = snapshot.quantity_fingerprint(q)
                        del q2
                except Exception as e:
                    ctx.count("requests with a unit left to the category that were refused (%s)" % type(e).__name__)
        ctx.count("maps handed back to requests")


def constructor_forms(ctx):
    """One quantity reached through every way of asking for it - the interning request, the constructor with (category, unit),
    the constructor and the requests with a one-entry composing map - is one value: pairwise ==, not !=, equal hashes, one
    element of a set. The same for the quantity without any unit, plain and with a caption (which is another value)."""
    from barril.units import ObtainQuantity, Quantity, Scalar

    db = table.build("posc")
    with table.pushed(db):
        groups = []
        for u, c, cap in (("m", "length", None), ("cm", "depth", None), ("m", "length", "a caption"), ("degC", "temperature", None), ("1000ft3/d", "volume flow rate", None), ("s", "time", "")):
            od = lambda: OrderedDict([(c, [u, 1])])  # noqa: E731
            forms = [
                ("ObtainQuantity(u,c,caption)", lambda: ObtainQuantity(u, c, cap)), ("Quantity(c,u,caption)", lambda: Quantity(c, u, cap)), ("Quantity(map,None,caption)", lambda: Quantity(od(), None, cap)),
                ("ObtainQuantity(map,None,caption)", lambda: ObtainQuantity(od(), None, cap)), ("CreateDerived(map,caption)", lambda: Quantity.CreateDerived(od(), cap)),
                ("ObtainQuantity([(u,1)],[c],caption)", lambda: ObtainQuantity([(u, 1)], [c], cap)), ("Scalar(c,x,u).GetQuantity()", (lambda: Scalar(c, 1.0, u).GetQuantity()) if not cap else None),
            ]  # fmt: skip
            groups.append(("%s %s %r" % (u, c, cap), cap or "", [(n, f) for n, f in forms if f is not None]))
        empties = [("CreateEmpty()", lambda: Quantity.CreateEmpty()), ("ObtainQuantity({})", lambda: ObtainQuantity(OrderedDict())), ("CreateDerived({})", lambda: Quantity.CreateDerived(OrderedDict())),
                   ("units that cancel", lambda: (Scalar(6.0, "m") / Scalar(3.0, "m")).GetQuantity()), ("empty.MakeCopy({})", lambda: Quantity.CreateEmpty().MakeCopy({}))]  # fmt: skip
        captioned = [("CreateDerived({}, caption)", lambda: Quantity.CreateDerived(OrderedDict(), "no unit, but a caption")), ("ObtainQuantity({}, None, caption)", lambda: ObtainQuantity(OrderedDict(), None, "no unit, but a caption")),
                     ("Quantity({}, None, caption)", lambda: Quantity(OrderedDict(), None, "no unit, but a caption"))]  # fmt: skip
        groups.append(("no unit", "", empties))
        # one composition requested with its factors in either order, as an OrderedDict and as a plain dict (which the library may
        # refuse): whatever is handed out, equal quantities are one value - same hash, same composing categories, same unit
        for first, second in ((("length", ["m", 1]), ("time", ["s", -1])), (("mass", ["lbm", 1]), ("volume", ["bbl", -1])), (("time", ["wk", 2]), ("length", ["mi", 1]))):
            got = []
            for oname, items in (("as given", (first, second)), ("swapped", (second, first))):
                for mname, mk in (("dict", dict), ("OrderedDict", OrderedDict)):  # (the plain dict first: nothing is interned for it yet)
                    ctx.ev()
                    try:
                        got.append(("%s %s" % (mname, oname), ObtainQuantity(mk((c_, list(ue)) for c_, ue in items))))
                    except Exception:
                        ctx.count("compositions refused as a plain dict" if mname == "dict" else "compositions refused as an OrderedDict")
            for (na, a), (nb, b) in itertools.combinations(got, 2):
                ctx.ev()
                ctx.nt(("composition orders", first[0], second[0], na, nb))
                if (a == b) != (b == a) or (a == b and (hash(a) != hash(b) or a.GetComposingCategories() != b.GetComposingCategories() or a.GetUnit() != b.GetUnit() or a != b or len({a, b}) != 1)):
                    ctx.violation("constructor-forms:equal-quantities-are-not-one-value", {"a": na, "b": nb, "repr": [repr(a), repr(b)], "composing_categories": [repr(a.GetComposingCategories()), repr(b.GetComposingCategories())],
                                                                                            "hashes_equal": hash(a) == hash(b)}, replay={"constructor_forms": True})  # fmt: skip
        groups.append(("no unit, captioned", "no unit, but a caption", captioned))
        built = {}
        for gname, cap, forms in groups:
            objs = []
            for n, f in forms:
                ctx.ev()
                try:
                    objs.append((n, f()))
                    # a request made through the intern table, repeated (while the first answer is alive), is answered with the identical object
                    if not n.startswith("Quantity(") and f() is not objs[-1][1]:
                        ctx.violation("constructor-forms:repeated-request-is-another-object", {"quantity": gname, "form": n, "ids": [id(objs[-1][1]), id(f())]}, replay={"constructor_forms": True})
                except Exception as e:
                    ctx.violation("constructor-forms:raised:%s:%s" % (n, type(e).__name__), {"quantity": gname, "error": str(e)[:160]})
            built[gname] = objs
            for (na, a), (nb, b) in itertools.combinations(objs, 2):
                ctx.ev()
                ctx.nt(("constructor forms", gname, na, nb))
                bad = []
                if not a == b or not b == a:
                    bad.append("not ==")
                if a != b:
                    bad.append("!=")
                if hash(a) != hash(b):
                    bad.append("hashes differ")
                if len({a, b}) != 1 or {a: 1}.get(b) != 1:
                    bad.append("two set elements / dict lookup fails")
                if (a.GetUnknownCaption() or "") != cap or (b.GetUnknownCaption() or "") != cap:
                    bad.append("caption is %r / %r" % (a.GetUnknownCaption(), b.GetUnknownCaption()))
                if bad:
                    ctx.violation("constructor-forms:one-quantity-two-values", {"quantity": gname, "a": na, "b": nb, "problems": bad, "repr": [repr(a), repr(b)]}, replay={"constructor_forms": True})
        # the captioned unit-less quantity is another value than the plain one
        for (na, a) in built.get("no unit", []):
            for (nb, b) in built.get("no unit, captioned", []):
                ctx.ev()
                if a == b or not (a != b):
                    ctx.violation("constructor-forms:two-quantities-one-value", {"a": na, "b": nb, "repr": [repr(a), repr(b)], "captions": [a.GetUnknownCaption(), b.GetUnknownCaption()]}, replay={"constructor_forms": True})
        ctx.count("quantities reached through every way of asking", len(groups))


def pickles_from_elsewhere(ctx):
    """A pickled quantity (or value object) is read where nothing is interned for it: after the database's interned
    quantities were dropped, for a quantity that was constructed directly and never interned, and in another process.
    The round trip gives an equal quantity (same items, same hash here)."""
    import os
    import subprocess
    import sys

    from barril.units import Array, FixedArray, GetUnknownQuantity, ObtainQuantity, Quantity, Scalar, UnitDatabase

    from .. import env

    def samples():
        m_s = OrderedDict([("length", ["m", 1]), ("time", ["s", -1])])
        return [
            ("simple", ObtainQuantity("m", "length")), ("other category", ObtainQuantity("cm", "depth")), ("captioned", ObtainQuantity("m", "length", "a caption")), ("unknown", GetUnknownQuantity("furlong")),
            ("empty", Quantity.CreateEmpty()), ("derived m/s", ObtainQuantity(OrderedDict((k, list(v)) for k, v in m_s.items()))), ("derived m/m", (Scalar(1.0, "m") / Scalar(2.0, "m")).GetQuantity()),
            ("derived, never interned", Quantity(OrderedDict([("length", ["km", 2]), ("time", ["h", -2])]), None)), ("derived with caption", ObtainQuantity(OrderedDict((k, list(v)) for k, v in m_s.items()), None, "cap")),
            ("product", (Scalar(2.0, "kg") * Scalar(3.0, "m") / Scalar(1.0, "s")).GetQuantity()), ("Scalar m/s2", Scalar(2.0, "m") / Scalar(1.0, "s") / Scalar(1.0, "s")), ("FixedArray m2", FixedArray(2, "length", [1.0, 2.0], "m") * FixedArray(2, "length", [1.0, 2.0], "m")),
            ("Scalar degC", Scalar(0.0, "degC")), ("legacy spelling", ObtainQuantity("1000ft3/d", "volume flow rate")),
            ("derived with a zero exponent", ObtainQuantity(OrderedDict([("length", ["m", 2]), ("time", ["s", 0])]))), ("Scalar on it", Scalar(ObtainQuantity(OrderedDict([("length", ["m", 2]), ("time", ["s", 0])])), 2.0)),
            ("derived, a unit left to the category", ObtainQuantity(OrderedDict([("length", [None, 2]), ("time", ["s", -1])]))),
        ]  # fmt: skip

    def fp(o):
        q = o.GetQuantity() if hasattr(o, "GetQuantity") else o
        return repr(snapshot.quantity_fingerprint(q)[5]) + "|" + repr(q.GetUnknownCaption()) + ("|" + repr(o.GetAbstractValue()) if hasattr(o, "GetAbstractValue") else "")

    db = table.build("posc")
    blobs = []
    with table.pushed(db):
        objs = samples()
        for name, o in objs:
            try:
                blobs.append((name, pickle.dumps(o, 2), fp(o)))
            except Exception as e:
                ctx.count("objects that cannot be pickled")
                blobs.append((name, None, repr(e)))
        # (a0) in this very process, everything still interned
        for (name, blob, want), (_n, o) in zip(blobs, objs):
            if blob is None:
                continue
            ctx.ev()
            try:
                back = pickle.loads(blob)
                qb, qo = (back.GetQuantity(), o.GetQuantity()) if hasattr(o, "GetQuantity") else (back, o)
                if fp(back) != want or not (qb == qo) or hash(qb) != hash(qo):
                    ctx.violation("pickle-not-equal:read in the same process", {"object": name, "wrote": want, "read": fp(back)}, replay={"pickles_elsewhere": True})
            except Exception as e:
                ctx.violation("pickle-raised:read in the same process:%s" % type(e).__name__, {"object": name, "error": str(e)[:200]}, replay={"pickles_elsewhere": True})
        # (a) nothing interned any more on this database
        db.quantities_cache.clear()
        for (name, blob, want), (_n, o) in zip(blobs, objs):
            if blob is None:
                continue
            ctx.ev()
            ctx.nt(("pickle elsewhere", "interned quantities dropped", name))
            try:
                back = pickle.loads(blob)
                qb, qo = (back.GetQuantity(), o.GetQuantity()) if hasattr(o, "GetQuantity") else (back, o)
                if fp(back) != want or not (qb == qo) or hash(qb) != hash(qo):
                    ctx.violation("pickle-not-equal:read after the interned quantities were dropped", {"object": name, "wrote": want, "read": fp(back)}, replay={"pickles_elsewhere": True})
            except Exception as e:
                ctx.violation("pickle-raised:read after the interned quantities were dropped:%s" % type(e).__name__, {"object": name, "error": str(e)[:200]}, replay={"pickles_elsewhere": True})
    # (b) another process reads what this one wrote
    import base64
    import json

    payload = json.dumps([[n, base64.b64encode(b).decode()] for n, b, _w in blobs if b is not None])
    child = (
        "import sys, json, base64, pickle; sys.path.insert(0, %r); sys.path.insert(0, %r)\n"
        "from vp import env; env.setup()\n"
        "from vp.models import snapshot\n"
        "out = {}\n"
        "for n, b in json.loads(sys.stdin.read()):\n"
        "    try:\n"
        "        o = pickle.loads(base64.b64decode(b)); q = o.GetQuantity() if hasattr(o, 'GetQuantity') else o\n"
        "        out[n] = repr(snapshot.quantity_fingerprint(q)[5]) + '|' + repr(q.GetUnknownCaption()) + ('|' + repr(o.GetAbstractValue()) if hasattr(o, 'GetAbstractValue') else '')\n"
        "    except Exception as e:\n"
        "        out[n] = 'RAISED ' + type(e).__name__ + ': ' + str(e)[:160]\n"
        "print(json.dumps(out))\n"
    ) % (env.VERIF_DIR, env.REPO_SRC)
    try:
        p = subprocess.run([env.PYTHON, "-c", child.replace("\\n", "\n")], input=payload, capture_output=True, text=True, timeout=300, env=dict(os.environ, VERIF_REPO=env.REPO))
        read = json.loads(p.stdout.strip().splitlines()[-1])
    except Exception as e:
        ctx.inconclusive.append("the reading process did not answer: %s" % repr(e)[:160])
        return
    for name, blob, want in blobs:
        if blob is None:
            continue
        ctx.ev()
        ctx.nt(("pickle elsewhere", "another process", name))
        got = read.get(name)
        if got != want:
            ctx.violation("pickle-not-equal:read in another process", {"object": name, "wrote": want, "read": got}, replay={"pickles_elsewhere": True})
        else:
            ctx.count("pickles read back equal in another process")


def run(ctx):
    from barril.units import Quantity, UnitDatabase

    mon = QuantityMonitor()
    mon.install()
    probe.reach([UnitDatabase._MatchQuantities, UnitDatabase._DoOperationWithSameQuantity, UnitDatabase._DoOperationResultingInNewQuantity, Quantity._CreateDerived, Quantity.__reduce__, Quantity.__eq__, Quantity.__hash__])
    ctx.rule = (
        "hostile histories (60-80 steps) over a small pool of units / categories / quantity types on a fresh POSC database: quantity creation in every form "
        "(string, legacy spelling, caption, constructor, default unit, CreateDerived / ObtainQuantity(dict) / ObtainQuantity(list) incl. two categories of one quantity type "
        "in different units), Scalar/Array/Quantity arithmetic with differing units and categories on both sides, conversions, failed operations, copies, pickles; "
        "after every step every Quantity constructed so far (enrolled from the Quantity.__init__ probe) and every cache value is re-fingerprinted; per history: "
        "==/hash partition over all pairs, cache soundness; one long-haul pass per shard: 35 requests repeated after ~5000 other quantities (every unit of the table) were requested. distinct non-trivial = distinct (op kind sequence) histories"
    )
    ctx.assumptions = ["vandalism through private attributes is not an operation of the library (a caller editing the dict it handed to a request is, and is exercised)"]
    r = ctx.rng("hist")
    ck = Checker(ctx, mon)
    n_hist = 150 if ctx.tier == "quick" else 2500
    db0 = table.build("posc")
    cats = pools(db0)
    for h in range(n_hist):
        hist = gen_history(r, cats, r.randint(60, 80))
        ck.run_history(hist)
        ctx.nt(tuple(op[0] + str(op[2] if op[0] == "binop" else "") for op in hist))
        if h == 0 and ctx.shard == 0:
            ctx.sample({"history_steps_18_26": [[str(x) for x in op] for op in hist[18:26]]})
    long_haul(ctx, ctx.rng("longhaul"))
    request_orders(ctx, ctx.rng("orders"), 6 if ctx.tier == "quick" else 120)
    if ctx.shard == 0:
        reused_request_maps(ctx)
        constructor_forms(ctx)
        maps_handed_back(ctx)
        pickles_from_elsewhere(ctx)
    ctx.count("fingerprint comparisons", mon.n_checks)
    ctx.notes["monitor"] = {"fingerprint_and_pair_checks": mon.n_checks}
    # thorough tier: the repository's own tests as a workload under the global monitors (vp/suite_workload.py)
    from .. import suite_workload

    suite_workload.run(ctx, "C07")
    ctx.inconclusive_if(probe.COUNTS["Quantity.__init__"] == 0, "Quantity.__init__ probe never fired")
    ctx.inconclusive_if(mon.n_checks < 1000, "monitor made only %d comparisons" % mon.n_checks)


def replay(ctx, d):
    mon = QuantityMonitor()
    mon.install()
    if d.get("reused_maps"):
        return reused_request_maps(ctx)
    if d.get("maps_handed_back"):
        return maps_handed_back(ctx)
    if d.get("constructor_forms"):
        return constructor_forms(ctx)
    if d.get("pickles_elsewhere"):
        return pickles_from_elsewhere(ctx)

    def fix(op):
        op = list(op)
        return tuple(tuple(x) if isinstance(x, list) and op[0] == "binop" else ([tuple(i) for i in x] if isinstance(x, list) and op[0] == "derived" else (tuple(x) if isinstance(x, list) and op[0] in ("call", "db") else x)) for x in op)

    Checker(ctx, mon).run_history([fix(op) for op in d["history"]])
