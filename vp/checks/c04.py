"""C04 - multiply / divide: dimension exponents add, base-unit magnitudes multiply
(DESIGN.md section 4, C04). Random expression trees evaluated by barril and by the dimensional
model in lock step, compared at every node."""
import itertools
import math
from fractions import Fraction as Fr

from .. import probe
from ..models import conv, dims
from ..workloads import programs, table

SHARDS = {"quick": 4, "thorough": 16}
WATCHDOG_S = {"quick": 900, "thorough": 7200}
FLOORS = (5000, 300)
REL = 1e-11


class Checker:
    def __init__(self, ctx, T):
        self.ctx, self.T = ctx, T
        self.root = None
        self.cls = None

    def bad(self, clause, spec, detail):
        self.ctx.violation(
            "%s:%s" % (clause, spec[0] if spec[0] not in ("leaf", "dleaf") else "leaf"),
            dict(detail, node=programs.render(spec), program=programs.render(self.root), cls=self.cls),
            replay={"spec": self.root, "cls": self.cls},
        )

    def on_node(self, spec, obj, m, children):
        ctx, T = self.ctx, self.T
        ctx.ev()
        try:
            items = dims.items_of(obj.GetQuantity())
        except Exception as e:
            self.bad("quantity-unreadable", spec, {"error": repr(e)})
            return None
        got_dim = dims.dimvec(T, items)
        if got_dim != m.dim:
            self.bad("dimension", spec, {"got": got_dim, "want": m.dim, "result": repr(obj)})
        # zero exponents must be absent from the composing units
        for c, u, e in items:
            if e == 0:
                self.bad("zero-exponent-kept", spec, {"items": items})
        uv = dims.unitvec(items)
        joined = dict(obj.GetQuantity().GetComposingUnitsJoiningExponents())
        if {k: v for k, v in joined.items() if v} != uv:
            self.bad("joined-exponents", spec, {"joined": joined, "from_items": uv})
        if not m.dim and uv:
            # a/a must be dimensionless: no composing unit may survive
            self.bad("dimensionless-with-units", spec, {"items": items})
        vals = programs.values_of(obj)
        if len(vals) != len(m.mags):
            self.bad("length", spec, {"got": len(vals), "want": len(m.mags)})
            return None
        s = dims.scale(T, items)
        if spec[0] == "//":
            # result = floor(exact quotient in the result's own units), up to float effects near integers
            newm = []
            for v, want in zip(vals, m.mags):
                if want is None:
                    newm.append(None)
                    continue
                q = want / s
                fl = q.numerator // q.denominator
                near = abs(q - round(q)) <= Fr(1, 10**9) * max(1, abs(q))
                tol = max(Fr(1) if near else Fr(0), Fr(1, 10**11) * abs(q))  # floats above 2^53 are not integers-exact
                ok = abs(Fr(v) - fl) <= tol
                if not ok:
                    self.bad("floor-value", spec, {"got": v, "exact_quotient": float(q), "floor": int(fl), "result": repr(obj)})
                newm.append(Fr(v) * s)
            return programs.Model(m.dim, newm, m.nops)
        for v, want in zip(vals, m.mags):
            if want is None:
                continue
            got = Fr(v) * s
            if not dims.rel_close(got, want, REL * (2 + m.nops)):
                self.bad("magnitude", spec, {"got_base": float(got), "want_base": float(want), "ratio": float(got / want) if want else None, "result": repr(obj)})
                break
        return None


def _metamorphic(ctx, ck, T, spec_a, spec_b, cls, container):
    """a*b vs b*a equal in base magnitude; (a*b)/b physically equal to a; a/a dimensionless."""
    nul = lambda *a: None  # noqa
    a, ma = programs.evaluate(T, spec_a, cls, container, nul)
    b, mb = programs.evaluate(T, spec_b, cls, container, nul)
    if programs.pair_extreme(T, a, b):
        raise programs.Degenerate(("*", spec_a, spec_b))
    ab, ba = a * b, b * a
    ctx.ev(3)

    def mags(o):
        s = dims.scale(T, dims.items_of(o.GetQuantity()))
        return [Fr(v) * s for v in programs.values_of(o)]

    ck.root = ("*", spec_a, spec_b)
    for x, y in zip(mags(ab), mags(ba)):
        if not dims.rel_close(x, y, REL * 8):
            ck.bad("commute", ck.root, {"ab": repr(ab), "ba": repr(ba)})
            break
    back = ab / b
    if dims.dimvec(T, dims.items_of(back.GetQuantity())) != ma.dim:
        ck.bad("(a*b)/b dimension", ck.root, {"got": repr(back), "a": repr(a)})
    for x, y in zip(mags(back), ma.mags):
        if not dims.rel_close(x, y, REL * (8 + ma.nops + mb.nops)):
            ck.bad("(a*b)/b magnitude", ck.root, {"got": repr(back), "a": repr(a)})
            break
    aa = a / a
    if dims.unitvec(dims.items_of(aa.GetQuantity())):
        ck.bad("a/a not dimensionless", ("/", spec_a, spec_a), {"got": repr(aa)})
    # Quantity level operators agree with the value level ones
    qa, qb = a.GetQuantity(), b.GetQuantity()
    ctx.ev(2)
    if (qa * qb) != ab.GetQuantity():
        ck.bad("Quantity.__mul__ differs", ck.root, {"q": repr(qa * qb), "value_level": repr(ab.GetQuantity())})
    if (qa / qb) != (a / b).GetQuantity():
        ck.bad("Quantity.__truediv__ differs", ("/", spec_a, spec_b), {"q": repr(qa / qb), "value_level": repr((a / b).GetQuantity())})


def run(ctx):
    from barril.units import Array, Quantity, Scalar, UnitDatabase

    probe.install()
    probe.reach([UnitDatabase._MatchQuantities, UnitDatabase._DoOperationResultingInNewQuantity, UnitDatabase._ConvertMatchingExp if hasattr(UnitDatabase, "_ConvertMatchingExp") else UnitDatabase.Multiply, Array._DoOperation, Scalar._DoOperation])
    ctx.rule = (
        "random expression trees (depth <= 4; * / // **n) over a basis of quantity types with several scale-only units and "
        "categories each, evaluated as Scalars and as Arrays (list/tuple/ndarray) by barril and by a dimensional-analysis model; "
        "every operator node compared (exponent per quantity type, zero exponents absent, joined exponents, base magnitude, floor); "
        "non-trivial = distinct (operator, operand dimension vectors, operand unit vectors) with a shared quantity type written in different units"
    )
    ctx.assumptions = ["scale-only units, non-zero finite values", "relative tolerance 1e-11 x (2 + number of operations)"]
    r = ctx.rng("trees")
    db = table.build("posc")
    n_programs = 5000 if ctx.tier == "quick" else 40000
    with table.pushed(db):
        T = dims.Table(db, conv.describe(db))
        B = programs.Basis(T, ctx.rng("basis%d" % (ctx.shard % 4)))
        ck = Checker(ctx, T)
        ctx.notes["basis"] = {qt: 1 for qt in B.types}

        def nontrivial(spec, obj, m, children):
            res = ck.on_node(spec, obj, m, children)
            if len(children) == 2:
                (a, ma), (b, mb) = children
                ia, ib = dims.items_of(a.GetQuantity()), dims.items_of(b.GetQuantity())
                qa = {T.qt_of_category(c): u for c, u, e in ia}
                if any(T.qt_of_category(c) in qa and qa[T.qt_of_category(c)] != u for c, u, e in ib):
                    ctx.nt((spec[0], tuple(sorted(dims.unitvec(ia).items())), tuple(sorted(dims.unitvec(ib).items()))))
            return res

        for i in range(n_programs):
            cls = "scalar" if i % 3 else "array"
            container = ("list", "tuple", "nd")[(i // 3) % 3]
            n = 1 if cls == "scalar" else (0 if i % 24 == 3 else r.randint(1, 4))  # (an Array without values still has a dimension)
            spec = B.tree(r, r.randint(1, 4), max(n, 1), floordiv=True)
            ck.root, ck.cls = spec, "%s/%s" % (cls, container)
            try:
                programs.evaluate(T, spec, cls, container, nontrivial, n)
            except programs.Degenerate:
                ctx.count("degenerate programs skipped (zero after floor division or magnitude outside 1e+-120)")
                continue
            except programs.EvalError as e:
                ctx.ev()
                ck.bad("raised", e.spec, {"error": repr(e.exc)[:300]})
            if i < 2 and ctx.shard == 0:
                ctx.sample({"program": programs.render(spec), "as": ck.cls})
            if i % 5 == 0:
                sa, sb = B.tree(r, 2, n), B.tree(r, 2, n)
                ck.cls = "%s/%s" % (cls, container)
                try:
                    _metamorphic(ctx, ck, T, sa, sb, cls, container)
                except programs.Degenerate:
                    ctx.count("degenerate programs skipped (zero after floor division or magnitude outside 1e+-120)")
                except Exception as e:
                    ctx.ev()
                    ck.root = ("*", sa, sb)
                    ck.bad("raised-metamorphic", ck.root, {"error": repr(e)[:300]})
        # a table unit whose symbol reads exactly like the unit string of a derived quantity of *another* dimension make-up
        # ('m2' the area unit vs m*m, 'm/s' the velocity unit vs m / s): equal strings are not equal quantities - the
        # quotient keeps one exponent per quantity type (area^1 length^-2), in every container
        if ctx.shard == 0:
            from ..models import grammar

            atoms = set(db.unit_to_unit_info)
            rows = []
            for sym, info in sorted(db.unit_to_unit_info.items()):
                p = grammar.parse_symbol(sym, atoms, info.name)
                if not p or p == "ambiguous" or any(pre != 1.0 for pre, _a, _e in p) or (len(p) == 1 and p[0][2] == 1):
                    continue
                if sym in T.aff and T.aff[sym].exact and T.aff[sym].off == 0.0 and all(a in T.aff and T.aff[a].off == 0.0 and db.GetDefaultCategory(a) for _pre, a, _e in p) and db.GetDefaultCategory(sym):
                    rows.append((sym, p))
            rr = ctx.rng("strings")
            rr.shuffle(rows)
            done = 0
            for sym, parts in rows[: 60 if ctx.tier == "quick" else 600]:
                num = den = None
                for _pre, atom, e in parts:
                    for _ in range(abs(e)):
                        leaf = ("leaf", db.GetDefaultCategory(atom), [2.0, 3.0, 0.5], atom)
                        if e > 0:
                            num = leaf if num is None else ("*", num, leaf)
                        else:
                            den = leaf if den is None else ("*", den, leaf)
                if num is None:
                    continue
                derived = num if den is None else ("/", num, den)
                named = ("leaf", db.GetDefaultCategory(sym), [6.0, 1.5, 4.0], sym)
                for k, (cls, container) in enumerate((("scalar", "list"), ("array", "list"), ("array", "nd"), ("array", "tuple"))):
                    for spec in (("/", named, derived), ("/", derived, named), ("//", named, derived), ("*", named, derived)):
                        ck.root, ck.cls = spec, "%s/%s" % (cls, container)
                        try:
                            programs.evaluate(T, spec, cls, container, nontrivial, 1 if cls == "scalar" else 3)
                        except programs.Degenerate:
                            continue
                        except programs.EvalError as e:
                            ctx.ev()
                            ck.bad("raised", e.spec, {"error": repr(e.exc)[:300]})
                done += 1
            ctx.count("named unit against the derived quantity with the same unit string", done)
        # one operand over an integer ndarray, the other over a list / tuple / float ndarray of non-integral amounts, in both
        # orders: products and quotients are computed on the amounts as they are (nothing is squeezed into the integer dtype)
        if ctx.shard == 0:
            import numpy as np
            from barril.units import Array as _Arr

            ints, fracs = [2, -3, 4], [1.5, -2.25, 3.75]
            for u, v in (("m", "m"), ("m", "cm"), ("s", "m"), ("kg", "g")):
                for dt in (np.int64, np.int32):
                    for kind, mk in (("list", list), ("tuple", tuple), ("nd", lambda z: np.array(z, dtype=float))):
                        a_int, b_frac = _Arr(np.array(ints, dtype=dt), u), _Arr(mk(fracs), v)
                        for sym, fn, ref in (("*", lambda p, q: p * q, lambda x, y: x * y), ("/", lambda p, q: p / q, lambda x, y: x / y), ("//", lambda p, q: p // q, None)):
                            for order, left, right, lv, rv, lu, ru in (("int ndarray first", a_int, b_frac, ints, fracs, u, v), ("int ndarray second", b_frac, a_int, fracs, ints, v, u)):
                                ctx.ev()
                                ctx.nt(("integer ndarray product", sym, order, kind, dt.__name__, u, v))
                                case_ = {"op": sym, "order": order, "other_container": kind, "dtype": dt.__name__, "units": [lu, ru]}
                                try:
                                    res = fn(left, right)
                                    got = dims.basemag_list(T, res) if hasattr(dims, "basemag_list") else [float(dims.basemag(T, float(x), dims.items_of(res.GetQuantity()))) for x in res.GetValues()]
                                    fl, fr_ = T.aff[lu].slope, T.aff[ru].slope
                                    if sym == "//":
                                        # the quotient is floored in the left operand's unit after the right one was re-expressed
                                        same_type = T.aff[lu].qt == T.aff[ru].qt
                                        want = [(math.floor(x / (y * fr_ / fl)) if same_type else math.floor(x / y) * fl / fr_) for x, y in zip(lv, rv)]
                                        want = [w if same_type else w for w in want]
                                    else:
                                        want = [ref(x * fl, y * fr_) for x, y in zip(lv, rv)]
                                    if len(got) != len(want) or not all(abs(g - w) <= 1e-9 * (abs(w) + 1e-300) for g, w in zip(got, want)):
                                        ck.root = None
                                        ctx.violation("integer-ndarray-operand:magnitude:%s" % sym, dict(case_, got=got, want=want, result=repr(res)[:160]), replay=case_)
                                except Exception as e:
                                    ctx.violation("integer-ndarray-operand:raised:%s" % sym, dict(case_, error="%s: %s" % (type(e).__name__, str(e)[:160])), replay=case_)
        # lists and tuples of Python ints whose products leave the range of a machine integer (4e9 Pa x 5e9 m3): Python ints are
        # exact - the product, and what it gives back when divided again, are the exact integers
        if ctx.shard == 0:
            from barril.units import Array as _ArrI, FixedArray as _FaI

            big_a, big_b = [4000000000, -3000000000, 7], [5000000000, 6000000000, 2**62]
            for u, v in (("Pa", "m3"), ("m", "m"), ("kg", "s")):
                for kind, mk in (("list", list), ("tuple", tuple)):
                    for cname, ctor in (("Array", lambda z, w: _ArrI(mk(z), w)), ("FixedArray", lambda z, w: _FaI(3, mk(z), w))):
                        a_, b_ = ctor(big_a, u), ctor(big_b, v)
                        for ename, fn, want in (("a*b", lambda: a_ * b_, [x * y for x, y in zip(big_a, big_b)]), ("(a*b)*a", lambda: (a_ * b_) * a_, [x * y * x for x, y in zip(big_a, big_b)]), ("b*a", lambda: b_ * a_, [x * y for x, y in zip(big_a, big_b)])):
                            ctx.ev()
                            ctx.nt(("huge python ints", cname, kind, ename, u, v))
                            case_ = {"expression": ename, "class": cname, "container": kind, "units": [u, v], "a": big_a, "b": big_b}
                            try:
                                got = list(fn().GetValues())
                                if len(got) != len(want) or not all(abs(float(g) - float(w)) <= 1e-9 * abs(float(w)) for g, w in zip(got, want)):
                                    ctx.violation("huge-python-ints:magnitude:%s" % ename, dict(case_, got=[repr(g) for g in got], want=[repr(w) for w in want]), replay=case_)
                            except Exception as e:
                                ctx.violation("huge-python-ints:raised:%s" % ename, dict(case_, error="%s: %s" % (type(e).__name__, str(e)[:160])), replay=case_)
        # operands of different kinds meeting in one product: a numpy-backed amount with a list- or tuple-backed one that carries
        # its unit at an exponent other than 1 (cm2, 1/min2); an application subclass of Scalar on the left of a plain Scalar
        if ctx.shard == 0:
            import numpy as np
            from barril.units import Array as _Arr2, Scalar as _Sc2

            class AppScalar(_Sc2):
                pass

            def bm(res):
                vals_ = [res.GetValue()] if isinstance(res, _Sc2) else list(res.GetValues())
                return [float(dims.basemag(T, float(x), dims.items_of(res.GetQuantity()))) for x in vals_]

            kinds_ = (("list", list), ("tuple", tuple), ("nd", lambda z: np.array(z, dtype=float)))
            for u, v, e in (("m", "cm", 2), ("m", "km", 3), ("s", "min", -2), ("kg", "g", 2), ("m", "cm", 1)):
                fu, fv = T.aff[u].slope, T.aff[v].slope
                for (ka, mka), (kb, mkb) in itertools.product(kinds_, kinds_):
                    av, bv = [2.0, 3.0, 0.5], [4.0, 0.25, 8.0]

                    def powered(arr, e_):
                        acc = arr
                        for _i in range(abs(e_) - 1):
                            acc = acc * arr
                        return acc if e_ > 0 else 1.0 / acc

                    for sym, fn, ref in (("*", lambda p, q: p * q, lambda x, y: x * y), ("/", lambda p, q: p / q, lambda x, y: x / y)):
                        for order in ("plain first", "powered first"):
                            ctx.ev()
                            case_ = {"op": sym, "order": order, "containers": [ka, kb], "units": [u, v], "exponent": e}
                            ctx.nt(("mixed containers", sym, order, ka, kb, u, v, e))
                            try:
                                a_ = _Arr2(mka(av), u)
                                b_ = powered(_Arr2(mkb(bv), v), e)
                                A_ = [x * fu for x in av]
                                B_ = [(y * fv) ** e for y in bv]
                                res = fn(a_, b_) if order == "plain first" else fn(b_, a_)
                                want = [ref(x, y) for x, y in zip(A_, B_)] if order == "plain first" else [ref(y, x) for x, y in zip(A_, B_)]
                                got = bm(res)
                                if len(got) != 3 or not all(abs(g - w) <= 1e-9 * abs(w) for g, w in zip(got, want)):
                                    ctx.violation("mixed-containers:magnitude:%s" % sym, dict(case_, got=got, want=want, result=repr(res)[:160]), replay=case_)
                            except Exception as ex:
                                ctx.violation("mixed-containers:raised:%s" % sym, dict(case_, error="%s: %s" % (type(ex).__name__, str(ex)[:160])), replay=case_)
            for u, v in (("m", "s"), ("m", "cm"), ("kg", "g")):
                fu, fv = T.aff[u].slope, T.aff[v].slope
                for sym, fn, ref in (("*", lambda p, q: p * q, lambda x, y: x * y), ("/", lambda p, q: p / q, lambda x, y: x / y), ("//", lambda p, q: p // q, None)):
                    for left_cls, right_cls in ((AppScalar, _Sc2), (_Sc2, AppScalar), (AppScalar, AppScalar)):
                        ctx.ev()
                        case_ = {"op": sym, "classes": [left_cls.__name__, right_cls.__name__], "units": [u, v]}
                        try:
                            res = fn(left_cls(7.0, u), right_cls(2.0, v))
                            plain = fn(_Sc2(7.0, u), _Sc2(2.0, v))
                            if bm(res) != bm(plain) or res.GetQuantity() != plain.GetQuantity() or not isinstance(res, _Sc2):
                                ctx.violation("subclass-operand:differs-from-the-plain-classes:%s" % sym, dict(case_, got=repr(res)[:120], plain=repr(plain)[:120]), replay=case_)
                            if ref is not None and abs(bm(res)[0] - ref(7.0 * fu, 2.0 * fv)) > 1e-9 * abs(ref(7.0 * fu, 2.0 * fv)):
                                ctx.violation("subclass-operand:magnitude:%s" % sym, dict(case_, got=bm(res), want=ref(7.0 * fu, 2.0 * fv)), replay=case_)
                        except Exception as ex:
                            ctx.violation("subclass-operand:raised:%s" % sym, dict(case_, error="%s: %s" % (type(ex).__name__, str(ex)[:160])), replay=case_)
        # an amount operated with *itself* (one object, one interned quantity on both sides) where the quantity holds one quantity
        # type in two units (length in m x diameter in cm, by the map form of the request): a/a is one, a*a is the square
        if ctx.shard == 0:
            import numpy as np
            from collections import OrderedDict as _OD

            from barril.units import Array as _Arr3, ObtainQuantity as _OQ3, Quantity as _Q3, Scalar as _Sc3

            for od in (_OD([("length", ["m", 1]), ("diameter", ["cm", 1])]), _OD([("depth", ["km", 2]), ("length", ["ft", -1])]), _OD([("length", ["cm", 1]), ("time", ["s", -1]), ("diameter", ["m", 1])]),
                       _OD([("length", ["m", 1]), ("time", ["s", -1])])):  # fmt: skip
                for how in ("ObtainQuantity(dict)", "CreateDerived"):
                    try:
                        qm = _OQ3(_OD((k_, list(v_)) for k_, v_ in od.items())) if how == "ObtainQuantity(dict)" else _Q3.CreateDerived(_OD((k_, list(v_)) for k_, v_ in od.items()))
                    except Exception as e_:
                        ctx.count("mixed-unit quantities that could not be built")
                        continue
                    for cls_name, a_ in (("Scalar", _Sc3(qm, 12.0)), ("Array[list]", _Arr3(qm, [12.0, 3.0])), ("Array[nd]", _Arr3(qm, np.array([12.0, 3.0])))):
                        A_ = [float(dims.basemag(T, float(x_), dims.items_of(qm))) for x_ in ([a_.GetValue()] if cls_name == "Scalar" else a_.GetValues())]
                        for sym, fn, ref in (("a/a", lambda p: p / p, lambda t: 1.0), ("a*a", lambda p: p * p, lambda t: t * t), ("a**2", lambda p: p**2 if cls_name == "Scalar" else p * p, lambda t: t * t), ("(a*a)/a", lambda p: (p * p) / p, lambda t: t)):
                            ctx.ev()
                            case_ = {"quantity": [[c_, u_, e_] for c_, (u_, e_) in od.items()], "built_by": how, "class": cls_name, "op": sym}
                            ctx.nt(("self operation", str(list(od)), how, cls_name, sym))
                            try:
                                res = fn(a_)
                                vals_ = [res.GetValue()] if cls_name == "Scalar" else list(res.GetValues())
                                got = [float(dims.basemag(T, float(x_), dims.items_of(res.GetQuantity()))) for x_ in vals_]
                                want = [ref(t) for t in A_]
                                if len(got) != len(want) or not all(abs(g - w) <= 1e-9 * abs(w) for g, w in zip(got, want)):
                                    ctx.violation("self-operation:magnitude:%s" % sym, dict(case_, got=got, want=want, result=repr(res)[:160]), replay=case_)
                            except Exception as ex:
                                ctx.violation("self-operation:raised:%s" % sym, dict(case_, error="%s: %s" % (type(ex).__name__, str(ex)[:160])), replay=case_)
        # Quantity ** n equals n-fold product
        for _ in range(200):
            spec = B.tree(r, 2, 1)
            try:
                a, ma = programs.evaluate(T, spec, "scalar", "list", lambda *x: None)
            except programs.Degenerate:
                continue
            except programs.EvalError as e:
                ctx.ev()
                ck.root = spec
                ck.bad("raised", e.spec, {"error": repr(e.exc)[:300]})
                continue
            q = a.GetQuantity()
            for k in (1, 2, 3, 4, 5, 8):
                ctx.ev()
                try:
                    want = q
                    for _j in range(k - 1):
                        want = want * q
                    if (q**k) != want or dims.dimvec(T, dims.items_of(q**k)) != dims.times(ma.dim, k):
                        ck.root = ("**", spec, k)
                        ck.bad("Quantity.__pow__", ck.root, {"got": repr(q**k), "want": repr(want)})
                except Exception as e:
                    ck.root = ("**", spec, k)
                    ck.bad("raised", ck.root, {"error": repr(e)[:300], "what": "Quantity * Quantity / Quantity ** %d" % k})
                    break
    ctx.inconclusive_if(probe.COUNTS["UnitDatabase.Multiply"] == 0 or probe.COUNTS["UnitDatabase.Divide"] == 0, "Multiply/Divide never reached")


def replay(ctx, d):
    probe.install()
    db = table.build("posc")

    def tup(x):
        return tuple(tup(i) for i in x) if isinstance(x, list) and x and isinstance(x[0], str) and x[0] in ("leaf", "dleaf", "*", "/", "//", "**") else x

    def fix(s):
        s = list(s)
        if s[0] == "leaf":
            return ("leaf", s[1], list(s[2]), s[3])
        if s[0] == "dleaf":
            return ("dleaf", [tuple(i) for i in s[1]], list(s[2]))
        if s[0] == "**":
            return ("**", fix(s[1]), s[2])
        return (s[0], fix(s[1]), fix(s[2]))

    with table.pushed(db):
        T = dims.Table(db, conv.describe(db))
        ck = Checker(ctx, T)
        spec = fix(d["spec"])
        cls, container = d["cls"].split("/")
        ck.root, ck.cls = spec, d["cls"]
        try:
            programs.evaluate(T, spec, cls, container, ck.on_node)
        except programs.EvalError as e:
            ck.bad("raised", e.spec, {"error": repr(e.exc)[:300]})
        except programs.Degenerate:
            print("recorded case is outside the examined input class (float overflow / underflow range)")
