"""C06 - named compound units agree with the composition of their parts (DESIGN.md 4, C06)."""
from fractions import Fraction as Fr

from .. import probe
from ..models import conv, dims, grammar
from ..workloads import table

SHARDS = {"quick": 1, "thorough": 1}
FLOORS = (900, 800)
FLOOR_REL = 1e-9  # float noise of exactly written rows (tolerance 0); the written-precision term does the real work
K_TOL = 16.0


def sig3(x):
    """ratio to 3 significant digits; ratios close to 1 are written as 1+d with d to 2 digits so
    that a fine deviation (digit transposition) still has a distinguishing, stable key."""
    if abs(x - 1) < 0.1:
        return "1%+.1e" % (x - 1)
    return "%.3g" % x


def analyse(db):
    """-> (rows, skipped) ; rows: per quantity type list of dicts for decomposable scale-only rows."""
    infos = db.unit_to_unit_info
    atoms = set(infos)
    aff = conv.describe(db)
    rows, skipped = {}, {}

    def skip(why):
        skipped[why] = skipped.get(why, 0) + 1

    for u, info in infos.items():
        p = grammar.parse_symbol(u, atoms, info.name)
        if p is None:
            skip("atomic or not decomposable")
            continue
        if p == "ambiguous":
            skip("ambiguous F/C factor")
            continue
        a = aff.get(u)
        if a is None or not a.exact:
            skip("not affine")
            continue
        if a.off != 0:
            skip("row has an offset")
            continue
        prod, tol, ok = 1.0, grammar.written_precision(info, True), True
        for pre, s, e in p:
            ac = aff.get(s)
            if ac is None or ac.off != 0 or not ac.exact:
                ok = False
                break
            prod *= (pre * ac.slope) ** e
            tol += abs(e) * grammar.written_precision(infos[s], False)
        if not ok:
            skip("component has an offset")
            continue
        # the from-base direction must tell the same factor (a one-sided edit of a row is also C01's)
        try:
            fb = info.frombase
            inv = fb(1.0) - fb(0.0)
            back = 1.0 / inv if inv else float("inf")
        except Exception:
            back = float("nan")
        rows.setdefault(info.quantity_type, []).append({"unit": u, "factor": a.slope, "factor_from_frombase": back, "composed": prod, "k": a.slope / prod, "tol": tol, "parts": p})
    return rows, skipped, aff


def run(ctx):
    from barril.units import Scalar, UnitDatabase

    probe.install()
    ctx.rule = (
        "every row of the shipped table whose symbol the unit grammar decomposes into registered scale-only units: k = factor(row)/prod((prefix x factor(component))^exp) "
        "must equal the reference k of its quantity type (the base row's, else the row with the smallest tolerance) within max(16 x written precision, 2e-5), "
        "in both conversion directions; every atomic row that is SI prefix + another row by symbol AND name must be 10^n x the other; dynamic half: the same amount "
        "composed with barril's own Scalar arithmetic. A case = one table row; all rows are non-trivial"
    )
    ctx.assumptions = ["written precision = half a unit in the last written digit of the row's coefficients (>=4 digits) and of component coefficients (>=5 digits)", "factor symbols 'F' and 'C' are decomposed only when the row's registered name says farad / coulomb"]
    ctx.max_kept = 400
    db = table.build("posc")
    with table.pushed(db):
        rows, skipped, aff = analyse(db)
        infos = db.unit_to_unit_info
        T = dims.Table(db, aff)
        n_rows = n_cmp = 0
        for qt, lst in rows.items():
            base = db.GetBaseUnit(qt)
            ref = None
            for r in lst:
                if r["unit"] == base:
                    ref = r
            if ref is None:
                if len(lst) < 2:
                    ctx.count("rows without a comparison partner", len(lst))
                    continue
                ref = min(lst, key=lambda r: (r["tol"], r["unit"]))
            for r in lst:
                n_rows += 1
                ctx.nt(("row", r["unit"]))
                for direction, fac in (("tobase", r["factor"]), ("frombase", r["factor_from_frombase"])):
                    ctx.ev()
                    n_cmp += 1
                    k = fac / r["composed"]
                    ratio = k / ref["k"]
                    limit = max(K_TOL * (r["tol"] + (ref["tol"] if ref is not r else 0.0)), FLOOR_REL)
                    if not abs(ratio - 1) <= limit:
                        key = "row:%s:ratio=%s" % (r["unit"].replace(" ", "_"), sig3(ratio))
                        ctx.violation(
                            key,
                            {"quantity_type": qt, "row": r["unit"], "direction": direction, "table_factor": fac, "composed_factor": r["composed"] * ref["k"],
                             "ratio": ratio, "limit": limit, "parts": r["parts"], "reference_row": ref["unit"]},
                            replay={"row": r["unit"]},
                        )  # fmt: skip
                # dynamic half: compose the same amount with barril's own arithmetic
                try:
                    acc = None
                    for pre, s, e in r["parts"]:
                        leaf = Scalar(pre, s)
                        for _ in range(abs(e)):
                            if acc is None:
                                acc = leaf if e > 0 else 1.0 / leaf
                            else:
                                acc = acc * leaf if e > 0 else acc / leaf
                    ctx.ev()
                    got = dims.basemag(T, acc.GetValue(), dims.items_of(acc.GetQuantity())) * Fr(ref["k"])
                    want = dims.basemag(T, 1.0, [(infos[r["unit"]].quantity_type if False else db.GetDefaultCategory(r["unit"]) or qt, r["unit"], 1)])
                    ratio = float(want / got)
                    limit = max(K_TOL * (r["tol"] + (ref["tol"] if ref is not r else 0.0)), FLOOR_REL)
                    if not abs(ratio - 1) <= limit:
                        ctx.violation("row:%s:ratio=%s" % (r["unit"].replace(" ", "_"), sig3(ratio)), {"row": r["unit"], "dynamic": True, "composed": repr(acc), "ratio": ratio}, replay={"row": r["unit"]})
                except Exception as e:
                    ctx.violation("dynamic-raised:%s" % r["unit"].replace(" ", "_"), {"row": r["unit"], "error": repr(e)[:200]}, replay={"row": r["unit"]})
                if n_rows <= 3:
                    ctx.sample({"row": r["unit"], "parts": r["parts"], "table_factor": r["factor"], "k_over_ref": r["k"] / ref["k"], "tol": r["tol"]})
        # SI-prefix clause
        n_si = 0
        for u, info in infos.items():
            sp = grammar.si_prefixed(u, info, infos)
            if sp is None:
                continue
            other, mult = sp
            a1, a2 = aff.get(u), aff.get(other)
            if a1 is None or a2 is None or a1.off or a2.off:
                continue
            n_si += 1
            ctx.ev()
            ctx.nt(("si", u))
            ratio = a1.slope / (a2.slope * mult)
            limit = max(K_TOL * (grammar.written_precision(info, True) + grammar.written_precision(infos[other], True)), FLOOR_REL)
            if not abs(ratio - 1) <= limit:
                ctx.violation("si:%s:ratio=%s" % (u.replace(" ", "_"), sig3(ratio)), {"row": u, "name": info.name, "other": other, "prefix_multiplier": mult, "table_factor": a1.slope, "expected": a2.slope * mult, "ratio": ratio}, replay={"row": u})
        ctx.exhaustive = True
        ctx.notes["exhaustive_dimension"] = "all rows of the shipped POSC table (no sampling)"
        ctx.notes["rows"] = {"decomposable_compared": n_rows, "comparisons": n_cmp, "si_prefixed": n_si, "table_rows": len(infos)}
        ctx.notes["skipped"] = skipped
    ctx.inconclusive_if(n_rows < 800 or n_si < 100, "only %d decomposable and %d SI rows found - grammar no longer matches the table?" % (n_rows, n_si))


def replay(ctx, d):
    run(ctx)
    keep = {k: v for k, v in ctx.violations.items() if ":%s:" % d["row"].replace(" ", "_") in k[1] + ":"}
    ctx.violations = keep
