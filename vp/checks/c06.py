"""C06 - named compound units agree with the composition of their parts (DESIGN.md 4, C06)."""
from fractions import Fraction as Fr

from .. import probe
from ..models import conv, dims, grammar
from ..workloads import table

SHARDS = {"quick": 1, "thorough": 1}
FLOORS = (900, 800)
FLOOR_REL = 1e-9  # float noise of exactly written rows (tolerance 0); the written-precision term does the real work
K_TOL = 16.0


def sig3(x):
    """ratio to 3 significant digits; ratios close to 1 are written as 1+d with d to 2 digits so
    that a fine deviation (digit transposition) still has a distinguishing, stable key."""
    if abs(x - 1) < 0.1:
        return "1%+.1e" % (x - 1)
    return "%.3g" % x


def analyse(db):
    """-> (rows, skipped) ; rows: per quantity type list of dicts for decomposable scale-only rows."""
    infos = db.unit_to_unit_info
    atoms = set(infos)
    aff = conv.describe(db)
    rows, skipped = {}, {}

    def skip(why):
        skipped[why] = skipped.get(why, 0) + 1

    for u, info in infos.items():
        p = grammar.parse_symbol(u, atoms, info.name)
        if p is None:
            skip("atomic or not decomposable")
            continue
        if p == "ambiguous":
            skip("ambiguous F/C factor")
            continue
        a = aff.get(u)
        if a is None or not a.exact:
            skip("not affine")
            continue
        compound = len(p) > 1 or p[0][2] != 1 or p[0][0] != 1.0
        if a.off != 0:
            # a compound unit - a gradient, a rate, a coefficient - is an interval per something: zero of it is zero of the base
            # unit, whatever zero points its parts have as units of their own
            skip("row has an offset")
            if compound:
                OFFSET_ROWS.append((u, info.quantity_type, a.off, p))
            continue
        prod, tol, ok, interval = 1.0, grammar.written_precision(info, True), True, False
        for pre, s, e in p:
            ac = aff.get(s)
            if ac is None or not ac.exact or (ac.off != 0 and not compound):
                ok = False
                break
            interval = interval or ac.off != 0  # inside a compound unit 'degF' is an interval of 5/9 K
            prod *= (pre * ac.slope) ** e
            tol += abs(e) * grammar.written_precision(infos[s], False)
        if not ok:
            skip("component has an offset")
            continue
        # the from-base direction must tell the same factor (a one-sided edit of a row is also C01's)
        try:
            fb = info.frombase
            inv = fb(1.0) - fb(0.0)
            back = 1.0 / inv if inv else float("inf")
        except Exception:
            back = float("nan")
        rows.setdefault(info.quantity_type, []).append({"unit": u, "factor": a.slope, "factor_from_frombase": back, "composed": prod, "k": a.slope / prod, "tol": tol, "parts": p, "interval_parts": interval})
    return rows, skipped, aff


OFFSET_ROWS = []


def readings_agree(ctx, T, a, row, form):
    """a composed amount describes itself twice - category by category (GetCategoryToUnitAndExps) and unit by unit with the
    exponents of one unit joined (GetComposingUnitsJoiningExponents, what its unit string is written from): both readings
    are the same amount, also where two categories of the amount are held in one unit"""
    ctx.ev()
    ctx.count("composed amounts read category by category and unit by unit")
    q = a.GetQuantity()
    by_cat = dims.scale(T, dims.items_of(q))
    joined = list(q.GetComposingUnitsJoiningExponents())
    by_unit = dims.scale(T, [(None, u, e) for u, e in joined])
    want_vec = dims.unitvec(dims.items_of(q))
    if by_cat != by_unit or {u: e for u, e in joined if e} != want_vec:
        ctx.violation("composed-amount-reads-differently-unit-by-unit", {"row": row, "form": form, "composed": repr(a)[:160], "category_by_category": [list(t) for t in dims.items_of(q)], "joined_exponents": joined}, replay={"row": row})


def read_against_base_units(ctx, T, db, a, row, form):
    """the composed amount multiplied by one base unit per quantity type at the opposite exponent - once as the left operand,
    once as the right one: base units have factor 1, so both products are the very amount `a` is, whichever side it stood on"""
    from barril.units import Scalar

    q = a.GetQuantity()
    net = {}
    for c, u, e in dims.items_of(q):
        net[db.GetCategoryQuantityType(c)] = net.get(db.GetCategoryQuantityType(c), 0) + e
    inv = None
    for qt_, e in sorted(net.items()):
        b = db.GetBaseUnit(qt_)
        if not e or b not in T.aff or T.aff[b].off != 0 or T.aff[b].slope != 1.0:
            continue
        for _ in range(abs(e)):
            f = Scalar(1.0, b)
            if inv is None:
                inv = (1.0 / f) if e > 0 else f
            else:
                inv = inv / f if e > 0 else inv * f
    if inv is None:
        return
    ctx.ev()
    ctx.count("composed amounts multiplied by base units from the left and from the right")
    want = dims.basemag(T, a.GetValue(), dims.items_of(q))
    for side, r_ in (("composed amount on the left", a * inv), ("composed amount on the right", inv * a)):
        got = dims.basemag(T, r_.GetValue(), dims.items_of(r_.GetQuantity())) if hasattr(r_, "GetQuantity") else Fr(r_)
        if want == 0 or not abs(float(got / want) - 1) <= 1e-9:
            ctx.violation("composed-amount-changes-when-multiplied-by-base-units:%s" % side, {"row": row, "form": form, "composed": repr(a)[:160], "product": repr(r_)[:160], "ratio": float(got / want) if want else None}, replay={"row": row})


def same_type_ratios(ctx, T, db, rows):
    """Two named units of one quantity type, neither of them the base unit, meeting in one product at exponents other than 1
    (x2 / y2, x * (1/y), x3 / y3): the unit-less number that remains is the ratio of their table factors at that exponent"""
    from barril.units import Scalar

    n = 0
    for qt, lst in sorted(rows.items()):
        base = db.GetBaseUnit(qt)
        cands = [r["unit"] for r in lst if r["unit"] != base and r["unit"] in T.aff and T.aff[r["unit"]].off == 0.0]
        # prefer pairs written with different divisors in the table (a rate per hour against a rate per minute)
        cands.sort(key=lambda u: (getattr(db.unit_to_unit_info[u].tobase, "__c__", 1.0), u))
        pairs = [(cands[0], cands[-1]), (cands[len(cands) // 2], cands[0])] if len(cands) >= 2 else []
        # units with an offset (degC, degF, the gauge pressures) meet other units of their type as *intervals* in a product: the
        # ratio is the ratio of the slopes, whichever of the two is the one re-expressed
        offs = [r["unit"] for r in lst if r["unit"] in T.aff and T.aff[r["unit"]].off != 0.0 and T.aff[r["unit"]].exact]
        for o_ in offs:
            pairs += [(o_, base), (base, o_)] + ([(o_, cands[0]), (cands[-1], o_)] if cands else []) + [(o_, p_) for p_ in offs if p_ != o_][:2]
        for u1, u2 in pairs:
            if u1 == u2:
                continue
            f = T.aff[u1].slope / T.aff[u2].slope
            for form, build, want in (
                ("x2 / y2", lambda: (Scalar(1.0, u1) * Scalar(1.0, u1)) / (Scalar(1.0, u2) * Scalar(1.0, u2)), f * f),
                ("x * (1/y)", lambda: Scalar(1.0, u1) * (1.0 / Scalar(1.0, u2)), f),
                ("(1/y2) * x2", lambda: (1.0 / (Scalar(1.0, u2) * Scalar(1.0, u2))) * (Scalar(1.0, u1) * Scalar(1.0, u1)), f * f),
                ("x3 / y3", lambda: (Scalar(1.0, u1) ** 3) / (Scalar(1.0, u2) ** 3), f**3),
                ("(1/y) * x", lambda: (1.0 / Scalar(1.0, u2)) * Scalar(1.0, u1), f),
                ("(z/y) * x", lambda: (Scalar(3.0, "s") / Scalar(1.0, u2)) * Scalar(1.0, u1) / Scalar(3.0, "s"), f),
            ):
                ctx.ev()
                n += 1
                try:
                    res = build()
                    got = float(dims.basemag(T, res.GetValue(), dims.items_of(res.GetQuantity())))
                except Exception as e:
                    ctx.violation("same-type-ratio-raised:%s" % form, {"quantity_type": qt, "x": u1, "y": u2, "error": repr(e)[:160]}, replay={"row": u1})
                    continue
                if not abs(got - want) <= 1e-9 * abs(want):
                    ctx.violation("same-type-ratio-differs-from-the-ratio-of-the-factors:%s" % form, {"quantity_type": qt, "x": u1, "y": u2, "got": got, "ratio_of_table_factors": want, "result": repr(res)[:120]}, replay={"row": u1})
    ctx.count("ratios of two named units of one type at exponents other than 1", n)


def factor_routes(db, qt, u, base):
    """[(route, factor or exception)]: what one unit of the row is in base units (and back), asked in every container."""
    import numpy as np
    from barril.units import Array, FixedArray, Scalar

    def first(x):
        return float(x[0])

    routes = (
        ("to base: UnitDatabase.Convert(list)", lambda: first(db.Convert(qt, u, base, [1.0, 2.0]))),
        ("to base: UnitDatabase.Convert(tuple)", lambda: first(db.Convert(qt, u, base, (1.0, 2.0)))),
        ("to base: UnitDatabase.Convert(ndarray)", lambda: first(db.Convert(qt, u, base, np.array([1.0, 2.0])))),
        ("to base: UnitDatabase.Convert(float)", lambda: float(db.Convert(qt, u, base, 1.0))),
        ("to base: Scalar.GetValue", lambda: float(Scalar(1.0, u).GetValue(base))),
        ("to base: Array[list].GetValues", lambda: first(Array([1.0, 2.0], u).GetValues(base))),
        ("to base: Array[tuple].GetValues", lambda: first(Array((1.0, 2.0), u).GetValues(base))),
        ("to base: FixedArray.GetValues", lambda: first(FixedArray(2, [1.0, 2.0], u).GetValues(base))),
        ("from base: UnitDatabase.Convert(list)", lambda: first(db.Convert(qt, base, u, [1.0, 2.0]))),
        ("from base: UnitDatabase.Convert(tuple)", lambda: first(db.Convert(qt, base, u, (1.0, 2.0)))),
        ("from base: UnitDatabase.Convert(ndarray)", lambda: first(db.Convert(qt, base, u, np.array([1.0, 2.0])))),
        ("from base: Array[list].CreateCopy(unit)", lambda: first(Array([1.0, 2.0], base).CreateCopy(unit=u).GetValues())),
        ("from base: Scalar.GetValue", lambda: float(Scalar(1.0, base).GetValue(u))),
    )  # fmt: skip
    out = []
    for name, fn in routes:
        try:
            out.append((name, fn()))
        except Exception as e:
            out.append((name, e))
    return out


def run(ctx):
    from barril.units import Scalar, UnitDatabase

    probe.install()
    ctx.rule = (
        "every row of the shipped table whose symbol the unit grammar decomposes into registered scale-only units: k = factor(row)/prod((prefix x factor(component))^exp) "
        "must equal the reference k of its quantity type (the base row's, else the row with the smallest tolerance) within max(16 x written precision, 2e-5), "
        "in both conversion directions; every atomic row that is SI prefix + another row by symbol AND name must be 10^n x the other; dynamic half: the same amount "
        "composed with barril's own Scalar arithmetic. A case = one table row; all rows are non-trivial"
    )
    ctx.assumptions = ["written precision = half a unit in the last written digit of the row's coefficients (>=4 digits) and of component coefficients (>=5 digits)", "factor symbols 'F' and 'C' are decomposed only when the row's registered name says farad / coulomb"]
    ctx.max_kept = 400
    db = table.build("posc")
    with table.pushed(db):
        del OFFSET_ROWS[:]
        rows, skipped, aff = analyse(db)
        infos = db.unit_to_unit_info
        for u_, qt_, off_, p_ in OFFSET_ROWS:
            ctx.ev()
            ctx.violation("compound-row-has-a-zero-offset-of-its-own:%s" % u_.replace(" ", "_"), {"row": u_, "quantity_type": qt_, "zero_of_the_row_in_the_base_unit": off_, "parts": p_}, replay={"row": u_})
        ctx.count("rows with a temperature among their parts (read as intervals)", sum(1 for lst in rows.values() for r_ in lst if r_.get("interval_parts")))
        T = dims.Table(db, aff)
        n_rows = n_cmp = 0
        refs, by_unit, off_rows = {}, {}, set()
        for qt, lst in rows.items():
            base = db.GetBaseUnit(qt)
            ref = None
            for r in lst:
                by_unit[r["unit"]] = r
                if r["unit"] == base:
                    ref = r
            if ref is None and len(lst) >= 2:
                ref = min(lst, key=lambda r: (r["tol"], r["unit"]))
            refs[qt] = ref
            for r in lst:
                if ref is None or not abs(r["k"] / ref["k"] - 1) <= max(K_TOL * (r["tol"] + (ref["tol"] if ref is not r else 0.0)), FLOOR_REL):
                    off_rows.add(r["unit"])  # reported (or listed as known) by the comparison below

        def expand(parts, depth=0):
            """the parts of the parts, down to rows that do not decompose: (multiplier, [(atom, exp)], tolerance, rows passed)."""
            mult, leaves, tol, via = 1.0, [], 0.0, []
            for pre, s, e in parts:
                sub = by_unit.get(s)
                if sub is not None and depth < 4 and refs.get(infos[s].quantity_type) is not None and db.GetBaseUnit(infos[s].quantity_type) == refs[infos[s].quantity_type]["unit"]:
                    m2, l2, t2, v2 = expand(sub["parts"], depth + 1)
                    # a base unit need not be coherent with the base units of its parts ('kg/m3/d' is the base of its
                    # type): the constant of the sub-row's quantity type travels with it
                    mult *= (pre * m2 * refs[infos[s].quantity_type]["k"]) ** e
                    leaves += [(a, x * e) for a, x in l2]
                    tol += abs(e) * (t2 + sub["tol"])
                    via += [s] + v2
                else:
                    mult *= pre**e
                    leaves.append((s, e))
                    tol += abs(e) * grammar.written_precision(infos[s], False)
            return mult, leaves, tol, via

        for qt, lst in rows.items():
            base = db.GetBaseUnit(qt)
            ref = refs[qt]
            if ref is None:
                ctx.count("rows without a comparison partner", len(lst))
                continue
            for r in lst:
                n_rows += 1
                ctx.nt(("row", r["unit"]))
                for direction, fac in (("tobase", r["factor"]), ("frombase", r["factor_from_frombase"])):
                    ctx.ev()
                    n_cmp += 1
                    k = fac / r["composed"]
                    ratio = k / ref["k"]
                    limit = max(K_TOL * (r["tol"] + (ref["tol"] if ref is not r else 0.0)), FLOOR_REL)
                    if not abs(ratio - 1) <= limit:
                        key = "row:%s:ratio=%s" % (r["unit"].replace(" ", "_"), sig3(ratio))
                        ctx.violation(
                            key,
                            {"quantity_type": qt, "row": r["unit"], "direction": direction, "table_factor": fac, "composed_factor": r["composed"] * ref["k"],
                             "ratio": ratio, "limit": limit, "parts": r["parts"], "reference_row": ref["unit"]},
                            replay={"row": r["unit"]},
                        )  # fmt: skip
                # (a row with a temperature among its parts is compared through the table only: its parts are intervals - 1 degC per metre is
                # 1 K per metre - while a Scalar in degC is a temperature, so composing Scalars is no reading of such a row)
                if r.get("interval_parts") and all(e < 0 for _pre, s, e in r["parts"] if s in T.aff and T.aff[s].off != 0.0):
                    # ... except that a temperature *below the line* is an interval for the arithmetic too (1 / degF is 1.8 / K): the row's
                    # parts multiplied and divided as Scalars, divided by the same composition in base units, leave the row's factor
                    try:
                        acc = bacc = None
                        for pre, s, e in r["parts"]:
                            leaf, bleaf = Scalar(pre, s), Scalar(1.0, db.GetBaseUnit(infos[s].quantity_type))
                            for _ in range(abs(e)):
                                acc = (leaf if e > 0 else 1.0 / leaf) if acc is None else (acc * leaf if e > 0 else acc / leaf)
                                bacc = (bleaf if e > 0 else 1.0 / bleaf) if bacc is None else (bacc * bleaf if e > 0 else bacc / bleaf)
                        ctx.ev()
                        ctx.count("rows with a temperature below the line composed as Scalars and divided by their base units")
                        for amount in (1.0, 2.5):
                            q_ = (acc * amount) / bacc
                            named = db.Convert(qt, r["unit"], base, amount)
                            limit = max(K_TOL * (r["tol"] + (ref["tol"] if ref is not r else 0.0)), FLOOR_REL)
                            got_ = float(q_.GetValue()) * ref["k"] if not q_.GetUnit() else None
                            if r["unit"] in off_rows:
                                continue  # the row itself is off (reported, or listed as known, by the table comparison above)
                            if got_ is None or not abs(got_ / named - 1) <= limit:
                                ctx.violation("row:%s:composed-with-a-temperature-below-the-line-differs" % r["unit"].replace(" ", "_"), {"row": r["unit"], "amount": amount, "named_row_in_base_units": named, "composition_over_base_units": repr(q_)[:120],
                                                                                                                                   "limit": limit}, replay={"row": r["unit"]})  # fmt: skip
                                break
                    except Exception as e:
                        ctx.violation("dynamic-raised:%s" % r["unit"].replace(" ", "_"), {"row": r["unit"], "error": repr(e)[:200]}, replay={"row": r["unit"]})
                if not r.get("interval_parts"):
                    # dynamic half: compose the same amount with barril's own arithmetic
                    try:
                        acc = None
                        for pre, s, e in r["parts"]:
                            leaf = Scalar(pre, s)
                            for _ in range(abs(e)):
                                if acc is None:
                                    acc = leaf if e > 0 else 1.0 / leaf
                                else:
                                    acc = acc * leaf if e > 0 else acc / leaf
                        ctx.ev()
                        readings_agree(ctx, T, acc, r["unit"], "multiplication")
                        read_against_base_units(ctx, T, db, acc, r["unit"], "multiplication")
                        got = dims.basemag(T, acc.GetValue(), dims.items_of(acc.GetQuantity())) * Fr(ref["k"])
                        want = dims.basemag(T, 1.0, [(infos[r["unit"]].quantity_type if False else db.GetDefaultCategory(r["unit"]) or qt, r["unit"], 1)])
                        ratio = float(want / got)
                        limit = max(K_TOL * (r["tol"] + (ref["tol"] if ref is not r else 0.0)), FLOOR_REL)
                        if not abs(ratio - 1) <= limit:
                            ctx.violation("row:%s:ratio=%s" % (r["unit"].replace(" ", "_"), sig3(ratio)), {"row": r["unit"], "dynamic": True, "composed": repr(acc), "ratio": ratio}, replay={"row": r["unit"]})
                    except Exception as e:
                        ctx.violation("dynamic-raised:%s" % r["unit"].replace(" ", "_"), {"row": r["unit"], "error": repr(e)[:200]}, replay={"row": r["unit"]})
                    # the same amount composed from powers ("in**2", numerator / denominator) - the matching of two units
                    # of one quantity type at an exponent other than 1 takes another path than repeated multiplication
                    try:
                        num = den = None
                        for pre, s, e in r["parts"]:
                            leaf = Scalar(pre, s) ** abs(e)
                            if e > 0:
                                num = leaf if num is None else num * leaf
                            else:
                                den = leaf if den is None else den * leaf
                        acc2 = num if den is None else ((1.0 / den) if num is None else num / den)
                        ctx.ev()
                        ctx.count("rows composed from powers")
                        readings_agree(ctx, T, acc2, r["unit"], "powers")
                        got2 = dims.basemag(T, acc2.GetValue(), dims.items_of(acc2.GetQuantity())) * Fr(ref["k"])
                        ratio2 = float(want / got2)
                        if not abs(ratio2 - 1) <= limit:
                            ctx.violation("row:%s:ratio=%s" % (r["unit"].replace(" ", "_"), sig3(ratio2)), {"row": r["unit"], "dynamic": "powers", "composed": repr(acc2), "ratio": ratio2}, replay={"row": r["unit"]})
                        # both compositions are the same product of the same leaves: they must tell the same amount
                        # (also where the row itself is a known finding of the table)
                        ctx.ev()
                        if not abs(float(got2 / got) - 1) <= 1e-9:
                            ctx.violation("two-compositions-of-the-same-parts-differ", {"row": r["unit"], "by_multiplication": repr(acc), "by_powers": repr(acc2), "ratio": float(got2 / got)}, replay={"row": r["unit"]})
                    except Exception as e:
                        ctx.violation("dynamic-powers-raised:%s" % r["unit"].replace(" ", "_"), {"row": r["unit"], "error": repr(e)[:200]}, replay={"row": r["unit"]})
                    # the same amount from the parts of the parts ('lbf.ft/in2' from lbf, ft and in - not from the area row 'in2'):
                    # units of one quantity type now meet at exponents other than 1, one row after the other in one process
                    try:
                        mult, leaves, xtol, via = expand(r["parts"])
                        if via:
                            compositions = []
                            for form in ("powers", "multiplication"):
                                num = den = None
                                for s_, e in leaves:
                                    if form == "powers":
                                        terms = [Scalar(1.0, s_) ** abs(e)]
                                    else:
                                        terms = [Scalar(1.0, s_)] * abs(e)
                                    for t_ in terms:
                                        if e > 0:
                                            num = t_ if num is None else num * t_
                                        else:
                                            den = t_ if den is None else den * t_
                                acc3 = num if den is None else ((1.0 / den) if num is None else num / den)
                                readings_agree(ctx, T, acc3, r["unit"], "parts of parts, " + form)
                                compositions.append((form, acc3, dims.basemag(T, acc3.GetValue() * mult, dims.items_of(acc3.GetQuantity())) * Fr(ref["k"])))
                            ctx.ev()
                            ctx.count("rows composed from the parts of their parts")
                            (f1, a1, g1), (f2, a2, g2) = compositions
                            row_limit = max(K_TOL * (r["tol"] + xtol + (ref["tol"] if ref is not r else 0.0)), FLOOR_REL)
                            if not abs(float(g1 / g2) - 1) <= 1e-9:
                                ctx.violation("two-compositions-of-the-same-parts-differ", {"row": r["unit"], "leaves": leaves, f1: repr(a1), f2: repr(a2), "ratio": float(g1 / g2)}, replay={"row": r["unit"]})
                            elif r["unit"] not in off_rows and not (set(via) & off_rows):
                                ctx.count("rows composed from the parts of their parts and compared with the named row")
                                ratio3 = float(want / g1)
                                if not abs(ratio3 - 1) <= row_limit:
                                    ctx.violation("row-from-the-parts-of-its-parts:%s:ratio=%s" % (r["unit"].replace(" ", "_"), sig3(ratio3)), {"row": r["unit"], "leaves": leaves, "through": via, "composed": repr(a1), "ratio": ratio3, "limit": row_limit}, replay={"row": r["unit"]})
                    except Exception as e:
                        ctx.violation("dynamic-expanded-raised:%s" % r["unit"].replace(" ", "_"), {"row": r["unit"], "error": repr(e)[:200]}, replay={"row": r["unit"]})
                    # ... and written with reciprocals: x * (1 / y) instead of x / y - the divisor is an operand of its own,
                    # carrying the unit at exponent -1 when it meets another unit of the same quantity type
                    try:
                        acc4 = None
                        for pre, s_, e in sorted(r["parts"], key=lambda t: -t[2]):
                            for _ in range(abs(e)):
                                leaf = Scalar(pre, s_) if e > 0 else 1.0 / Scalar(pre, s_)
                                acc4 = leaf if acc4 is None else acc4 * leaf
                        ctx.ev()
                        ctx.count("rows composed with reciprocal operands")
                        readings_agree(ctx, T, acc4, r["unit"], "reciprocal operands")
                        got4 = dims.basemag(T, acc4.GetValue(), dims.items_of(acc4.GetQuantity())) * Fr(ref["k"])
                        if not abs(float(got4 / got) - 1) <= 1e-9:
                            ctx.violation("two-compositions-of-the-same-parts-differ", {"row": r["unit"], "by_multiplication": repr(acc), "with_reciprocal_operands": repr(acc4), "ratio": float(got4 / got)}, replay={"row": r["unit"]})
                        # a reciprocal sum: 1/x + 1/y of two components of one quantity type, from parts and from the named reciprocal rows
                    except Exception as e:
                        ctx.violation("dynamic-reciprocals-raised:%s" % r["unit"].replace(" ", "_"), {"row": r["unit"], "error": repr(e)[:200]}, replay={"row": r["unit"]})
                    # ... and as a fold that starts from a unit-less one (acc = 1; acc = acc * part ...), and with the same-type
                    # ratio taken first ('lbf.ft/in' as (ft/in) * lbf): a unit-less amount on the *left* of a product
                    try:
                        acc5 = Scalar.CreateEmptyScalar(1.0)
                        for pre, s_, e in r["parts"]:
                            for _ in range(abs(e)):
                                acc5 = acc5 * Scalar(pre, s_) if e > 0 else acc5 / Scalar(pre, s_)
                        forms5 = [("fold from a unit-less one", acc5)]
                        by_type = {}
                        for pre, s_, e in r["parts"]:
                            by_type.setdefault(infos[s_].quantity_type, []).append((pre, s_, e))
                        pair = next(((a, b) for lst in by_type.values() for a in lst for b in lst if a[2] > 0 > b[2]), None)
                        if pair is not None:
                            (p1, s1, e1), (p2, s2, e2) = pair
                            acc6 = Scalar(p1, s1) / Scalar(p2, s2)  # unit-less when it is one unit over another of its type
                            rest = []
                            for pre, s_, e in r["parts"]:
                                k = abs(e) - (1 if (pre, s_, e) in ((p1, s1, e1), (p2, s2, e2)) else 0)
                                rest += [(pre, s_, e)] * k
                            for pre, s_, e in rest:
                                acc6 = acc6 * Scalar(pre, s_) if e > 0 else acc6 / Scalar(pre, s_)
                            forms5.append(("same-type ratio first", acc6))
                        for form, a5 in forms5:
                            ctx.ev()
                            ctx.count("rows composed with a unit-less amount on the left")
                            readings_agree(ctx, T, a5, r["unit"], form)
                            g5 = dims.basemag(T, a5.GetValue(), dims.items_of(a5.GetQuantity())) * Fr(ref["k"])
                            if not abs(float(g5 / got) - 1) <= 1e-9:
                                ctx.violation("two-compositions-of-the-same-parts-differ", {"row": r["unit"], "by_multiplication": repr(acc), form: repr(a5), "ratio": float(g5 / got)}, replay={"row": r["unit"]})
                    except Exception as e:
                        ctx.violation("dynamic-fold-raised:%s" % r["unit"].replace(" ", "_"), {"row": r["unit"], "error": repr(e)[:200]}, replay={"row": r["unit"]})
                    # a row that is one component at an exponent ('1/ft', 'ft2', '1/psi'): the (unit, exponent) overload of the
                    # conversion - Convert(qt, [(u, e)], [(base, e)], x) and GetValue([(base, e)]) of the derived amount - tells the
                    # same factor as the product of the component's factors
                    if len(r["parts"]) == 1 and r["parts"][0][0] == 1.0:
                        _pre, atom, e = r["parts"][0]
                        aqt = infos[atom].quantity_type
                        abase = db.GetBaseUnit(aqt)
                        for route, amount, fn in (
                            ("UnitDatabase.Convert(qt,[(u,e)],[(base,e)],x)", 2.0, lambda: db.Convert(aqt, [(atom, e)], [(abase, e)], 2.0)),
                            ("derived Scalar.GetValue([(base,e)])", 2.0, lambda: ((Scalar(1.0, atom) ** abs(e)) * 2.0 if e > 0 else 2.0 / (Scalar(1.0, atom) ** abs(e))).GetValue([(abase, e)])),
                            # a negative amount of the same unit is the same factor away from its base amount
                            ("UnitDatabase.Convert(qt,[(u,e)],[(base,e)],-x)", -3.0, lambda: db.Convert(aqt, [(atom, e)], [(abase, e)], -3.0)),
                            ("derived Scalar.GetValue([(base,e)]) of a negative amount", -3.0, lambda: ((Scalar(1.0, atom) ** abs(e)) * -3.0 if e > 0 else -3.0 / (Scalar(1.0, atom) ** abs(e))).GetValue([(abase, e)])),
                        ):  # fmt: skip
                            ctx.ev()
                            ctx.count("single-component rows read through the (unit, exponent) overload")
                            try:
                                gv = float(fn())
                            except Exception as ex:
                                ctx.violation("route-raised:%s" % route, {"row": r["unit"], "route": route, "error": repr(ex)[:200]}, replay={"row": r["unit"]})
                                continue
                            wv = amount * r["composed"]
                            if not abs(gv - wv) <= 1e-11 * abs(wv):
                                ctx.violation("row-factor-differs-by-route:%s" % route, {"row": r["unit"], "route": route, "got": gv, "product_of_component_factors": wv}, replay={"row": r["unit"]})
                # the row's factor as every public conversion route tells it (floats, lists, tuples, arrays, value objects)
                for route, got_f in factor_routes(db, qt, r["unit"], base):
                    ctx.ev()
                    ctx.count("row factors observed through API routes")
                    want_f = r["factor"] if route.startswith("to base") else 1.0 / r["factor"]
                    if isinstance(got_f, Exception):
                        ctx.violation("route-raised:%s" % route, {"row": r["unit"], "route": route, "error": repr(got_f)[:200]}, replay={"row": r["unit"]})
                    elif not abs(got_f - want_f) <= 1e-12 * abs(want_f):
                        ctx.violation("row-factor-differs-by-route:%s" % route, {"row": r["unit"], "route": route, "factor_by_route": got_f, "factor_of_the_row": want_f}, replay={"row": r["unit"]})
                if n_rows <= 3:
                    ctx.sample({"row": r["unit"], "parts": r["parts"], "table_factor": r["factor"], "k_over_ref": r["k"] / ref["k"], "tol": r["tol"]})
        same_type_ratios(ctx, T, db, rows)
        # SI-prefix clause
        n_si = 0
        for u, info in infos.items():
            sp = grammar.si_prefixed(u, info, infos)
            if sp is None:
                continue
            other, mult = sp
            a1, a2 = aff.get(u), aff.get(other)
            if a1 is None or a2 is None or a1.off or a2.off:
                continue
            n_si += 1
            ctx.ev()
            ctx.nt(("si", u))
            ratio = a1.slope / (a2.slope * mult)
            limit = max(K_TOL * (grammar.written_precision(info, True) + grammar.written_precision(infos[other], True)), FLOOR_REL)
            if not abs(ratio - 1) <= limit:
                ctx.violation("si:%s:ratio=%s" % (u.replace(" ", "_"), sig3(ratio)), {"row": u, "name": info.name, "other": other, "prefix_multiplier": mult, "table_factor": a1.slope, "expected": a2.slope * mult, "ratio": ratio}, replay={"row": u})
        ctx.exhaustive = True
        ctx.notes["exhaustive_dimension"] = "all rows of the shipped POSC table (no sampling)"
        ctx.notes["rows"] = {"decomposable_compared": n_rows, "comparisons": n_cmp, "si_prefixed": n_si, "table_rows": len(infos)}
        ctx.notes["skipped"] = skipped
    ctx.inconclusive_if(n_rows < 800 or n_si < 100, "only %d decomposable and %d SI rows found - grammar no longer matches the table?" % (n_rows, n_si))


def replay(ctx, d):
    run(ctx)
    keep = {k: v for k, v in ctx.violations.items() if ":%s:" % d["row"].replace(" ", "_") in k[1] + ":"}
    ctx.violations = keep
