"""C08 - comparisons are coherent: order follows the physical amount, equality is total
(DESIGN.md 4, C08)."""
import itertools
import math
import operator
from fractions import Fraction as Fr

from .. import probe
from ..models import conv
from ..workloads import table, values

SHARDS = {"quick": 4, "thorough": 16}
WATCHDOG_S = {"quick": 900, "thorough": 7200}
FLOORS = (20000, 500)
OPS = {"<": operator.lt, "<=": operator.le, ">": operator.gt, ">=": operator.ge}


def order_pair(ctx, a, b, A, B, noise, case, tag):
    """a, b: objects; A, B exact base amounts (Fractions); noise: error scale in base units."""
    res = {}
    for n, op in OPS.items():
        for lbl, x, y in (("ab", a, b), ("ba", b, a)):
            try:
                res[n + lbl] = op(x, y)
            except Exception as e:
                ctx.ev()
                ctx.violation("%s:order-raised:%s" % (tag, type(e).__name__), dict(case, op=n, error=str(e)[:200]), replay=case)
                return
    ctx.ev()

    def bad(clause):
        ctx.violation("%s:%s" % (tag, clause), dict(case, results={k: bool(v) for k, v in res.items()}), replay=case)

    if res[">ab"] and res[">ba"]:
        bad("a>b and b>a")
    if res["<ab"] and res["<ba"]:
        bad("a<b and b<a")
    if not (res["<=ab"] or res["<=ba"]):
        bad("neither a<=b nor b<=a")
    if not (res[">=ab"] or res[">=ba"]):
        bad("neither a>=b nor b>=a")
    if bool(res["<ab"]) != bool(res[">ba"]) or bool(res["<ba"]) != bool(res[">ab"]):
        bad("a<b differs from b>a")
    if bool(res["<=ab"]) != (not res[">ab"]) or bool(res["<=ba"]) != (not res[">ba"]):
        bad("a<=b differs from not a>b")
    if bool(res[">=ab"]) != (not res["<ab"]) or bool(res[">=ba"]) != (not res["<ba"]):
        bad("a>=b differs from not a<b")
    if bool(res["<=ab"]) != bool(res[">=ba"]) or bool(res["<=ba"]) != bool(res[">=ab"]):
        bad("a<=b differs from b>=a")
    if abs(A - B) > noise:
        ctx.ev()
        if bool(res["<ab"]) != (A < B) or bool(res[">ab"]) != (A > B) or bool(res["<=ab"]) != (A < B) or bool(res[">=ab"]) != (A > B):
            bad("order disagrees with the physical amounts")


def order_sweep(ctx, db, aff, r):
    from barril.basic.fraction import FractionValue
    from barril.units import FractionScalar, Scalar

    work = []
    for qt, us in table.units_by_type(db).items():
        us = [u for u in us if u in aff and aff[u].exact and aff[u].slope > 0]
        if qt == "Unknown" or len(us) < 1:
            continue
        pairs = [(u, v) for u in us for v in us]
        if ctx.tier == "quick" and len(pairs) > 30:
            pairs = r.sample(pairs, 30)
        for u, v in pairs:
            work.append((qt, u, v))
    # zero on either side wherever a unit with a zero point of its own is involved (every such unit against every unit of its
    # type, whatever pairs the sample below draws): 0 degC is not zero kelvin, 0 psig is one atmosphere
    if ctx.shard == 0:
        for qt, us in table.units_by_type(db).items():
            us = [u for u in us if u in aff and aff[u].exact and aff[u].slope > 0]
            for u in us:
                if aff[u].off == 0.0 or qt == "Unknown":
                    continue
                for v in us:
                    if v == u:
                        continue
                    au, av = aff[u], aff[v]
                    for x, y in ((0.0, 0.5), (0.0, 0.0), (0.5, 0.0), (-0.0, 300.0), (0, 1), (1.0, 0), (-400.0, 0.0)):
                        A = Fr(au.off) + Fr(au.slope) * Fr(x)
                        B = Fr(av.off) + Fr(av.slope) * Fr(y)
                        noise = Fr(16 * conv.EPS) * (abs(Fr(au.off)) + abs(Fr(au.slope) * Fr(x)) + abs(Fr(av.off)) + abs(Fr(av.slope) * Fr(y)))
                        case = {"qt": qt, "u": u, "v": v, "x": x, "y": y, "zero on one side": True}
                        ctx.nt(("order zero", qt, u, v))
                        try:
                            order_pair(ctx, Scalar(x, u), Scalar(y, v), A, B, noise, case, "Scalar")
                            order_pair(ctx, Scalar(y, v), Scalar(x, u), B, A, noise, dict(case, swapped=True), "Scalar")
                            order_pair(ctx, FractionScalar(FractionValue(x), u), FractionScalar(FractionValue(y), v), A, B, noise * 4, dict(case, fraction=True), "FractionScalar")
                        except Exception as e:
                            ctx.violation("Scalar:construction-raised", dict(case, error=repr(e)[:200]), replay=case)
    # a fraction part below zero in a very small unit against a large one (-1/2 nm and 0 m): the fraction is part of the amount
    if ctx.shard == 0:
        for qt, us in table.units_by_type(db).items():
            us = [u for u in us if u in aff and aff[u].exact and aff[u].slope > 0 and aff[u].off == 0.0]
            if qt == "Unknown" or len(us) < 2:
                continue
            small, big = min(us, key=lambda t: aff[t].slope), max(us, key=lambda t: aff[t].slope)
            if aff[big].slope / aff[small].slope < 1e6:
                continue
            for fva, fvb in ((FractionValue(0, (-1, 2)), FractionValue(0)), (FractionValue(0, (1, 2)), FractionValue(0)), (FractionValue(-3, (-1, 4)), FractionValue(0, (-1, 1000))), (FractionValue(2, (-1, 2)), FractionValue(0, (1, 4)))):
                A = Fr(aff[small].slope) * (Fr(fva.number) + Fr(fva.fraction.numerator) / Fr(fva.fraction.denominator))
                B = Fr(aff[big].slope) * (Fr(fvb.number) + Fr(fvb.fraction.numerator) / Fr(fvb.fraction.denominator))
                case = {"qt": qt, "u": small, "v": big, "a": repr(fva), "b": repr(fvb)}
                ctx.nt(("order small fraction", qt, small, big))
                try:
                    order_pair(ctx, FractionScalar(fva, small), FractionScalar(fvb, big), A, B, Fr(0), case, "FractionScalar")
                except Exception as e:
                    ctx.violation("FractionScalar:construction-raised", dict(case, error=repr(e)[:200]), replay=case)
    hv = [x for x in values.hostile() if abs(x) < 1e10]
    for idx, (qt, u, v) in enumerate(work):
        if idx % ctx.nshards != ctx.shard:
            continue
        au, av = aff[u], aff[v]
        ctx.nt(("order", qt, u, v))
        xs = [r.choice(hv), values.short_decimal(r), 1.0] if ctx.tier == "quick" else [r.choice(hv), r.choice(hv), values.short_decimal(r), values.loguniform(r, 1e-6, 1e6), 1.0, 0.0]
        for x in xs:
            try:
                y0 = db.Convert(qt, u, v, x)
            except Exception:
                continue
            if not math.isfinite(y0):
                continue
            A = Fr(au.off) + Fr(au.slope) * Fr(x)
            for y in (y0, math.nextafter(y0, math.inf), math.nextafter(y0, -math.inf), y0 * (1 + 1e-9), y0 * (1 - 1e-9), y0 + 1.0):
                if y != 0 and abs(y) < 1e-290:
                    continue  # denormals: outside the examined magnitude range
                B = Fr(av.off) + Fr(av.slope) * Fr(y)
                noise = Fr(16 * conv.EPS) * (abs(Fr(au.off)) + abs(Fr(au.slope) * Fr(x)) + abs(Fr(av.off)) + abs(Fr(av.slope) * Fr(y)))
                case = {"qt": qt, "u": u, "v": v, "x": x, "y": y}
                try:
                    a, b = Scalar(x, u), Scalar(y, v)
                except Exception as e:
                    ctx.ev()
                    ctx.violation("Scalar:construction-raised", dict(case, error=repr(e)[:200]), replay=case)
                    break
                order_pair(ctx, a, b, A, B, noise, case, "Scalar")
            # FractionScalar: same sweep on fewer values, plus equal amounts split differently
            y = y0
            B = Fr(av.off) + Fr(av.slope) * Fr(y)
            noise = Fr(64 * conv.EPS) * (abs(Fr(au.off)) + abs(Fr(au.slope) * Fr(x)) + abs(Fr(av.off)) + abs(Fr(av.slope) * Fr(y)))
            case = {"qt": qt, "u": u, "v": v, "x": x, "y": y, "fraction": True}
            try:
                fa, fb = FractionScalar(FractionValue(x), u), FractionScalar(FractionValue(y), v)
                order_pair(ctx, fa, fb, A, B, noise, case, "FractionScalar")
                # a Scalar and a FractionScalar of one quantity type are ordered like two Scalars (either class on the left)
                order_pair(ctx, Scalar(x, u), fb, A, B, noise, dict(case, classes="Scalar / FractionScalar"), "Scalar-with-FractionScalar")
                order_pair(ctx, fa, Scalar(y, v), A, B, noise, dict(case, classes="FractionScalar / Scalar"), "Scalar-with-FractionScalar")
                # the value a FractionScalar holds is the caller's object and its fraction can be edited in place: the order asked for
                # afterwards is the order of the amounts held then (nothing remembered from the comparison before)
                if x == x and abs(x) < 1e6:
                    fv_e = FractionValue(float(int(x)), (1, 2))
                    fe = FractionScalar(fv_e, u)
                    order_pair(ctx, fe, fb, Fr(au.off) + Fr(au.slope) * (Fr(int(x)) + Fr(1, 2)), B, noise, dict(case, edited="before"), "FractionScalar")
                    fv_e.fraction.numerator = 5
                    if float(fe.GetValue()) == int(x) + 2.5:
                        order_pair(ctx, fe, fb, Fr(au.off) + Fr(au.slope) * (Fr(int(x)) + Fr(5, 2)), B, noise, dict(case, edited="the numerator of the held fraction, in place"), "FractionScalar")
                    elif True:
                        ctx.violation("FractionScalar:float-of-the-held-value-ignores-an-edit-of-its-fraction", dict(case, held=repr(fe.GetValue()), float=float(fe.GetValue())), replay=case)
                # amounts that *print* like the ones just compared (the same six significant digits) are other amounts
                for x2, y2 in ((x * (1 + 3e-7), y), (x * (1 - 3e-7), y), (x, y * (1 + 3e-7)), (x, y * (1 - 3e-7))):
                    A2 = Fr(au.off) + Fr(au.slope) * Fr(x2)
                    B2 = Fr(av.off) + Fr(av.slope) * Fr(y2)
                    order_pair(ctx, FractionScalar(FractionValue(x2), u), FractionScalar(FractionValue(y2), v), A2, B2, noise, dict(case, x=x2, y=y2, prints_like=[x, y]), "FractionScalar")
            except Exception as e:
                ctx.ev()
                ctx.violation("FractionScalar:construction-raised", dict(case, error=repr(e)[:200]), replay=case)
        # amounts so large that their base amounts leave the float range (both become inf there): no order can be demanded of
        # them, but the four operators still have to be coherent with one another
        if u != v:
            for x, y in ((1e306, 1e306), (-1e306, -1e307), (1e308, 1e305)):
                ctx.ev()
                try:
                    order_pair(ctx, Scalar(x, u), Scalar(y, v), Fr(0), Fr(0), Fr(10) ** 400, {"qt": qt, "u": u, "v": v, "x": x, "y": y, "huge": True}, "Scalar(huge)")
                except Exception as e:
                    ctx.violation("Scalar(huge):construction-raised", {"qt": qt, "u": u, "v": v, "error": repr(e)[:160]})
        # equal amounts written with different number / fraction splits (same and different units)
        for (n1, f1), (n2, f2) in (((1, (1, 2)), (1.5, (0, 1))), ((0, (3, 2)), (1, (1, 2))), ((2, (3, 4)), (2.75, (0, 1))), ((5, (1, 4)), (4, (5, 4)))):
            x1 = n1 + f1[0] / f1[1]
            case = {"qt": qt, "u": u, "v": v, "split_a": [n1, list(f1)], "split_b": [n2, list(f2)]}
            try:
                fa = FractionScalar(FractionValue(n1, f1), u)
                fb = FractionScalar(FractionValue(n2, f2), u)
                A = Fr(au.off) + Fr(au.slope) * (Fr(n1) + Fr(f1[0], f1[1]))
                order_pair(ctx, fa, fb, A, A, Fr(0), dict(case, same_unit=True), "FractionScalar")
                if au.off == 0.0 and av.off == 0.0 and u != v:
                    # the same physical amount in unit v: number and numerator scaled by the exact ratio when it is a power of ten
                    ratio = Fr(au.slope) / Fr(av.slope)
                    if ratio in (10, 100, 1000, Fr(1, 10), Fr(1, 100), Fr(1, 1000)):
                        fbv = FractionScalar(FractionValue(float(n2 * ratio), (float(f2[0] * ratio), f2[1])), v)
                        order_pair(ctx, fa, fbv, A, A, Fr(64 * conv.EPS) * abs(A), dict(case, same_unit=False), "FractionScalar")
            except Exception as e:
                ctx.ev()
                ctx.violation("FractionScalar:construction-raised", dict(case, error=repr(e)[:200]), replay=case)


def different_types(ctx, db, aff, r, n):
    """ordering values of different quantity types raises TypeError."""
    from barril.basic.fraction import FractionValue
    from barril.units import FractionScalar, Scalar

    ubt = {qt: us for qt, us in table.units_by_type(db).items() if qt != "Unknown"}
    qts = list(ubt)
    for _ in range(n):
        q1, q2 = r.sample(qts, 2)
        u, v = r.choice(ubt[q1]), r.choice(ubt[q2])
        case = {"u": u, "v": v}
        try:
            pairs = [("Scalar", Scalar(1.0, u), Scalar(2.0, v)), ("FractionScalar", FractionScalar(FractionValue(1.0), u), FractionScalar(FractionValue(2.0), v))]
        except Exception:
            continue
        ctx.nt(("types", q1, q2))
        for tag, a, b in pairs:
            for nme, op in OPS.items():
                ctx.ev()
                try:
                    res = op(a, b)
                    ctx.violation("%s:different-types-returned" % tag, dict(case, op=nme, returned=repr(res)), replay=case)
                except TypeError:
                    pass
                except Exception as e:
                    ctx.violation("%s:different-types-raised-%s" % (tag, type(e).__name__), dict(case, op=nme, error=str(e)[:200]), replay=case)


def same_unit_string_different_types(ctx, db, r, n):
    """A derived Scalar whose composed unit string happens to equal a table symbol of another quantity type
    ('m2' from m*m vs the area unit 'm2', 'm/s' from m / s vs the velocity unit): the unit strings are equal,
    the quantity types are not - ordering must still raise TypeError, in both orders, all four operators."""
    from barril.units import Scalar

    from ..models import grammar

    atoms = set(db.unit_to_unit_info)
    rows = []
    for sym, info in db.unit_to_unit_info.items():
        p = grammar.parse_symbol(sym, atoms, info.name)
        if not p or p == "ambiguous" or any(pre != 1.0 for pre, _a, _e in p):
            continue
        if len(p) == 1 and p[0][2] == 1:
            continue
        rows.append((sym, info.quantity_type, p))
    r.shuffle(rows)
    done = 0
    for sym, qt, parts in rows:
        if done >= n:
            break
        try:
            acc = None
            for _pre, atom, e in sorted(parts, key=lambda t: -t[2]):
                x = Scalar(2.0, atom)
                f = x ** abs(e) if abs(e) > 1 else x
                if acc is None:
                    acc = f if e > 0 else 1.0 / f
                else:
                    acc = acc * f if e > 0 else acc / f
            t = Scalar(3.0, sym)
        except Exception:
            continue
        if acc.GetUnit() != sym or acc.GetQuantityType() == t.GetQuantityType():
            continue
        done += 1
        case = {"table_unit": sym, "table_quantity_type": qt, "derived_quantity_type": acc.GetQuantityType(), "derived_unit": acc.GetUnit()}
        ctx.nt(("same-unit-string", sym))
        for nme, op in OPS.items():
            for lbl, a, b in (("derived,table", acc, t), ("table,derived", t, acc)):
                ctx.ev()
                try:
                    res = op(a, b)
                    ctx.violation("Scalar:same-unit-string-different-types-returned", dict(case, op=nme, order=lbl, returned=repr(res)), replay=case)
                except TypeError:
                    pass
                except Exception as e:
                    ctx.violation("Scalar:same-unit-string-different-types-raised-%s" % type(e).__name__, dict(case, op=nme, order=lbl, error=str(e)[:200]), replay=case)
    ctx.count("derived-vs-table pairs with equal unit strings", done)


# ------------------------------------------------------------------------------- equality
def equality_pool(r):
    import decimal
    import fractions as pyfractions
    from collections import OrderedDict
    import numpy as np
    from barril.basic.fraction import Fraction, FractionValue
    from barril.curve.curve import Curve
    from barril.units import Array, FixedArray, FractionScalar, GetUnknownQuantity, ObtainQuantity, Quantity, Scalar
    from barril.units.unit_system import UnitSystem

    u1, u2 = r.choice([("m", "cm"), ("s", "min"), ("kg", "g"), ("degC", "K")])
    o1, o2 = r.choice([("s", "m"), ("kg", "s"), ("m", "kg")])[0], "A"
    v = r.choice([1.0, 2.0, 0.5])
    m, s = Scalar(v, u1), Scalar(2.0, o1 if o1 != u1 else o2)
    objs = {
        "Quantity": ObtainQuantity(u1), "Quantity(other unit)": ObtainQuantity(u2), "Quantity(caption)": ObtainQuantity(u1, None, "cap"),
        "Quantity(a*b)": (m * s).GetQuantity(), "Quantity(b*a)": (s * m).GetQuantity(), "Quantity(a/b)": (m / s).GetQuantity(),
        "Quantity(empty)": Quantity.CreateEmpty(), "Quantity(unknown)": GetUnknownQuantity(), "Quantity(unknown,caption)": GetUnknownQuantity("Feeeet"),
        "Scalar": Scalar(v, u1), "Scalar(same)": Scalar(v, u1), "Scalar(other unit)": Scalar(v, u2), "Scalar(other value)": Scalar(v + 1, u1),
        "Scalar(a*b)": m * s, "Scalar(b*a)": s * m, "Scalar(empty)": Scalar.CreateEmptyScalar(v), "Scalar(unknown)": Scalar(GetUnknownQuantity(), v),
        "Array[list]": Array([1.0, 2.0], u1), "Array[tuple]": Array((1.0, 2.0), u1), "Array[nd]": Array(np.array([1.0, 2.0]), u1),
        "Array[list,3]": Array([1.0, 2.0, 3.0], u1), "Array[nd,3]": Array(np.array([1.0, 2.0, 3.0]), u1), "Array[list,0]": Array([], u1), "Array[nd,0]": Array(np.array([]), u1),
        "Array(other unit)": Array([1.0, 2.0], u2), "Array(empty quantity)": Array.CreateEmptyArray([1.0, 2.0]), "Array(derived)": Array([1.0, 2.0], u1) * Array([1.0, 1.0], o1 if o1 != u1 else o2),
        "FixedArray[list]": FixedArray(2, [1.0, 2.0], u1), "FixedArray[nd]": FixedArray(2, np.array([1.0, 2.0]), u1), "FixedArray[tuple]": FixedArray(2, (1.0, 2.0), u1),
        "FixedArray(3)": FixedArray(3, [1.0, 2.0, 3.0], u1), "FixedArray(empty quantity)": FixedArray.CreateEmptyArray(2),
        "FractionScalar": FractionScalar(1.0, u1), "FractionScalar(frac)": FractionScalar(FractionValue(1, (1, 2)), u1), "FractionScalar(same amount)": FractionScalar(FractionValue(1.5), u1),
        "FractionScalar(other unit)": FractionScalar(1.0, u2),
        "FractionValue": FractionValue(1, (1, 2)), "FractionValue(same)": FractionValue(1, (2, 4)), "FractionValue(1.5)": FractionValue(1.5), "FractionValue(0)": FractionValue(),
        "Fraction": Fraction(1, 2), "Fraction(2/4)": Fraction(2, 4), "Fraction(3)": Fraction(3), "Fraction(0.25)": Fraction(0.25),
        "Curve": Curve(Array([1.0, 2.0], u1), Array([3.0, 4.0], o1 if o1 != u1 else o2)), "Curve(same)": Curve(Array([1.0, 2.0], u1), Array([3.0, 4.0], o1 if o1 != u1 else o2)),
        "Curve[nd]": Curve(Array(np.array([1.0, 2.0]), u1), Array(np.array([3.0, 4.0]), o1 if o1 != u1 else o2)), "Curve(3)": Curve(Array([1.0, 2.0, 3.0], u1), Array([3.0, 4.0, 5.0], u1)),
        "UnitSystem": UnitSystem("a", "A", {"length": "m"}), "UnitSystem(same)": UnitSystem("a", "A", {"length": "m"}), "UnitSystem(other)": UnitSystem("b", "B", {"length": "cm"}),
        "UnitSystem(superset mapping)": UnitSystem("a", "A", {"length": "m", "time": "s"}), "UnitSystem(empty mapping)": UnitSystem("a", "A", {}), "UnitSystem(other unit)": UnitSystem("a", "A", {"length": "cm"}),
        "UnitSystem(read only)": UnitSystem("a", "A", {"length": "m"}, True), "UnitSystem(other caption)": UnitSystem("a", "B", {"length": "m"}),
        "Curve(other domain)": Curve(Array([1.0, 2.0], u1), Array([3.0, 5.0], o1 if o1 != u1 else o2)), "Curve(image prefix)": Curve(Array([1.0], u1), Array([3.0], o1 if o1 != u1 else o2)),
        "Array(prefix)": Array([1.0], u1), "Array(other category)": Array("depth" if u1 in ("m", "cm") else None, [1.0, 2.0], u1) if u1 in ("m", "cm") else Array([1.0, 2.0, 9.0], u1),
        "FixedArray(other values)": FixedArray(2, [1.0, 3.0], u1), "Scalar(other category)": Scalar("depth", v, u1) if u1 in ("m", "cm") else Scalar(v + 2, u1),
        "FractionScalar(other fraction)": FractionScalar(FractionValue(1, (1, 4)), u1), "FractionValue(other number)": FractionValue(2, (1, 2)), "Fraction(-1/2)": Fraction(-1, 2),
        # same value, same unit text, same category text - different quantities (caption; order of the composing categories)
        "Scalar(unknown,caption)": Scalar(GetUnknownQuantity("Feeeet"), v), "Scalar(unknown,other caption)": Scalar(ObtainQuantity("<unknown>", "Unknown", "API units"), v),
        "Scalar(unknown,same caption)": Scalar(ObtainQuantity("<unknown>", "Unknown", "Feeeet"), v),
        "Scalar(derived a/b)": Scalar(Quantity.CreateDerived(OrderedDict([("length", ["m", 1]), ("time", ["s", -1])])), v),
        "Scalar(derived a/b, categories reordered)": Scalar(Quantity.CreateDerived(OrderedDict([("time", ["s", -1]), ("length", ["m", 1])])), v),
        "Scalar(derived a/b by arithmetic)": Scalar(v, "m") / Scalar(1.0, "s"),
        "Quantity(derived a/b, categories reordered)": Quantity.CreateDerived(OrderedDict([("time", ["s", -1]), ("length", ["m", 1])])),
        "Array(unknown,caption)": Array(GetUnknownQuantity("Feeeet"), [1.0, 2.0]), "Array(unknown,other caption)": Array(GetUnknownQuantity("API units"), [1.0, 2.0]),
        "FixedArray(unknown,caption)": FixedArray(2, GetUnknownQuantity("Feeeet"), [1.0, 2.0]),
        # one quantity reached through requests that need not hand out one interned object: equal, so hash-equal
        "Quantity(m,length)": ObtainQuantity("m", "length"), "Quantity(length, unit left out)": ObtainQuantity(None, "length"), "Quantity(m,length, empty caption)": ObtainQuantity("m", "length", ""),
        "Quantity(length,m) by the constructor": Quantity("length", "m"), "Quantity({length:[m,1]}) by the constructor": Quantity(OrderedDict([("length", ["m", 1])]), None),
        "Scalar(map-form constructor quantity)": Scalar(Quantity(OrderedDict([("length", ["m", 1])]), None), v), "Quantity({length:[m,1]}) requested": ObtainQuantity(OrderedDict([("length", ["m", 1])])), "Quantity(lbmol)": ObtainQuantity("lbmol", "amount of substance"), "Quantity(lbmole)": ObtainQuantity("lbmole", "amount of substance"),
        "Scalar(m,length)": Scalar(ObtainQuantity("m", "length"), v), "Scalar(length, unit left out)": Scalar(ObtainQuantity(None, "length"), v), "Scalar(m,length, empty caption)": Scalar(ObtainQuantity("m", "length", ""), v),
        "Scalar(constructor quantity)": Scalar(Quantity("length", "m"), v), "Scalar(lbmol)": Scalar("amount of substance", v, "lbmol"), "Scalar(lbmole)": Scalar("amount of substance", v, "lbmole"),
        "UnitSystem(id None)": UnitSystem(None, "Null", {}, True), "UnitSystem(the manager's null system)": _null_system(),
        "fractions.Fraction": pyfractions.Fraction(1, 2), "Decimal": decimal.Decimal("0.5"), "rational look-alike": _Rational(1, 2), "np.int64": np.int64(1), "np.float64": np.float64(0.5),
        "huge int": 10**400, "huge negative int": -(10**400), "inf": float("inf"), "nan": float("nan"), "2**1024": 2**1024,
        "complex": 1 + 0j, "bytes": b"x", "frozenset": frozenset([1]), "range": range(2), "type": Scalar,
        # pairs that look like (numerator, denominator) or (value, unit) but are plain tuples / lists; and the two zeros
        "pair (1.0, 'm')": (1.0, "m"), "pair (1, 0)": (1, 0), "list pair [1, 0]": [1, 0], "pair (inf, 2)": (float("inf"), 2), "pair (None, None)": (None, None), "pair ('a', 'b')": ("a", "b"),
        "pair (nan, 1)": (float("nan"), 1), "pair (1, 2.5)": (1, 2.5),
        "Scalar(0.0)": Scalar(0.0, u1), "Scalar(-0.0)": Scalar(-0.0, u1), "Scalar(-5 * 0)": Scalar(-5.0, u1) * 0, "Scalar(int 0)": Scalar(0, u1),
        "Scalar(empty, -0.0)": Scalar.CreateEmptyScalar(-0.0), "Scalar(empty, 0.0)": Scalar.CreateEmptyScalar(0.0), "Scalar(derived, -0.0)": (m * s) * -0.0, "Scalar(derived, 0.0)": (m * s) * 0.0,
        # fractional values whose parts are beyond the float range are values like any other for == and !=
        "FractionValue(huge int)": _built(lambda: FractionValue(10**400)), "FractionValue(huge int, same)": _built(lambda: FractionValue(10**400)), "FractionValue(huge numerator)": _built(lambda: FractionValue(1, (10**400, 3))),
        "FractionValue(huge negative)": _built(lambda: FractionValue(-(10**400), (1, 2))),
        "None": None, "str": "x", "int": 1, "float": 0.5, "tuple": (1, 2), "list": [1.0, 2.0], "dict": {"a": 1}, "object": object(), "bool": True, "int0": 0, "float1.5": 1.5,
    }  # fmt: skip
    return objs


FOREIGN = {"pair (1.0, 'm')", "pair (1, 0)", "list pair [1, 0]", "pair (inf, 2)", "pair (None, None)", "pair ('a', 'b')", "pair (nan, 1)", "pair (1, 2.5)", "None", "str", "int", "float", "tuple", "list", "dict", "object", "bool", "int0", "float1.5", "fractions.Fraction", "Decimal", "rational look-alike", "np.int64", "np.float64", "complex", "bytes", "frozenset", "range", "type", "huge int", "huge negative int", "inf", "nan", "2**1024"}


class _NotBuilt:
    """stands in the pool for a member whose constructor raised (reported by the sweep; the other members are still compared)"""

    def __init__(self, e):
        self.error = "%s: %s" % (type(e).__name__, str(e)[:120])


def _built(fn):
    try:
        return fn()
    except Exception as e:
        return _NotBuilt(e)


class _Rational:
    """an unrelated object that happens to have numerator / denominator attributes"""

    def __init__(self, n, d):
        self.numerator, self.denominator = n, d


def _null_system():
    from barril.units.unit_system_manager import UnitSystemManager

    return UnitSystemManager().GetCurrent()


def equality_sweep(ctx, r):
    import numpy as np

    objs = equality_pool(r)
    for n_ in [k for k, o in objs.items() if isinstance(o, _NotBuilt)]:
        ctx.ev()
        ctx.violation("eq-pool-member-could-not-be-built:%s" % n_, {"member": n_, "error": objs.pop(n_).error})
    names = list(objs)
    hashable = {}
    for n in names:
        try:
            hash(objs[n])
            hashable[n] = True
        except Exception:
            hashable[n] = False
    res = {}
    for na, nb in itertools.product(names, repeat=2):
        if na in FOREIGN and nb in FOREIGN:
            continue
        if na in ("np.int64", "np.float64"):
            continue  # with a numpy scalar on the left numpy's own == runs first and broadcasts over anything iterable (see DESIGN 9.4)
        a, b = objs[na], objs[nb]
        case = {"a": na, "b": nb}
        ctx.ev()
        ctx.nt(("eq", na, nb))
        try:
            e, n = a == b, a != b
        except Exception as ex:
            ctx.violation("eq-raised:%s:%s" % (na.split("(")[0].split("[")[0], nb.split("(")[0].split("[")[0]), dict(case, error="%s: %s" % (type(ex).__name__, str(ex)[:150])), replay=case)
            continue
        if not isinstance(e, (bool, np.bool_)) or not isinstance(n, (bool, np.bool_)):
            ctx.violation("eq-not-bool:%s:%s" % (na.split("(")[0].split("[")[0], nb.split("(")[0].split("[")[0]), dict(case, eq=repr(e)[:80], ne=repr(n)[:80]), replay=case)
            continue
        res[(na, nb)] = bool(e)
        if bool(n) == bool(e):
            ctx.violation("ne-not-negation:%s:%s" % (na.split("(")[0].split("[")[0], nb.split("(")[0].split("[")[0]), dict(case, eq=bool(e), ne=bool(n)), replay=case)
        if na == nb and not e:
            ctx.violation("not-reflexive:%s" % na.split("(")[0].split("[")[0], dict(case), replay=case)
        if e and hashable[na] and hashable[nb]:
            if hash(a) != hash(b):
                ctx.violation("equal-but-hash-differs:%s:%s" % (na.split("(")[0].split("[")[0], nb.split("(")[0].split("[")[0]), dict(case, a_repr=repr(a)[:100], b_repr=repr(b)[:100]), replay=case)
    for (na, nb), e in res.items():
        if (nb, na) in res and res[(nb, na)] != e:
            ctx.violation("not-symmetric:%s:%s" % tuple(sorted((na.split("(")[0].split("[")[0], nb.split("(")[0].split("[")[0]))), {"a": na, "b": nb, "a==b": e, "b==a": res[(nb, na)]}, replay={"a": na, "b": nb})
    # objects built the same way must be equal (sanity of the pool: the sweep observed real equalities)
    n_true = sum(1 for (na, nb), e in res.items() if e and na != nb)
    ctx.count("equal distinct pairs observed", n_true)
    ctx.count("hashable classes", sum(hashable.values()))
    return len(res)


def run(ctx):
    from barril.basic.fraction import Fraction, FractionValue
    from barril.units import Array, FixedArray, FractionScalar, Quantity, Scalar

    probe.install()
    probe.reach([Scalar.__lt__, Scalar.__eq__, Scalar.__hash__, FractionScalar.__lt__, FixedArray.__eq__, Array.__eq__, Quantity.__eq__, Fraction.__eq__, FractionValue.__eq__])
    ctx.rule = (
        "order: every quantity type x unit pairs (quick 30 per type, thorough all incl. u=v) x values x {converted amount, +-1 ulp, x(1+-1e-9), +1} for Scalar and FractionScalar, "
        "plus equal amounts split differently between number and fraction: unconditional coherence clauses over the 8 operator results and agreement with the exact rational order "
        "beyond 16 x float error scale; different quantity types -> TypeError. equality: all ordered pairs of a ~60-object pool of all nine classes (simple, derived in both factor "
        "orders, empty, unknown, list/tuple/ndarray of equal and different lengths) and unrelated objects: never raises, bool, reflexive, symmetric, != negation, equal hashables hash equal"
    )
    ctx.assumptions = ["numpy objects are not used as the foreign operand of == (numpy's broadcasting == is not barril's)", "one-dimensional containers only"]
    r = ctx.rng("c08")
    db = table.build("posc")
    with table.pushed(db):
        aff = conv.describe(db)
        order_sweep(ctx, db, aff, r)
        different_types(ctx, db, aff, r, 60 if ctx.tier == "quick" else 600)
        if ctx.shard == 0:
            same_unit_string_different_types(ctx, db, ctx.rng("sameunit"), 60 if ctx.tier == "quick" else 2000)
        n = 0
        for rep in range(3 if ctx.tier == "quick" else 12):
            n += equality_sweep(ctx, ctx.rng("pool%d" % rep))
        ctx.notes["equality_pairs"] = {"n": n}
        if ctx.shard == 0:
            ctx.sample({"order_case": {"a": "Scalar(1.0,'m')", "b": "Scalar(nextafter(100.0),'cm')"}, "equality_pool_classes": sorted({k.split("(")[0].split("[")[0] for k in equality_pool(ctx.rng("pool0"))})})
    ctx.inconclusive_if(probe.COUNTS["Scalar.__lt__"] == 0 or probe.COUNTS["FractionScalar.__lt__"] == 0, "order operators never reached")


def replay(ctx, d):
    probe.install()
    db = table.build("posc")
    with table.pushed(db):
        if "qt" in d:
            from barril.units import Scalar

            aff = conv.describe(db)
            au, av = aff[d["u"]], aff[d["v"]]
            if "x" in d:
                A = Fr(au.off) + Fr(au.slope) * Fr(d["x"])
                B = Fr(av.off) + Fr(av.slope) * Fr(d["y"])
                order_pair(ctx, Scalar(d["x"], d["u"]), Scalar(d["y"], d["v"]), A, B, Fr(16 * conv.EPS) * (abs(A) + abs(B)), d, "Scalar")
        else:
            for rep in range(3):
                equality_sweep(ctx, ctx.rng("pool%d" % rep))
