"""C14 - the unit registry stays well formed under any registration history (DESIGN.md 4, C14).

Histories of AddUnitBase / AddUnit / AddCategory calls (bounded-exhaustive over a fixed alphabet of
concrete calls, random beyond) are executed on a fresh, empty UnitDatabase pushed as the singleton and
compared step by step with models/registry.py: accept / reject, unit order per type, and the category
fields the documented rules determine.  After every step the invariants I1-I4 are evaluated through the
public getters; a rejected call must leave the canonical snapshot identical (I5).  The shipped
databases are checked exhaustively against I1-I4.
"""
import itertools
import math

from .. import probe
from ..models import registry, snapshot
from ..workloads import table

SHARDS = {"quick": 4, "thorough": 16}
WATCHDOG_S = {"quick": 900, "thorough": 7200}
FLOORS = (5000, 300)

F100 = ("%f*100.0", "%f/100.0")
FV = ("%f/28.316846592", "%f*28.316846592")

NAN = float("nan")


def nn(x):
    """NaN compares unequal to itself: name it."""
    if isinstance(x, float) and x != x:
        return "nan"
    if isinstance(x, (list, tuple)):
        return type(x)(nn(y) for y in x)
    return x


ALPHABET = [
    ("AddUnitBase", ("length", "metres", "m"), {}),
    ("AddUnit", ("length", "centimetres", "cm") + F100, {}),
    ("AddUnitBase", ("volume", "cubic metres", "m3"), {}),
    ("AddUnit", ("volume", "thousand cubic feet", "Mcf") + FV, {}),
    ("AddUnit", ("volume", "centimetres", "cm") + F100, {}),  # symbol of another type
    ("AddUnitBase", ("length", "centimetres", "cm"), {}),  # duplicate, or a second base
    ("AddUnit", ("area", "metres", "m") + F100, {}),  # duplicate symbol for a type never used before
    ("AddUnit", ("length", "kilometres", "km", "%f/1000.0", "%f*1000.0"), {"default_category": "depth"}),
    ("AddCategory", ("length", "length"), {}),
    ("AddCategory", ("depth", "length"), {}),
    ("AddCategory", ("depth", "length"), {"override": True, "valid_units": ["cm"], "default_unit": "cm"}),
    ("AddCategory", ("depth", "volume"), {"override": True}),
    ("AddCategory", ("vol", "volume"), {"valid_units": ["1000ft3"], "default_unit": "1000ft3"}),
    ("AddCategory", ("vol", "volume"), {"valid_units": ["m3", "k(ft3)"], "override": True}),
    ("AddCategory", ("depth2",), {"from_category": "depth"}),
    ("AddCategory", ("depth2",), {"from_category": "depth", "min_value": 1.0, "override": True}),
    ("AddCategory", ("lim", "length"), {"min_value": 1.0, "max_value": 10.0}),
    ("AddCategory", ("lim", "length"), {"min_value": 10.0, "max_value": 1.0, "override": True}),
    ("AddCategory", ("lim", "length"), {"min_value": 1.0, "is_min_exclusive": True, "override": True}),
    ("AddCategory", ("lim", "length"), {"min_value": 1.0, "is_min_exclusive": True, "default_value": 2.0, "override": True, "default_unit": "cm"}),
    ("AddCategory", ("lim", "length"), {"max_value": 10.0, "default_value": 20.0, "override": True}),
    ("AddCategory", ("bad", "bogus"), {}),
    ("AddCategory", ("bad", "length"), {"valid_units": ["m", "m3"]}),
    ("AddCategory", ("bad", "length"), {"default_unit": "m3"}),
    ("AddCategory", ("bad", "length"), {"from_category": "depth"}),
    ("AddCategory", ("bad",), {}),
    ("AddCategory", ("volume", "length"), {}),  # a category named like another quantity type
    ("AddCategory", ("length", "volume"), {"override": True}),
    ("AddCategory", ("lim2",), {"from_category": "lim", "valid_units": ["cm"]}),
    ("AddCategory", ("lim", "length"), {"min_value": 0.0, "max_value": -5.0, "override": True}),  # inverted limits, one of them zero
    # a default that is not a number is inside no limit: legal only while the category has none
    ("AddCategory", ("lim2", "length"), {"default_value": NAN, "override": True}),
    ("AddCategory", ("lim3",), {"from_category": "lim2", "min_value": 0.0}),
    # a default a rounding error beyond an inclusive limit is beyond the limit
    ("AddCategory", ("lim4", "length"), {"max_value": 0.3, "default_value": 0.1 + 0.2}),
    ("AddCategory", ("lim4", "length"), {"min_value": 1.0, "default_value": 0.9999999999999999, "override": True}),
    # a quantity type whose name is the empty string is a quantity type (nothing forbids the name): its units are taken
    ("AddUnitBase", ("", "nameless base", "q0"), {}),
    ("AddUnit", ("length", "the nameless type's symbol again", "q0") + F100, {}),
    # questions asked before / between the registrations (refused or answered - they must leave nothing behind that a later
    # registration does not supersede)
    ("Probe", ("depth", "cm"), {}),
    ("Probe", ("lim", "m"), {}),
    # a symbol that happens to be a legacy spelling of another symbol is a legal symbol: the unit registered under it is
    # a unit of its own, with its own factors, whether or not the current spelling ('Mcf') is registered too
    ("AddUnit", ("volume", "thousand cubic feet (old symbol)", "1000ft3", "%f*28.0", "%f/28.0"), {}),
]


_BY = []


def bystander():
    """another database alive in the process, in which the names of the histories mean other things"""
    from barril.units import UnitDatabase

    if not _BY:
        d = UnitDatabase()
        d.AddUnitBase("time", "second", "s")
        for sym in ("m", "cm", "km", "ft", "m3"):
            d.AddUnit("time", "a time here", sym, "%f/7.0", "%f*7.0")
        d.AddUnitBase("length", "a length here", "min")
        for c, q in (("length", "time"), ("depth", "time"), ("time", "length"), ("vol", "length"), ("volume", "time"), ("lim", "time"), ("x", "length")):
            d.AddCategory(c, q)
        _BY.append(d)
    return _BY[0]


def ask_the_bystander(db):
    """every (category, unit) question the invariants are about to ask this database is asked of the bystander first: what
    one database answered is nothing another may answer with"""
    by = bystander()
    try:
        pairs = [(c, u) for c in db.IterCategories() for u in list(db.unit_to_unit_info)[:12]]
    except Exception:
        return
    with table.pushed(by):
        for c, u in pairs:
            try:
                by.CheckCategoryUnit(c, u)
            except Exception:
                pass


def probe_questions(db, category, unit):
    """what a program may ask before (or after) the names it asks about are registered; every answer or refusal is fine,
    none may leave anything behind"""
    from collections import OrderedDict

    from barril.units import ObtainQuantity, Scalar

    for fn in (
        lambda: db.CheckCategoryUnit(category, unit), lambda: ObtainQuantity(OrderedDict([(category, [unit, 2])])), lambda: Scalar(1.0, unit, category), lambda: db.GetDefaultCategory(unit),
        lambda: Scalar(1.0, unit), lambda: db.GetValidUnits(category), lambda: db.GetInfo(category, unit), lambda: db.GetQuantityType(unit), lambda: ObtainQuantity(unit), lambda: db.GetDefaultUnit(category),
        # "everything there is": the overloads without a quantity type, asked twice (what they hand out is the caller's)
        lambda: db.GetUnits(), lambda: db.GetInfos(), lambda: db.GetUnits().append("not a unit"), lambda: db.GetInfos().clear(), lambda: db.GetQuantityTypes().append("not a type"), lambda: db.GetUnits(),
    ):  # fmt: skip
        try:
            fn()
        except Exception:
            pass


class Symbol(str):
    """a unit symbol as an application may hold it: an instance of a subclass of str (an element of a numpy string array is one too)"""


def strict(call):
    """the call as barril gets it: 'AddUnit:symbol as a str subclass' / ':symbol as numpy.str_' hand the symbol over as such an object"""
    name, args, kw = call
    if ":" in name:
        import numpy as np

        wrap = np.str_ if "numpy" in name else Symbol
        name = name.split(":")[0]
        args = tuple(args[:2]) + (wrap(args[2]),) + tuple(args[3:])
    return name, args, kw


def plain(call):
    return (call[0].split(":")[0], call[1], call[2])


def run_call(db, call):
    name, args, kw = strict(call)
    if name == "Probe":
        probe_questions(db, *args)
        return "accept", None
    kw = {k: (list(v) if isinstance(v, list) else v) for k, v in kw.items()}
    try:
        getattr(db, name)(*args, **kw)
        return "accept", None
    except Exception as e:
        return "reject", e


def limits_ok(v, mn, mx, me, xe):
    if mn is not None and not (v > mn if me else v >= mn):
        return False
    if mx is not None and not (v < mx if xe else v <= mx):
        return False
    return True


def invariants(db, bases=None, shipped=False):
    """-> (list of (key, detail), notes) evaluated through the public getters."""
    from barril.units import Scalar

    probs, notes = [], {"types_without_base": 0, "units": 0, "categories": 0, "scalars_built": 0}
    seen = {}
    qts = list(db.GetQuantityTypes())
    for qt in qts:
        try:
            units = list(db.GetUnits(qt))
            infos = list(db.GetInfos(qt))
        except Exception as e:
            probs.append(("I1:GetUnits-raised", {"qt": qt, "error": repr(e)[:160]}))
            continue
        if not units:
            probs.append(("I2:quantity-type-without-units", {"qt": qt}))
            continue
        if [i.unit for i in infos] != units:
            probs.append(("I1:GetInfos-and-GetUnits-disagree", {"qt": qt}))
        for u in units:
            notes["units"] += 1
            if u in seen:
                probs.append(("I1:unit-in-two-quantity-types", {"unit": u, "types": [seen[u], qt]}))
            seen[u] = qt
            if db.GetQuantityType(u) != qt:
                probs.append(("I1:GetQuantityType-disagrees", {"unit": u, "listed_under": qt, "GetQuantityType": db.GetQuantityType(u)}))
        if len(set(units)) != len(units):
            probs.append(("I1:unit-listed-twice", {"qt": qt, "units": units[:8]}))
        try:
            b = db.GetBaseUnit(qt)
        except Exception as e:
            probs.append(("I2:GetBaseUnit-raised", {"qt": qt, "error": repr(e)[:160]}))
            continue
        has_base = shipped or (bases is not None and bases.get(qt))
        if b != units[0]:
            probs.append(("I2:GetBaseUnit-is-not-the-first-listed-unit", {"qt": qt, "base": b, "first": units[0]}))
        if has_base:
            if bases is not None and not shipped and b not in bases[qt]:
                probs.append(("I2:first-listed-unit-was-not-registered-as-a-base", {"qt": qt, "first": b, "bases": sorted(bases[qt])}))
            i0 = infos[0]
            for x in (0.0, 1.0, -3.5, 1e6, 273.15):
                try:
                    if i0.tobase(x) != x or i0.frombase(x) != x or db.Convert(qt, b, b, x) != x:
                        probs.append(("I2:base-unit-not-identity", {"qt": qt, "base": b, "x": x, "tobase": repr(i0.tobase(x)), "frombase": repr(i0.frombase(x))}))
                        break
                except Exception as e:
                    probs.append(("I2:base-conversion-raised", {"qt": qt, "base": b, "error": repr(e)[:160]}))
                    break
        else:
            notes["types_without_base"] += 1
    if set(seen) != set(db.unit_to_unit_info):
        probs.append(("I1:unit-map-and-type-lists-disagree", {"only_in_map": sorted(set(db.unit_to_unit_info) - set(seen))[:5], "only_in_lists": sorted(set(seen) - set(db.unit_to_unit_info))[:5]}))
    # which categories exist per quantity type (no object is built here)
    cats_of = {}
    for c in list(db.IterCategories()):
        try:
            cats_of.setdefault(db.GetCategoryQuantityType(c), []).append(c)
        except Exception:
            pass
    # the unit alone first (before anything names the category explicitly in this evaluation: an explicit request
    # refreshes the category-less cache entry and would hide a stale one)
    for u, qt in seen.items():
        # the unit alone, where the database names a usable default category for it
        try:
            dc = db.GetDefaultCategory(u)
        except Exception as e:
            probs.append(("I4:GetDefaultCategory-raised:%s" % type(e).__name__, {"unit": u, "error": str(e)[:160]}))
            continue
        # (a unit registered without a default category of its own - None, or a blank one - is used through the category named after
        # its quantity type, when there is one)
        try:
            blank = not db.unit_to_unit_info[u].default_category
        except Exception:
            blank = False
        if blank and qt in cats_of.get(qt, ()) and not (dc is not None and dc in cats_of.get(qt, ())):
            dc = qt
        if dc is not None and dc in cats_of.get(qt, ()):
            try:
                s = Scalar(1.0, u)
                notes["scalars_built"] += 1
                if s.GetCategory() != dc or s.GetUnit() != u:
                    probs.append(("I4:Scalar(x,unit)-wrong-category", {"unit": u, "scalar": repr(s), "default_category": dc}))
                else:
                    # the value built from the unit alone is governed by the category as registered *now*
                    ci, seen_ci = db.GetCategoryInfo(dc), s.GetQuantity().GetCategoryInfo()
                    a = (ci.quantity_type, ci.default_unit, ci.default_value, ci.min_value, ci.max_value, ci.is_min_exclusive, ci.is_max_exclusive)
                    b = (seen_ci.quantity_type, seen_ci.default_unit, seen_ci.default_value, seen_ci.min_value, seen_ci.max_value, seen_ci.is_min_exclusive, seen_ci.is_max_exclusive)
                    if nn(a) != nn(b):
                        probs.append(("I4:Scalar(x,unit)-governed-by-another-definition-of-its-category", {"unit": u, "category": dc, "registered": list(a), "seen_by_the_scalar": list(b)}))
            except Exception as e:
                probs.append(("I4:Scalar(x,unit)-raised:%s" % type(e).__name__, {"unit": u, "default_category": dc, "error": str(e)[:160]}))
        elif shipped:
            probs.append(("I4:shipped-unit-without-usable-default-category", {"unit": u, "qt": qt, "default_category": dc}))
    cats_by_type = {}
    for c in list(db.IterCategories()):
        notes["categories"] += 1
        try:
            ci = db.GetCategoryInfo(c)
            qt = db.GetCategoryQuantityType(c)
        except Exception as e:
            probs.append(("I3:category-lookup-raised", {"category": c, "error": repr(e)[:160]}))
            continue
        if qt not in qts:
            probs.append(("I3:category-of-a-missing-quantity-type", {"category": c, "qt": qt}))
            continue
        cats_by_type.setdefault(qt, []).append(c)
        us = set(db.GetUnits(qt))
        try:
            du, dv = db.GetDefaultUnit(c), db.GetDefaultValue(c)
        except Exception as e:
            probs.append(("I3:default-getter-raised", {"category": c, "error": repr(e)[:160]}))
            continue
        if du not in us:
            probs.append(("I3:default-unit-not-a-unit-of-the-type", {"category": c, "default_unit": du, "qt": qt}))
        try:
            vu = list(db.GetValidUnits(c))
            bad = [u for u in vu if u not in us]
            if bad:
                probs.append(("I3:valid-unit-not-a-unit-of-the-type", {"category": c, "qt": qt, "foreign": bad[:5]}))
        except RecursionError as e:
            probs.append(("I3:GetValidUnits-raised:RecursionError", {"category": c, "qt": qt}))
        except Exception as e:
            probs.append(("I3:GetValidUnits-raised:%s" % type(e).__name__, {"category": c, "qt": qt, "error": str(e)[:120]}))
        if not limits_ok(dv, ci.min_value, ci.max_value, ci.is_min_exclusive, ci.is_max_exclusive):
            probs.append(("I3:default-value-outside-limits", {"category": c, "default_value": dv, "min": ci.min_value, "max": ci.max_value}))
        if du in us:
            try:
                s = Scalar(c)
                notes["scalars_built"] += 1
                if not s.IsValid() or s.GetUnit() != du or s.GetCategory() != c or s.GetQuantityType() != qt:
                    probs.append(("I4:default-Scalar-of-category-wrong", {"category": c, "scalar": repr(s), "valid": s.IsValid(), "default_unit": du}))
            except Exception as e:
                probs.append(("I4:Scalar(category)-raised:%s" % type(e).__name__, {"category": c, "error": str(e)[:160]}))
    # every registered unit builds a Scalar under every category of its type, and a valid one where the limits allow
    for u, qt in seen.items():
        for c in cats_by_type.get(qt, ()):
            try:
                ci = db.GetCategoryInfo(c)
                # the default amount re-expressed in u (through the unit infos: Convert() by *name* would
                # resolve a category that happens to be named like another quantity type)
                iu = db.unit_to_unit_info
                x = iu[u].frombase(iu[ci.default_unit].tobase(ci.default_value)) if ci.default_unit in seen and seen[ci.default_unit] == qt else 1.0
                s = Scalar(c, x, u)
                notes["scalars_built"] += 1
                sci = s.GetQuantity().GetCategoryInfo()
                if s.GetUnit() != u or s.GetCategory() != c:
                    probs.append(("I4:Scalar(category,x,unit)-wrong", {"category": c, "unit": u, "scalar": repr(s)}))
                elif (sci.quantity_type, sci.default_unit, sci.min_value, sci.max_value) != (ci.quantity_type, ci.default_unit, ci.min_value, ci.max_value):
                    probs.append(("I4:Scalar(category,x,unit)-governed-by-another-definition-of-its-category", {"category": c, "unit": u}))
                elif ci.min_value is None and ci.max_value is None and not s.IsValid():
                    probs.append(("I4:Scalar-without-limits-invalid", {"category": c, "unit": u}))
                else:
                    # ... and it is *that* unit: a value given in it converts with the functions the unit was registered with
                    for w, qw in seen.items():
                        if qw == qt:
                            own = iu[w].frombase(iu[u].tobase(2.0))
                            got = s.CreateCopy(2.0).GetValue(w)
                            if not abs(got - own) <= 1e-12 * max(abs(own), 1e-300):
                                probs.append(("I4:registered-unit-converts-with-other-factors-than-its-own", {"category": c, "unit": u, "to": w, "got": got, "by_its_own_functions": own}))
                                break
            except Exception as e:
                probs.append(("I4:Scalar(category,x,unit)-raised:%s" % type(e).__name__, {"category": c, "unit": u, "error": str(e)[:160]}))
    return probs, notes


def compare_with_model(db, m):
    """differences between what the registry reports and what the model predicts."""
    out = []
    v = m.view()
    got_types = {qt: list(db.GetUnits(qt)) for qt in db.GetQuantityTypes()}
    # a type the model never created must not exist; order of units per type as predicted
    if got_types != v["types"]:
        out.append(("model:types-or-unit-order-differ", {"registry": got_types, "model": v["types"]}))
    got_c = list(db.IterCategories())
    if got_c != list(v["categories"]):
        out.append(("model:category-set-differs", {"registry": got_c, "model": list(v["categories"])}))
        return out
    for c, (qt, du, dv, valid, mn, mx, me, xe) in v["categories"].items():
        ci = db.GetCategoryInfo(c)
        got = (db.GetCategoryQuantityType(c), db.GetDefaultUnit(c), db.GetDefaultValue(c), None if ci.valid_units is None else list(ci.valid_units), ci.min_value, ci.max_value, bool(ci.is_min_exclusive), bool(ci.is_max_exclusive))
        if nn(got) != nn((qt, du, dv, valid, mn, mx, me, xe)):
            out.append(("model:category-fields-differ", {"category": c, "registry": list(got), "model": [qt, du, dv, valid, mn, mx, me, xe]}))
        if valid is not None:
            try:
                if list(db.GetValidUnits(c)) != valid:
                    out.append(("model:GetValidUnits-differs-from-the-registered-list", {"category": c, "registry": list(db.GetValidUnits(c)), "model": valid}))
            except Exception:
                pass  # reported by the invariants
    return out


class Runner:
    def __init__(self, ctx):
        self.ctx = ctx
        self.checked_prefixes = set()

    def history(self, calls, ids=None, check_all=True):
        """Executes the history on a fresh database; checks every step (or only steps whose prefix was
        not checked before, for the exhaustive enumeration)."""
        from barril.units import UnitDatabase

        ctx = self.ctx
        db = UnitDatabase()
        m = registry.Model()
        with table.pushed(db):
            for i, call in enumerate(calls):
                prefix = tuple(ids[: i + 1]) if ids is not None else None
                need = check_all or prefix not in self.checked_prefixes
                before = (snapshot.registry(db), snapshot.registry_getters_safe(db)) if need else None
                if ":" in call[0]:
                    # a symbol that is an instance of a str subclass: the library may refuse it (then nothing changes) or take it for
                    # the str it is (then the model registers the plain symbol) - either way everything registered must be usable
                    got, err = run_call(db, call)
                    exp = m.apply(plain(call)) if got == "accept" else "reject"
                    ctx.count("str-subclass symbols %sed" % got)
                else:
                    exp = m.apply(call)
                    got, err = run_call(db, call)
                if not need:
                    continue
                if prefix is not None:
                    self.checked_prefixes.add(prefix)
                case = {"history": [[c[0], list(c[1]), c[2]] for c in calls[: i + 1]]}
                ctx.ev()
                ctx.count("calls %sed" % got)
                ctx.nt(("step", call[0], tuple(sorted(call[2])), got, len(m.cats), len(m.unit_type)))
                if got != exp:
                    ctx.violation("model:%s-but-model-says-%s:%s" % (got, exp, call[0]), dict(case, error=repr(err)[:200]), replay=case)
                    return
                if got == "reject":
                    after = (snapshot.registry(db), snapshot.registry_getters_safe(db))
                    if after != before:
                        ctx.violation("I5:rejected-call-changed-the-registry:%s:%s" % (call[0], type(err).__name__), dict(case, error=str(err)[:160], diff=snapshot.diff(before, after)), replay=case)
                        return
                for key, detail in compare_with_model(db, m):
                    ctx.violation(key, dict(case, **detail), replay=case)
                ask_the_bystander(db)
                probs, notes = invariants(db, m.bases)
                ctx.count("invariant evaluations: scalars built", notes["scalars_built"])
                ctx.count("quantity types seen without a registered base (legal, not alarmed)", notes["types_without_base"])
                for key, detail in probs[:4]:
                    ctx.violation(key, dict(case, **detail), replay=case)
                if probs:
                    return


def random_call(r, m):
    qts = ["length", "volume", "time"] + ([""] if r.random() < 0.08 else [])
    units = {"length": ["m", "cm", "km", "ft"], "volume": ["m3", "Mcf", "MMm3", "L", "1000ft3"], "time": ["s", "min"], "": ["q0", "m"]}
    legacy = {"Mcf": ["1000ft3", "k(ft3)"], "MMm3": ["M(m3)"]}
    cats = ["length", "depth", "vol", "time", "x", "y", "volume"]
    k = r.random()
    if r.random() < 0.12:
        return ("Probe", (r.choice(cats), r.choice(units[r.choice(qts)])), {})
    if k < 0.18:
        qt = r.choice(qts)
        return ("AddUnitBase", (qt, "n", r.choice(units[qt] + ["m"])), {})
    if k < 0.42:
        qt = r.choice(qts + ["area"])
        u = r.choice(units.get(qt, ["m2", "m"]) + ["cm"])
        kw = {"default_category": r.choice(cats)} if r.random() < 0.25 else {}
        f = r.choice([2.0, 100.0, 0.001, 60.0])
        return ("AddUnit", (qt, "n", u, "%%f*%r" % f, "%%f/%r" % f), kw)
    kw = {}
    args = (r.choice(cats),)
    if r.random() < 0.25:
        kw["from_category"] = r.choice(cats)
        if r.random() < 0.1:
            args += (r.choice(qts),)
    elif r.random() < 0.93:
        args += (r.choice(qts + ["bogus"]),)
    qt = args[1] if len(args) > 1 and args[1] in units else (m.cats[kw["from_category"]].qt if kw.get("from_category") in m.cats else r.choice(qts))
    pool = list(units.get(qt, ["m"]))
    for u in list(pool):
        pool += legacy.get(u, [])
    if r.random() < 0.1:
        pool.append(r.choice(["s", "m", "m3"]))
    if r.random() < 0.4:
        kw["valid_units"] = r.sample(pool, r.randint(0, min(3, len(pool))))
    if r.random() < 0.4:
        kw["default_unit"] = r.choice(pool)
    if r.random() < 0.35:
        kw["override"] = True
    lim = [0.0, 1.0, 5.0, -2.0]
    if r.random() < 0.3:
        kw["min_value"] = r.choice(lim)
    if r.random() < 0.3:
        kw["max_value"] = r.choice(lim)
    if r.random() < 0.3:
        kw["default_value"] = r.choice(lim + [7.0, NAN, float("inf")])
    if r.random() < 0.15:
        kw["is_min_exclusive"] = True
    if r.random() < 0.15:
        kw["is_max_exclusive"] = True
    return ("AddCategory", args, kw)


def clash_histories():
    """Histories longer than the exhaustive depth, written around one theme the short ones cannot reach: a *category*
    that is named like a quantity type (of another type), and then registrations that name that quantity type - every
    lookup that resolves a name "category first" answers for the wrong type there. The model says what must happen."""
    units = {"length": ["m", "cm"], "volume": ["m3", "L"], "time": ["s", "min"]}
    out = []
    for a, b in (("length", "volume"), ("volume", "length"), ("length", "time"), ("time", "volume")):
        setup = [
            ("AddUnitBase", (a, a + " base", units[a][0]), {}), ("AddUnit", (a, "n", units[a][1], "%f*100.0", "%f/100.0"), {}),
            ("AddUnitBase", (b, b + " base", units[b][0]), {}), ("AddUnit", (b, "n", units[b][1], "%f*1000.0", "%f/1000.0"), {}),
        ]  # fmt: skip
        for clash in (("AddCategory", (b, a), {}), ("AddCategory", (b, a), {"valid_units": [units[a][1]]}), ("AddCategory", (b, a), {"override": True, "default_unit": units[a][1]})):
            for probe_kw in (
                {"valid_units": [units[a][0]]}, {"valid_units": [units[b][1], units[a][1]]}, {"default_unit": units[a][1]}, {"valid_units": [units[b][0]]}, {"default_unit": units[b][1]},
                {"valid_units": [units[b][1]], "default_unit": units[b][1], "min_value": 0.0}, {},
            ):  # fmt: skip
                h = list(setup) + [clash, ("AddCategory", ("probe", b), dict(probe_kw)), ("AddCategory", ("probe2",), {"from_category": "probe"}), ("AddCategory", ("probe3",), {"from_category": b}),
                                   ("AddUnit", (b, "late", "zz", "%f*2.0", "%f/2.0"), {"default_category": b}), ("AddCategory", ("probe4", b), {"valid_units": ["zz"]}), ("AddCategory", (a, b), {"override": True}),
                                   ("AddCategory", ("probe5", a), dict(probe_kw))]  # fmt: skip
                out.append(h)
    # a category copied from another one (from_category) with units of its own given on top: they are drawn from the copied
    # category's quantity type like any other category's - a unit of another type is refused, whatever else is registered
    two = [("AddUnitBase", ("length", "metres", "m"), {}), ("AddUnit", ("length", "n", "cm", "%f*100.0", "%f/100.0"), {}), ("AddUnit", ("length", "k", "km", "%f/1000.0", "%f*1000.0"), {}), ("AddUnitBase", ("volume", "cubic metres", "m3"), {}),
           ("AddUnit", ("volume", "n", "L", "%f*1000.0", "%f/1000.0"), {}), ("AddCategory", ("length", "length"), {}), ("AddCategory", ("depth", "length"), {"valid_units": ["m", "cm"], "default_unit": "cm"}),
           ("AddCategory", ("volume", "volume"), {})]  # fmt: skip
    for kw in ({"default_unit": "m3"}, {"valid_units": ["m3"]}, {"valid_units": ["m", "L"]}, {"valid_units": ["L"], "default_unit": "L"}, {"default_unit": "m"}, {"valid_units": ["cm"]}, {"valid_units": ["cm"], "default_unit": "m"},
               {"default_unit": "nounit"}, {"valid_units": []}, {"min_value": 0.0, "default_unit": "L"},
               # a unit of the right type that the copied category does not list - alone, and together with a default outside the limits
               {"default_unit": "km"}, {"default_unit": "km", "min_value": 5.0, "default_value": 1.0}, {"default_unit": "km", "max_value": 1.0, "min_value": 2.0}):  # fmt: skip
        for src in ("depth", "length"):
            out.append(list(two) + [("AddCategory", ("copy",), dict(kw, from_category=src)), ("Probe", ("copy", "m3"), {}), ("Probe", ("copy", "cm"), {}), ("AddCategory", ("copy2",), {"from_category": "copy"})])
    # a spelling that is first *used* as the legacy alias of a registered unit and only then registered as a unit of its own
    FVx = ("%f/28.316846592", "%f*28.316846592")
    for probe_first in (True, False):
        for as_base in (False, True):
            h = [("AddUnitBase", ("volume", "cubic metres", "m3"), {}), ("AddUnit", ("volume", "thousand cubic feet", "Mcf") + FVx, {}), ("AddCategory", ("vol", "volume"), {}), ("AddCategory", ("volume", "volume"), {})]
            if probe_first:
                h += [("Probe", ("vol", "1000ft3"), {}), ("Probe", ("volume", "1000ft3"), {})]
            h += [("AddUnitBase", ("volume", "old symbol as a base", "1000ft3"), {}) if as_base else ("AddUnit", ("volume", "old symbol", "1000ft3", "%f*28.0", "%f/28.0"), {}), ("Probe", ("vol", "1000ft3"), {}),
                  ("AddCategory", ("vol2", "volume"), {"valid_units": ["m3", "1000ft3"]})]
            out.append(h)
    # a unit symbol handed over as an instance of a str subclass (numpy.str_, an application's own class): refused, or taken for the
    # str it is - a registered unit and the categories whose default unit it becomes build Scalars like any other
    for how in ("symbol as a str subclass", "symbol as numpy.str_"):
        for base_first in (True, False):
            h = [("AddUnitBase:" + how, ("length", "metres", "m"), {})] if base_first else [("AddUnitBase", ("length", "metres", "m"), {})]
            h += [("AddUnit:" + how, ("length", "centimetres", "cm", "%f*100.0", "%f/100.0"), {}), ("AddCategory", ("length", "length"), {}), ("AddCategory", ("depth", "length"), {"valid_units": ["cm"], "default_unit": "cm"}),
                  ("AddCategory", ("depth2",), {"from_category": "depth"}), ("Probe", ("depth", "cm"), {}), ("AddUnit:" + how, ("length", "centimetres again", "cm", "%f*100.0", "%f/100.0"), {}),
                  ("AddUnit", ("length", "kilometres", "km", "%f/1000.0", "%f*1000.0"), {"default_category": "depth"})]  # fmt: skip
            out.append(h)
    # a unit registered with an *empty* default category (a form field left blank) has no default category of its own: it is
    # used through the category named after its type like any other unit
    for dc in ("", None):
        out.append([("AddUnitBase", ("length", "metres", "m"), {}), ("AddCategory", ("length", "length"), {}), ("AddUnit", ("length", "feet", "ft", "%f/0.3048", "%f*0.3048"), {"default_category": dc}), ("Probe", ("length", "ft"), {}),
                    ("AddCategory", ("depth", "length"), {"default_unit": "ft"}), ("AddUnit", ("length", "centimetres", "cm", "%f*100.0", "%f/100.0"), {"default_category": dc})])
        out.append([("AddUnitBase", ("length", "metres", "m"), {}), ("AddUnit", ("length", "feet", "ft", "%f/0.3048", "%f*0.3048"), {"default_category": dc}), ("AddCategory", ("length", "length"), {}), ("Probe", ("length", "ft"), {})])
    return out


def random_history(r, n):
    m = registry.Model()
    calls = []
    for _ in range(n):
        c = random_call(r, m)
        calls.append(c)
        m.apply(c)
    return calls


def shipped(ctx):
    for kind in table.KINDS:
        db = table.build(kind)
        with table.pushed(db):
            probs, notes = invariants(db, shipped=True)
            ctx.ev(notes["units"] + notes["categories"] + notes["scalars_built"])
            ctx.count("shipped %s: units" % kind, notes["units"])
            ctx.count("shipped %s: categories" % kind, notes["categories"])
            ctx.count("shipped %s: scalars built" % kind, notes["scalars_built"])
            for u in list(db.unit_to_unit_info)[:: max(1, len(db.unit_to_unit_info) // 300)]:
                ctx.nt(("shipped", kind, u))
            for key, detail in probs[:30]:
                if kind != "posc" and key.startswith("I4:shipped-unit-without-usable-default-category"):
                    continue  # databases filled without categories cannot have one
                ctx.violation("shipped-%s:%s" % (kind, key), detail)


def run(ctx):
    from barril.units import UnitDatabase

    if not hasattr(snapshot, "registry_getters_safe"):
        raise RuntimeError("snapshot.registry_getters_safe missing")
    probe.install()
    probe.reach([UnitDatabase.AddUnit, UnitDatabase.AddUnitBase, UnitDatabase.AddCategory, UnitDatabase.GetValidUnits, UnitDatabase.GetDefaultCategory, UnitDatabase.GetBaseUnit])
    depth = 3 if ctx.tier == "quick" else 4
    ctx.rule = (
        "bounded-exhaustive: every sequence of length <= %d over an alphabet of %d concrete calls (2-3 quantity types, 5 unit symbols incl. duplicates, 9 category names, overrides, from_category, legacy spellings, "
        "limits, invalid arguments), each distinct prefix checked once; + random histories of 5-25 calls from a keyword generator; + the three shipped databases exhaustively. "
        "distinct = (call kind, keywords, outcome, registry size)" % (depth, len(ALPHABET))
    )
    ctx.assumptions = [
        "conversion formulas are well-formed (a symbol that is a legacy spelling of another symbol is a legal symbol and is registered in the histories), and default_category of a unit is only required to work when it names a category of the unit's type",
        "a quantity type that never got a base unit is legal (counted, not alarmed); the shipped databases must have one everywhere",
        "the model fixes accept/reject, unit order, default unit/value, limits and explicitly given valid units - not captions, exception classes or the valid-unit fallback",
    ]
    R = Runner(ctx)
    n = len(ALPHABET)
    total = 0
    for L in range(1, depth + 1):
        for ids in itertools.product(range(n), repeat=L):
            total += 1
            if (ids[0] * n + (ids[1] if L > 1 else 0)) % ctx.nshards != ctx.shard:
                continue
            R.history([ALPHABET[i] for i in ids], ids, check_all=False)
            if len(ctx.violations) >= 30:
                break
    ctx.exhaustive = True
    ctx.notes["bounded_exhaustive"] = {"alphabet": n, "depth": depth, "sequences_total": total}
    for k, h in enumerate(clash_histories()):
        if k % ctx.nshards == ctx.shard:
            R.history(h)
            ctx.count("name-clash histories")
    r = ctx.rng("random")
    for _ in range(600 if ctx.tier == "quick" else 6000):
        R.history(random_history(r, r.randint(5, 25)))
    if ctx.shard == 0:
        shipped(ctx)
        ctx.sample({"history": [[c[0], list(c[1]), c[2]] for c in (ALPHABET[0], ALPHABET[9], ALPHABET[14])], "checked": "model accept/reject + fields, I1-I5 after every step"})
        ctx.sample({"random history": [[c[0], list(c[1]), c[2]] for c in random_history(ctx.rng("sample"), 6)]})
    ctx.inconclusive_if(ctx.counters.get("calls accepted", 0) == 0 or ctx.counters.get("calls rejected", 0) == 0, "no accepted or no rejected registration observed")


def replay(ctx, d):
    probe.install()
    R = Runner(ctx)
    if d and "history" in d:
        calls = [(c[0], tuple(c[1]), dict(c[2])) for c in d["history"]]
        R.history(calls)
    else:
        shipped(ctx)
