"""C17 - the unit-system manager is a registry with exactly one current system (DESIGN.md 4, C17).

Histories of manager / unit-system calls (bounded-exhaustive over a fixed alphabet of concrete actions,
random beyond) are executed on a fresh UnitSystemManager and compared after every step with
models/usm.py: accept / reject, ids and their order, current id (or null), template, every system's
mapping, the callback log (on_current / on_unit_changed listeners registered by the harness),
GetCategoryDefaultUnit / GetQuantityDefaultUnit / GetUnitSystemById / GetNewId, and ConvertToCurrent /
ConvertScalarToCurrent against the database's own float conversion.  A rejected call must leave all of
that - including the log - unchanged.
"""
import itertools

from .. import probe
from ..models import usm
from ..workloads import table

SHARDS = {"quick": 4, "thorough": 16}
WATCHDOG_S = {"quick": 900, "thorough": 7200}
FLOORS = (5000, 500)

M1 = {"length": "m", "time": "s"}
M2 = {"length": "cm"}
M3 = {"length": "km", "time": "min", "mass": "kg"}
M4 = {"temperature": "K", "length": "m"}
M5 = {"length": "m", "time": ""}  # a category named with no unit yet (an empty string) is still a category the system covers
ALPHABET = (
    [("add", i, mp) for i in ("a", "b") for mp in ("none", "m1", "m2", "shared", "m3")]
    # a system flagged read-only is a registered system like any other (the flag is advisory: nothing enforces it)
    + [("add", "a", "m4", "readonly"), ("add", "b", "m1", "readonly"), ("readonly", "a", True), ("readonly", "a", False)]
    + [("setdefault", "a", "temperature", "degF")]
    # a handle the client kept to a system that is no longer registered: whatever is done to it is no business of the manager
    + [("ghost-setdefault", "a", "length", "km"), ("ghost-removecat", "a", "length")]
    # the unit database the conversions use is the singleton of the moment
    + [("pushdb",), ("popdb",)]
    # amounts that are exactly zero (an affine unit makes zero an amount like any other), and a unit of another type
    + [("convert", "temperature", "degC", 0.0), ("convert", "length", "m", 0.0), ("convert", "length", "kg", 0.0), ("convert", "length", "kg", 2.0)]
    # an id is any string - the empty one too (a system the user has not named yet)
    + [("add", "", "m2"), ("remove", ""), ("setcur", "")]
    # two symbols that differ in nothing but the case of a letter are two units (millimetre, megametre)
    + [("setdefault", "a", "length", "Mm"), ("convert", "length", "mm", 5.0)]
    # an amount typed as an int is re-expressed like its float twin (150 cm are 1.5 m); systems registered under ids the manager
    # proposes itself (GetNewId), and removed again out of order
    + [("convert", "length", "cm", 150), ("add-generated", "m1"), ("remove-generated", 0)]
    # a category the unit database has never heard of is a category of the unit system all the same; a mapping that names a
    # category without a unit
    + [("setdefault", "a", "pipe roughness", "mm"), ("removecat", "a", "pipe roughness"), ("add", "b", "m5")]
    + [("remove", i) for i in ("a", "b", "z")]
    + [("setcur", i) for i in ("a", "b", None)]
    + [("template", t) for t in ("t1", "t2", "t3")]
    + [("setdefault", "a", "length", "cm"), ("setdefault", "a", "time", "min"), ("setdefault", "b", "length", "km"), ("setdefault", "b", "mass", "g")]
    + [("removecat", "a", "length"), ("removecat", "b", "time")]
    + [("convert", "length", "m", 5.0), ("convert", "time", "min", 3.0), ("convert", "mass", "kg", 2.0)]
)
TEMPLATES = {"t1": {"length": "m"}, "t2": {"length": "m", "time": "s"}, "t3": {"mass": "kg"}}
CATS = ("length", "time", "mass", "depth", "temperature", "pipe roughness")


_ALT = []


def alt_database():
    """another table for the same symbols (other factors, another zero for degC)"""
    from barril.units import UnitDatabase

    if not _ALT:
        d = UnitDatabase()
        d.AddUnitBase("length", "metre", "m")
        d.AddUnit("length", "alt centimetre", "cm", "%f*50.0", "%f/50.0")
        d.AddUnit("length", "alt kilometre", "km", "%f/999.0", "%f*999.0")
        d.AddUnitBase("time", "second", "s")
        d.AddUnit("time", "alt minute", "min", "%f/30.0", "%f*30.0")
        d.AddUnitBase("mass", "kilogram", "kg")
        d.AddUnit("mass", "alt gram", "g", "%f*900.0", "%f/900.0")
        d.AddUnitBase("temperature", "kelvin", "K")
        d.AddUnit("temperature", "alt celsius", "degC", "%f-100.0", "%f+100.0")
        d.AddUnit("temperature", "alt fahrenheit", "degF", "%f*2.0-50.0", "(%f+50.0)/2.0")
        for c, q in (("length", "length"), ("depth", "length"), ("time", "time"), ("mass", "mass"), ("temperature", "temperature")):
            d.AddCategory(c, q)
        _ALT.append(d)
    return _ALT[0]


class Run:
    """One manager + model + callback log."""

    def __init__(self):
        from barril.units.unit_system_manager import UnitSystemManager

        self.m = UnitSystemManager()
        self.M = usm.Model()
        self.log = []
        self.m.on_current.Register(self._on_current)
        self.m.on_unit_changed.Register(self._on_unit)
        self.shared = {"length": "m", "time": "s"}  # one dict handed to several AddUnitSystem calls
        self.objects = {}  # id -> unit system object as returned by AddUnitSystem (kept like a client would)
        self.generated = []  # ids that GetNewId proposed and that were used
        self.ghosts = {}  # id -> the object that was registered under that id and has been removed (a new one may bear the id now)
        self.pushed = 0

    def close(self):
        from barril.units import UnitDatabase

        while self.pushed:
            UnitDatabase.PopSingleton()
            self.pushed -= 1

    def _on_current(self, s):
        self.log.append(("cur", s.GetId()))

    def _on_unit(self, c, u):
        self.log.append(("unit", c, u))

    def mapping(self, kind):
        return {"none": None, "m1": dict(M1), "m2": dict(M2), "m3": dict(M3), "m4": dict(M4), "m5": dict(M5), "shared": self.shared}[kind]

    def observed(self):
        m = self.m
        systems = m.GetUnitSystems()
        tpl = m.GetUnitSystemTemplate()
        return (list(systems), m.GetCurrent().GetId(), {i: dict(s.GetUnitsMapping()) for i, s in systems.items()}, None if tpl is None else dict(tpl.GetUnitsMapping()))

    def applicable(self, act):
        k = act[0]
        if k == "setcur":
            return act[1] is None or act[1] in self.M.systems
        if k in ("setdefault", "removecat", "readonly"):
            return act[1] in self.M.systems
        if k in ("ghost-setdefault", "ghost-removecat"):
            return act[1] in self.ghosts
        if k == "pushdb":
            return self.pushed == 0
        if k == "popdb":
            return self.pushed > 0
        return True

    def step(self, act, db):
        """-> (expected, got, error, extra_problems)"""
        m, M = self.m, self.M
        k = act[0]
        problems = []
        err = None
        try:
            if k == "add-generated":
                nid = m.GetNewId()
                mp = self.mapping(act[1])
                exp = M.add(nid, None if mp is None else dict(mp))
                if nid in M.systems and exp != "ok":
                    problems.append(("GetNewId-returned-an-id-in-use", {"id": nid, "registered": list(m.GetUnitSystems())}))
                s = m.AddUnitSystem(nid, nid.upper(), mp)
                self.objects[nid] = s
                self.generated.append(nid)
            elif k == "remove-generated":
                live = [g for g in self.generated if g in M.systems]
                target = live[act[1] % len(live)] if live else "no generated id"
                exp = M.remove(target)
                m.RemoveUnitSystem((target + "x")[:-1])
                if target in self.objects:
                    self.ghosts[target] = self.objects.pop(target)
            elif k == "add":
                mp = self.mapping(act[2])
                exp = M.add(act[1], None if mp is None else dict(mp))
                s = m.AddUnitSystem(act[1], act[1].upper(), mp, read_only=True) if act[3:] == ("readonly",) else m.AddUnitSystem(act[1], act[1].upper(), mp)
                self.objects[act[1]] = s
                if s is not m.GetUnitSystemById((act[1] + "x")[:-1]) or s.GetId() != act[1]:
                    problems.append(("AddUnitSystem-returned-another-object", {}))
            elif k == "remove":
                exp = M.remove(act[1])
                # (the id as an equal string that is another object: one that was formatted, joined or read from a file)
                m.RemoveUnitSystem("".join(list(act[1])) if len(act[1]) > 1 else (act[1] + "x")[:-1])
                if act[1] in self.objects:
                    self.ghosts[act[1]] = self.objects.pop(act[1])
            elif k == "setcur":
                exp = M.set_current(act[1])
                if act[2:] == ("property",):
                    m.current = m.GetUnitSystems()[act[1]] if act[1] is not None else None
                else:
                    m.SetCurrent(m.GetUnitSystems()[act[1]] if act[1] is not None else None)
            elif k == "template":
                exp = M.set_template(TEMPLATES[act[1]])
                m.SetTemplateUnitSystemByUnitsMapping(dict(TEMPLATES[act[1]]))
            elif k == "setdefault":
                exp = M.set_default(act[1], act[2], act[3])
                m.GetUnitSystems()[act[1]].SetDefaultUnit(act[2], act[3])
            elif k == "removecat":
                exp = M.remove_category(act[1], act[2])
                m.GetUnitSystems()[act[1]].RemoveCategory(act[2])
            elif k == "ghost-setdefault":
                exp = "ok"
                self.ghosts[act[1]].SetDefaultUnit(act[2], act[3])
            elif k == "ghost-removecat":
                exp = "ok"
                self.ghosts[act[1]].RemoveCategory(act[2])
            elif k == "pushdb":
                from barril.units import UnitDatabase

                exp = "ok"
                UnitDatabase.PushSingleton(alt_database())
                self.pushed += 1
            elif k == "popdb":
                from barril.units import UnitDatabase

                exp = "ok"
                UnitDatabase.PopSingleton()
                self.pushed -= 1
            elif k == "readonly":
                exp = "ok"
                m.GetUnitSystems()[act[1]].SetReadOnly(act[2])
                if m.GetUnitSystems()[act[1]].IsReadOnly() is not act[2]:
                    problems.append(("SetReadOnly-not-reported-by-IsReadOnly", {}))
            elif k == "convert":
                from barril.units import ObtainQuantity, Scalar

                from barril.units import UnitDatabase

                db = UnitDatabase.GetSingleton()  # the database of the moment (another one may have been pushed)
                exp = "ok"
                cat, u, v = act[1], act[2], act[3]
                tu = M.default_unit(cat)
                if tu is not None:
                    # with a current default unit the amount is converted by the database: a unit it rejects is rejected here
                    try:
                        want = (db.Convert(cat, u, tu, 1.0) and None) or (db.Convert(cat, u, tu, v), tu)
                    except Exception:
                        exp = "reject"
                else:
                    want = (v, u)
                r = m.ConvertToCurrent(cat, u, v)
                if exp == "reject":
                    problems.append(("ConvertToCurrent-accepted-a-unit-the-database-rejects", {"returned": list(r)}))
                    return exp, "ok", None, problems
                if tuple(r) != want:
                    problems.append(("ConvertToCurrent-differs", {"returned": list(r), "expected": list(want)}))
                if db.GetQuantityType(u) != db.GetCategoryQuantityType(cat):
                    return exp, "ok", None, problems  # (no current default: the amount comes back as given; there is no Scalar of that unit to try)
                sc = Scalar(cat if cat != "length" else "depth", v, u)
                tu2 = M.default_unit(sc.GetCategory())
                try:
                    want2 = (v, u) if tu2 is None else (db.Convert(sc.GetCategory(), u, tu2, v), tu2)
                except Exception:
                    want2 = None  # the database of the moment does not know the current default unit: the conversion is refused
                try:
                    r2 = m.ConvertScalarToCurrent(sc)
                except Exception as e2:
                    r2 = e2
                if want2 is None:
                    if not isinstance(r2, Exception):
                        problems.append(("ConvertScalarToCurrent-accepted-a-unit-the-database-rejects", {"returned": repr(r2)}))
                    return exp, "ok", None, problems
                if isinstance(r2, Exception):
                    raise r2
                if (r2.GetValue(), r2.GetUnit()) != want2 or r2.GetCategory() != sc.GetCategory():
                    problems.append(("ConvertScalarToCurrent-differs", {"returned": repr(r2), "expected": list(want2), "category": sc.GetCategory()}))
                q = ObtainQuantity(u, cat)
                if m.GetQuantityDefaultUnit(q) != (tu if tu is not None else u):
                    problems.append(("GetQuantityDefaultUnit-differs", {"returned": m.GetQuantityDefaultUnit(q), "expected": tu if tu is not None else u}))
            else:
                raise AssertionError(act)
            got = "ok"
        except Exception as e:
            got, err = "reject", e
        return exp, got, err, problems


def compare(R):
    """differences between manager and model that are visible through the public interface."""
    out = []
    obs, mod = R.observed(), R.M.state()
    names = ("ids", "current", "mappings", "template")
    for n, a, b in zip(names, obs, mod):
        if a != b:
            out.append(("state:%s-differs" % n, {"manager": a, "model": b}))
    if not R.M.log_matches(R.log):
        out.append(("callback-log-differs", {"manager_tail": R.log[-4:], "model_tail": R.M.log[-4:], "len_manager": len(R.log), "len_model": len(R.M.log)}))
    m = R.m
    for c in CATS:
        if m.GetCategoryDefaultUnit(c) != R.M.default_unit(c):
            out.append(("GetCategoryDefaultUnit-differs", {"category": c, "manager": m.GetCategoryDefaultUnit(c), "model": R.M.default_unit(c)}))
    cur = m.GetCurrent()
    if cur.GetId() is not None and (cur.GetId() not in m.GetUnitSystems() or m.GetUnitSystems()[cur.GetId()] is not cur):
        out.append(("current-system-is-not-a-registered-system", {"current": cur.GetId(), "registered": list(m.GetUnitSystems())}))
    if m.current is not cur:
        out.append(("current-property-differs-from-GetCurrent", {}))
    nid = m.GetNewId()
    if nid in m.GetUnitSystems():
        out.append(("GetNewId-returned-an-id-in-use", {"id": nid}))
    for i, s in m.GetUnitSystems().items():
        if s.GetId() != i or m.GetUnitSystemById(i) is not s:
            out.append(("GetUnitSystemById-differs", {"id": i}))
    try:
        m.GetUnitSystemById("no such id")
        out.append(("GetUnitSystemById-accepted-an-unknown-id", {}))
    except ValueError:
        pass
    except Exception as e:
        out.append(("GetUnitSystemById-raised-%s" % type(e).__name__, {}))
    ids = list(m.GetUnitSystems())
    if len(set(ids)) != len(ids):
        out.append(("ids-not-unique", {"ids": ids}))
    # two registered systems never share one mapping object
    maps = [id(s.GetUnitsMapping()) for s in m.GetUnitSystems().values()]
    if len(set(maps)) != len(maps):
        out.append(("two-systems-share-one-mapping-object", {"ids": ids}))
    return out


class Explorer:
    def __init__(self, ctx, db):
        self.ctx, self.db = ctx, db
        self.checked = set()

    def history(self, acts, ids=None, check_all=True):
        ctx = self.ctx
        R = Run()
        try:
            return self._history(R, acts, ids, check_all)
        finally:
            R.close()

    def _history(self, R, acts, ids, check_all):
        ctx = self.ctx
        done = []
        for i, act in enumerate(acts):
            if not R.applicable(act):
                return  # an action on a system that is not registered: not a call a client can make
            prefix = tuple(ids[: i + 1]) if ids is not None else None
            need = check_all or prefix not in self.checked
            before = (R.observed(), list(R.log)) if need else None
            exp, got, err, problems = R.step(act, self.db)
            done.append(list(act))
            if not need:
                continue
            if prefix is not None:
                self.checked.add(prefix)
            case = {"history": [list(a) for a in done]}
            ctx.ev()
            ctx.count("calls %s" % ("accepted" if got == "ok" else "rejected"))
            ctx.nt((tuple(act), got, repr(R.M.state())))
            if got != exp:
                ctx.violation("%s:%s-but-model-says-%s" % (act[0], got, exp), dict(case, error=repr(err)[:200]), replay=case)
                return
            if got == "reject":
                after = (R.observed(), list(R.log))
                if after != before:
                    ctx.violation("rejected-call-changed-something:%s:%s" % (act[0], type(err).__name__), dict(case, before=repr(before)[:300], after=repr(after)[:300]), replay=case)
                    return
            bad = problems + compare(R)
            for key, detail in bad[:3]:
                ctx.violation("%s:after:%s" % (key, act[0]), dict(case, **detail), replay=case)
            if bad:
                return


def random_history(r, n):
    acts = []
    ids = ["a", "b", "c", ""]
    for _ in range(n):
        k = r.random()
        if k < 0.25:
            acts.append(("add", r.choice(ids), r.choice(["none", "m1", "m2", "shared", "m3", "m5"])))
        elif k < 0.37:
            acts.append(("remove", r.choice(ids + ["z"])))
        elif k < 0.52:
            acts.append(("setcur", r.choice(ids + [None])) + (("property",) if r.random() < 0.3 else ()))
        elif k < 0.60:
            acts.append(("template", r.choice(["t1", "t2", "t3"])))
        elif k < 0.78:
            c, u = r.choice([("pipe roughness", "mm"), ("length", "mm"), ("length", "Mm"), ("length", "m"), ("length", "cm"), ("length", "km"), ("time", "s"), ("time", "min"), ("mass", "g"), ("depth", "ft")])
            acts.append(("setdefault", r.choice(ids), c, u))
        elif k < 0.86:
            acts.append(("removecat", r.choice(ids), r.choice(["length", "time", "mass"])))
        elif r.random() < 0.25:
            acts.append(r.choice([("ghost-setdefault", r.choice(ids), "length", "km"), ("ghost-removecat", r.choice(ids), "time"), ("pushdb",), ("popdb",), ("readonly", r.choice(ids), True)]))
        else:
            acts.append(r.choice([("convert", "length", "cm", 150), ("convert", "time", "s", 90), ("add-generated", "m1"), ("add-generated", "none"), ("remove-generated", 0), ("remove-generated", 1), ("convert", "length", "mm", 2.0), ("convert", "length", "Mm", 2.0), ("convert", "length", "m", 5.0), ("convert", "length", "cm", 7.0), ("convert", "time", "s", 3.0), ("convert", "mass", "kg", 2.0), ("convert", "time", "min", 0.5)]))
    return acts


def run_random(E, acts):
    """like Explorer.history but inapplicable actions are dropped instead of ending the history."""
    R = Run()
    keep = []
    for a in acts:
        # applicability depends on the state reached; decide with a scratch model
        keep.append(a)
    ctx = E.ctx
    R = Run()
    try:
        return _run_random(E, ctx, R, keep)
    finally:
        R.close()


def _run_random(E, ctx, R, keep):
    done = []
    for act in keep:
        if not R.applicable(act):
            continue
        before = (R.observed(), list(R.log))
        exp, got, err, problems = R.step(act, E.db)
        done.append(list(act))
        case = {"history": [list(a) for a in done]}
        ctx.ev()
        ctx.count("calls %s" % ("accepted" if got == "ok" else "rejected"))
        ctx.nt((tuple(act), got, repr(R.M.state())))
        if got != exp:
            ctx.violation("%s:%s-but-model-says-%s" % (act[0], got, exp), dict(case, error=repr(err)[:200]), replay=case)
            return
        if got == "reject" and (R.observed(), list(R.log)) != before:
            ctx.violation("rejected-call-changed-something:%s:%s" % (act[0], type(err).__name__), case, replay=case)
            return
        bad = problems + compare(R)
        for key, detail in bad[:3]:
            ctx.violation("%s:after:%s" % (key, act[0]), dict(case, **detail), replay=case)
        if bad:
            return


def run(ctx):
    from barril.units.unit_system import UnitSystem
    from barril.units.unit_system_manager import UnitSystemManager

    probe.install()
    probe.reach([UnitSystemManager.AddUnitSystem, UnitSystemManager.RemoveUnitSystem, UnitSystemManager.SetCurrent, UnitSystemManager.SetTemplateUnitSystemByUnitsMapping, UnitSystemManager.ConvertToCurrent,
                 UnitSystemManager.ConvertScalarToCurrent, UnitSystem.SetDefaultUnit, UnitSystem.RemoveCategory])  # fmt: skip
    depth = 3 if ctx.tier == "quick" else 4
    ctx.rule = (
        "bounded-exhaustive: every applicable sequence of length <= %d over %d concrete actions (add x 2 ids x 5 mappings incl. one dict shared by several systems, remove incl. unknown id, select incl. none, "
        "3 templates, SetDefaultUnit/RemoveCategory on current and non-current systems, ConvertToCurrent), each distinct prefix checked once; + random histories of 10-60 actions over 3 ids; "
        "distinct = (action, outcome, resulting model state: ids, current, mappings, template)" % (depth, len(ALPHABET))
    )
    ctx.assumptions = [
        "selection is only made among registered systems and None; re-selecting the current system may be announced once more or not at all",
        "default units in mappings belong to the category's quantity type; the read-only flag is not part of the statement",
        "conversion reference is UnitDatabase.Convert (C01/C02 vouch for it)",
    ]
    db = table.build("posc")
    with table.pushed(db):
        E = Explorer(ctx, db)
        n = len(ALPHABET)
        total = 0
        for L in range(1, depth + 1):
            for ids in itertools.product(range(n), repeat=L):
                total += 1
                if (ids[0] * n + (ids[1] if L > 1 else 0)) % ctx.nshards != ctx.shard:
                    continue
                E.history([ALPHABET[i] for i in ids], ids, check_all=False)
                if len(ctx.violations) >= 30:
                    break
        ctx.exhaustive = True
        ctx.notes["bounded_exhaustive"] = {"alphabet": n, "depth": depth, "sequences_total": total}
        # histories longer than the exhaustive depth, written around an id that is used again after its system was removed (the
        # client still holds the removed object) - with and without the new bearer of the id being current
        if ctx.shard == 0:
            for mid in ([], [("setcur", "a")], [("add", "b", "m3"), ("setcur", "b")], [("setcur", None)]):
                for tail in ([("ghost-setdefault", "a", "length", "km")], [("ghost-removecat", "a", "length")], [("ghost-setdefault", "a", "length", "km"), ("setdefault", "a", "length", "cm")]):
                    run_random(E, [("add", "a", "m1"), ("remove", "a"), ("add", "a", "m2")] + mid + tail + [("convert", "length", "m", 5.0), ("remove", "a"), ("ghost-setdefault", "a", "length", "km"), ("convert", "length", "m", 5.0)])
                    ctx.count("scripted histories around a re-used id")
        r = ctx.rng("random")
        for _ in range(800 if ctx.tier == "quick" else 8000):
            run_random(E, random_history(r, r.randint(10, 60)))
        if ctx.shard == 0:
            ctx.sample({"history": [list(ALPHABET[0]), list(ALPHABET[8]), list(ALPHABET[19]), list(ALPHABET[23])], "checked": "ids, current, template, mappings, callback log, default units, conversions after every step"})
            ctx.sample({"random history": [list(a) for a in random_history(ctx.rng("sample"), 10)]})
    ctx.inconclusive_if(ctx.counters.get("calls accepted", 0) == 0 or ctx.counters.get("calls rejected", 0) == 0, "no accepted or no rejected call observed")


def replay(ctx, d):
    probe.install()
    db = table.build("posc")
    with table.pushed(db):
        E = Explorer(ctx, db)
        acts = [tuple(a) for a in d["history"]]
        run_random(E, acts)
