"""C01 - unit conversion is invertible, path independent and monotone, for every unit pair of every
database the library builds by itself (DESIGN.md section 4, C01)."""
import math

from .. import probe
from ..models import conv
from ..workloads import table, values

SHARDS = {"quick": 4, "thorough": 16}
WATCHDOG_S = {"quick": 900, "thorough": 7200}
FLOORS = (10000, 1000)
K = 16.0  # multiple of the running error scale that is accepted (max observed on the pinned table: 2.8)

import decimal
import warnings


def _vals(ctx):
    r = ctx.rng("values")
    h = values.hostile()
    if ctx.tier == "quick":
        base = [0.0, 1.0, -1.0, 273.15, 32.0, 1e-9, 1e9]
        return base + [values.loguniform(r) for _ in range(3)] + [r.choice(h) for _ in range(2)]
    return h + [values.loguniform(r) for _ in range(20)] + [values.short_decimal(r) for _ in range(8)]


class Pair:
    def __init__(self, ctx, db, kind, aff):
        self.ctx, self.db, self.kind, self.aff = ctx, db, kind, aff
        self.maxratio = 0.0

    def bad(self, clause, qt, u, v, w, x, detail):
        self.ctx.violation(
            "%s:%s:%s->%s:%s" % (self.kind, qt, u, v, clause),
            dict(detail, db=self.kind, quantity_type=qt, u=u, v=v, w=w, x=x, clause=clause),
            replay={"kind": self.kind, "qt": qt, "u": u, "v": v, "w": w, "x": x},
        )

    def conv(self, qt, a, b, x):
        try:
            return self.db.Convert(qt, a, b, x)
        except Exception as e:  # an exception where a number is due is a disagreement
            return e

    def check_value(self, qt, u, v, w, x):
        ctx, aff = self.ctx, self.aff
        au, av = aff[u], aff[v]
        C = self.conv
        # (i) identity is exact
        same = C(qt, u, u, x)
        ctx.ev()
        if isinstance(same, Exception) or not (same == x):
            self.bad("identity", qt, u, u, None, x, {"got": repr(same)})
        y = C(qt, u, v, x)
        if isinstance(y, Exception) or not isinstance(y, float) or y != y or math.isinf(y):
            self.bad("finite", qt, u, v, None, x, {"got": repr(y)})
            return None
        # (ii) round trip
        back = C(qt, v, u, y)
        ctx.ev()
        e = conv.base_err(au, x, av, au)
        tol = conv.tol_in(au, e, x, K)
        if isinstance(back, Exception) or not abs(back - x) <= tol:
            self.bad("roundtrip", qt, u, v, None, x, {"y": y, "back": repr(back), "tol": tol})
        elif tol > 0:
            self.maxratio = max(self.maxratio, abs(back - x) / tol * K)
        # (ii') the way back is a map of its own: an amount *near* y (not y itself) comes back as an amount near x that differs
        # from the back-conversion of y by what the slope says - right after the forward conversion, with nothing asked in between
        z = y * (1 + 1e-8) if y else 1e-8
        C(qt, u, v, x)
        bz = C(qt, v, u, z)
        ctx.ev()
        if not isinstance(back, Exception) and not isinstance(bz, Exception):
            d = (z - y) * av.slope / au.slope
            noise = 256 * conv.EPS * (abs(au.off / au.slope) + abs(av.off / au.slope) + abs(x) + abs(d))
            if abs(d) > 8 * noise and not (0.5 <= (bz - back) / d <= 2.0):
                self.bad("nearby-amount-on-the-way-back", qt, u, v, None, x, {"y": y, "z": z, "back_of_y": back, "back_of_z": bz, "expected_difference": d})
        # (iii) path independence u->w  vs  u->v->w
        if w is not None:
            aw = aff[w]
            direct = C(qt, u, w, x)
            via = C(qt, v, w, y)
            ctx.ev()
            e3 = conv.base_err(au, x, av, aw)
            tol3 = conv.tol_in(aw, e3, direct if isinstance(direct, float) else 0.0, K)
            if isinstance(direct, Exception) or isinstance(via, Exception) or not abs(direct - via) <= tol3:
                self.bad("path", qt, u, v, w, x, {"direct": repr(direct), "via": repr(via), "tol": tol3})
            elif tol3 > 0:
                self.maxratio = max(self.maxratio, abs(direct - via) / tol3 * K)
        return y

    def check_monotone(self, qt, u, v, xs, ys):
        au, av = self.aff[u], self.aff[v]
        prev = None
        for x, y in zip(xs, ys):
            if y is None:
                prev = None
                continue
            if prev is not None:
                px, py = prev
                self.ctx.ev()
                if not py <= y:
                    self.bad("monotone", qt, u, v, None, x, {"x1": px, "y1": py, "x2": x, "y2": y})
                else:
                    gap_base = (x - px) * au.slope
                    noise = 64 * conv.EPS * (abs(au.off) + abs(av.off) + abs(au.slope) * max(abs(x), abs(px)))
                    if gap_base > noise and not py < y:
                        self.bad("strict", qt, u, v, None, x, {"x1": px, "y1": py, "x2": x, "y2": y})
            prev = (x, y)


def _state_crosscheck(ctx, db, kind):
    """(v) quiescent-point cross-check of the registered closures: coefficient sets of the two
    directions identical where present; first-listed unit answers f(x) == x."""
    for qt, infos in db.quantity_types.items():
        for i, info in enumerate(infos):
            t, f = info.tobase, info.frombase
            if all(hasattr(t, a) and hasattr(f, a) for a in ("__a__", "__b__", "__c__", "__d__")):
                ctx.ev()
                ct = (t.__a__, t.__b__, t.__c__, t.__d__)
                cf = (f.__a__, f.__b__, f.__c__, f.__d__)
                if ct != cf:
                    ctx.violation("%s:%s:%s:coefficients" % (kind, qt, info.unit), {"tobase": ct, "frombase": cf, "db": kind})
            if i == 0 and kind != "empty":
                for x in (0.0, 1.0, -3.5, 273.15):
                    ctx.ev()
                    try:
                        ok = info.tobase(x) == x and info.frombase(x) == x
                    except Exception:
                        ok = False
                    if not ok:
                        ctx.violation("%s:%s:%s:base-not-identity" % (kind, qt, info.unit), {"x": x, "db": kind})
                        break


def case_twins(ctx, db, kind):
    """Symbols of one quantity type that differ only in the case of their letters (mm / Mm, mg / Mg, mrad / Mrad) are different
    units a million or a billion apart: every conversion *to* and *from* such a symbol - asked of the database and, under every
    category of the type, of a quantity and of a Scalar - is the conversion of that very symbol: same number from every door,
    and back again."""
    from barril.units import ObtainQuantity, Scalar

    n = 0
    cbt = table.categories_by_type(db)
    for qt, us in table.units_by_type(db).items():
        low = {}
        for u in us:
            low.setdefault(u.lower(), []).append(u)
        twins = [g for g in low.values() if len(g) > 1]
        for g in twins:
            for v in g:
                for u in [us[0]] + [w for w in g if w != v]:
                    if u == v:
                        continue
                    for x in (1.0, 2500.0, -0.004):
                        try:
                            ref = db.Convert(qt, u, v, x)
                            back = db.Convert(qt, v, u, ref)
                        except Exception:
                            continue
                        for c in cbt.get(qt, [])[:6]:
                            ctx.ev()
                            n += 1
                            ctx.nt((kind, "case twins", qt, u, v))
                            try:
                                doors = {"Quantity.ConvertScalarValue": ObtainQuantity(u, c).ConvertScalarValue(x, v), "Quantity.Convert": ObtainQuantity(u, c).Convert(x, v), "Quantity.Convert(list)": ObtainQuantity(u, c).Convert([x], v)[0],
                                         "Scalar.GetValue": Scalar(c, x, u).GetValue(v), "Scalar.CreateCopy(unit)": Scalar(c, x, u).CreateCopy(unit=v).GetValue(), "and back": Scalar(c, ref, v).GetValue(u)}  # fmt: skip
                            except Exception as e:
                                ctx.violation("%s:%s:%s->%s:case-twin-conversion-raised" % (kind, qt, u, v), {"category": c, "error": repr(e)[:200], "x": x, "db": kind})
                                break
                            wrong = {k: repr(val) for k, val in doors.items() if repr(val) != repr(back if k == "and back" else ref)}
                            if wrong:
                                ctx.violation("%s:%s:%s->%s:case-twin-converted-as-another-symbol" % (kind, qt, u, v), {"category": c, "database_says": repr(ref), "and_back": repr(back), "these_say": wrong, "x": x, "db": kind})
                                break
    ctx.count("%s: conversions to and from symbols that differ only in case" % kind, n)


def self_conv(db, name, u, v, x):
    try:
        return db.Convert(name, u, v, x)
    except Exception as e:
        return e


def run(ctx):
    from barril.units import UnitDatabase

    probe.install()
    probe.reach([UnitDatabase.Convert, UnitDatabase.GetInfo])
    ctx.rule = (
        "u->u exact for float/int/list/tuple/ndarray/FractionValue on every unit; every ordered pair (u,v), u!=v, of units of one quantity type in each self-built database "
        "(posc, posc without categories, FillSimple) x values; a case is the pair; checked: identity exact, "
        "round trip and path independence within K=16 x running float error scale, (strict) monotonicity; "
        "thorough adds all ordered triples; a sample of pairs is asked again after the sweep (and after the same labels went through the 'Unknown' type) and must answer bit for bit like a fresh database"
    )
    ctx.assumptions = [
        "float error scale: 2^-53 x (|offsets| + |slope x|) in base units, accepted multiple K=16",
        "values finite, |x| in [1e-12, 1e12] or 0",
    ]
    xs = sorted(set(_vals(ctx)))
    r = ctx.rng("w")
    maxratio = 0.0
    n_pairs_total = 0
    for kind in table.KINDS:
        db = table.build(kind)
        with table.pushed(db):
            aff = conv.describe(db)
            if ctx.shard == 0:
                _state_crosscheck(ctx, db, kind)
            if ctx.shard == 1 % ctx.nshards and kind == "posc":
                case_twins(ctx, db, kind)
            P = Pair(ctx, db, kind, aff)
            work = []
            for qt, us in table.units_by_type(db).items():
                us = [u for u in us if u in aff and aff[u].exact and aff[u].slope != 0]
                for u in us:
                    for v in us:
                        if u != v:
                            work.append((qt, u, v, us))
            n_pairs_total += len(work)
            for idx, (qt, u, v, us) in enumerate(work):
                if idx % ctx.nshards != ctx.shard:
                    continue
                ctx.nt((kind, qt, u, v))
                ws = [r.choice(us)] if ctx.tier == "quick" else us
                ys = []
                for j, x in enumerate(xs):
                    if ctx.tier == "quick":
                        w = ws[0]
                    else:
                        # all triples: every w gets 3 of the values
                        w = None
                    y = P.check_value(qt, u, v, w, x)
                    ys.append(y)
                if ctx.tier != "quick":
                    for w in ws:
                        if w == u or w == v:
                            continue
                        ctx.count("triples")
                        for x in (xs[(hash((u, w)) + k) % len(xs)] for k in (0, 7, 19)):
                            P.check_value(qt, u, v, w, x)
                P.check_monotone(qt, u, v, xs, ys)
                # the (unit, exponent) overload with exponent 1 is the same conversion (negative amounts and offset
                # units included): compared with the string form on a few values
                if (aff[u].off != 0 or aff[v].off != 0) or idx % 5 == 0:
                    for x in (xs[0], xs[1], xs[len(xs) // 2], xs[-1], -47.0, -1e-3, -3.0, -1000.0, 7.0, 36000.0):
                        ctx.ev()
                        try:
                            a1 = db.Convert(qt, u, v, x)
                            a2 = db.Convert(qt, [(u, 1)], [(v, 1)], x)
                            a3 = db.Convert(qt, ((u, 1),), ((v, 1),), x)
                            # ... also when only one of the two units is given as pairs, and when a pair is a list
                            for mname, am in (("pairs -> symbol", db.Convert(qt, [(u, 1)], v, x)), ("symbol -> pairs", db.Convert(qt, u, [(v, 1)], x)), ("list pairs", db.Convert(qt, [[u, 1]], [[v, 1]], x)), ("tuple -> symbol", db.Convert(qt, ((u, 1),), v, x))):
                                if abs(am - a1) > conv.tol_in(aff[v], conv.base_err(aff[u], x, aff[v]), a1, 16.0):
                                    ctx.violation("%s:%s:%s->%s:exponent-1-form-differs" % (kind, qt, u, v), {"string_form": repr(a1), "form": mname, "that_form": repr(am), "x": x, "db": kind}, replay={"kind": kind, "qt": qt, "u": u, "v": v, "x": x})
                                    break
                            # the same amount inside a list / a tuple is the same amount
                            al, at = db.Convert(qt, u, v, [x, 0.0, x]), db.Convert(qt, u, v, (x,))
                            if not (isinstance(al, list) and isinstance(at, tuple) and repr(al[0]) == repr(a1) == repr(al[2]) == repr(at[0]) and repr(al[1]) == repr(db.Convert(qt, u, v, 0.0))):
                                ctx.violation("%s:%s:%s->%s:amount-in-a-list-or-tuple-differs-from-the-plain-amount" % (kind, qt, u, v), {"plain": repr(a1), "list": repr(al), "tuple": repr(at), "x": x, "db": kind}, replay={"kind": kind, "qt": qt, "u": u, "v": v, "x": x})
                                break
                        except Exception as e:
                            ctx.violation("%s:%s:%s->%s:exponent-1-form-raised" % (kind, qt, u, v), {"error": repr(e)[:200], "x": x, "db": kind}, replay={"kind": kind, "qt": qt, "u": u, "v": v, "x": x})
                            break
                        tol = conv.tol_in(aff[v], conv.base_err(aff[u], x, aff[v]), a1, 16.0)
                        if float(x).is_integer() and abs(x) < 1e9:
                            # the same amount given as a Python int (negative and positive) is the same amount
                            ai = db.Convert(qt, u, v, int(x))
                            if abs(ai - a1) > tol:
                                ctx.violation("%s:%s:%s->%s:int-amount-differs-from-float" % (kind, qt, u, v), {"float": repr(a1), "int": repr(ai), "x": int(x), "db": kind}, replay={"kind": kind, "qt": qt, "u": u, "v": v, "x": x})
                                break
                        if abs(a2 - a1) > tol or abs(a3 - a1) > tol:
                            ctx.violation("%s:%s:%s->%s:exponent-1-form-differs" % (kind, qt, u, v), {"string_form": repr(a1), "list_form": repr(a2), "tuple_form": repr(a3), "x": x, "db": kind}, replay={"kind": kind, "qt": qt, "u": u, "v": v, "x": x})
                            break
                if idx < 3 and ctx.shard == 0:
                    ctx.sample({"db": kind, "qt": qt, "u": u, "v": v, "x": xs[-1], "y": ys[-1]})
            maxratio = max(maxratio, P.maxratio)
            # history independence: after the whole sweep (and after the same unit labels were asked about under
            # the accept-anything 'Unknown' quantity type, and under other container kinds) a sample of pairs
            # answers bit for bit what a database that was asked nothing else answers
            mine = [w_ for i_, w_ in enumerate(work) if i_ % ctx.nshards == ctx.shard]
            sample = r.sample(mine, min(len(mine), 300 if ctx.tier == "quick" else 3000))
            fresh = table.build(kind)
            for qt, u, v, _us in sample:
                for x in (xs[0], xs[len(xs) // 2], xs[-1]):
                    ctx.ev()
                    try:
                        if "Unknown" in db.quantity_types:
                            db.Convert("Unknown", u, v, x)
                        db.Convert(qt, u, v, [x, x])
                        warm = db.Convert(qt, u, v, x)
                        with table.pushed(fresh):
                            # on the other database the pair meets the 'Unknown' type *first*
                            if "Unknown" in fresh.quantity_types and fresh.Convert("Unknown", u, v, x) != x:
                                ctx.violation("%s:%s:%s->%s:Unknown-type-did-not-return-the-value-unchanged" % (kind, qt, u, v), {"x": x, "db": kind})
                            cold = fresh.Convert(qt, u, v, x)
                    except Exception as e:
                        ctx.violation("%s:%s:%s->%s:second-pass-raised" % (kind, qt, u, v), {"error": repr(e)[:200], "db": kind}, replay={"kind": kind, "qt": qt, "u": u, "v": v, "x": x})
                        break
                    if repr(warm) != repr(cold):
                        ctx.violation("%s:%s:%s->%s:depends-on-history" % (kind, qt, u, v), {"after_the_sweep": repr(warm), "on_a_fresh_database": repr(cold), "x": x, "db": kind}, replay={"kind": kind, "qt": qt, "u": u, "v": v, "x": x})
                        break
                    # ... nor on settings of the thread that are none of a conversion's business: the decimal context
                    # (a caller doing money arithmetic with five digits) and the warnings filter
                    ctx.ev()
                    try:
                        with decimal.localcontext() as dc, warnings.catch_warnings():
                            dc.prec = 5
                            dc.rounding = decimal.ROUND_DOWN
                            warnings.simplefilter("error")
                            amb = db.Convert(qt, u, v, x)
                            amb_l = db.Convert(qt, u, v, [x])[0]
                    except Exception as e:
                        ctx.violation("%s:%s:%s->%s:raised-under-a-five-digit-decimal-context" % (kind, qt, u, v), {"error": repr(e)[:200], "x": x, "db": kind}, replay={"kind": kind, "qt": qt, "u": u, "v": v, "x": x})
                        break
                    if repr(amb) != repr(warm) or repr(amb_l) != repr(warm):
                        ctx.violation("%s:%s:%s->%s:depends-on-the-thread's-decimal-context" % (kind, qt, u, v), {"default_context": repr(warm), "five_digit_context": repr(amb), "in_a_list": repr(amb_l), "x": x, "db": kind}, replay={"kind": kind, "qt": qt, "u": u, "v": v, "x": x})
                        break
            # u -> u is exact for every kind of value (no arithmetic at all may touch it)
            if ctx.shard == 0:
                import numpy as np

                try:
                    from barril.basic.fraction import FractionValue
                except Exception:
                    FractionValue = None
                probe_vals = [3.7, 1e5, -459.67, 0.1, 273.15, 1e-9, 7.0]
                for u, a in aff.items():
                    for label, val in (("ndarray", np.array(probe_vals)), ("int ndarray", np.array([1, -2, 30000])), ("list", list(probe_vals)), ("tuple", tuple(probe_vals)),
                                       ("FractionValue", FractionValue(3, (1, 4)) if FractionValue else None), ("int", 3), ("float", 3.7)):  # fmt: skip
                        if val is None:
                            continue
                        ctx.ev()
                        try:
                            # the same symbol as two different str objects (a symbol read from a file, sliced, joined, ...)
                            u_again = "".join(list(u)) if label in ("float", "list", "ndarray") else u
                            got = db.Convert(a.qt, u, u_again, val)
                            if label == "FractionValue":
                                same = got == val and float(got) == 3.25
                            elif label in ("ndarray", "int ndarray"):
                                same = isinstance(got, np.ndarray) and got.dtype == val.dtype and np.array_equal(got, val)
                            else:
                                same = type(got) is type(val) and got == val
                        except Exception as e:
                            ctx.violation("%s:%s:%s:identity-raised:%s" % (kind, a.qt, u, label), {"error": repr(e)[:160], "db": kind})
                            continue
                        if not same:
                            ctx.violation("%s:%s:%s:identity-not-exact:%s" % (kind, a.qt, u, label), {"given": repr(val)[:120], "got": repr(got)[:120], "db": kind}, replay={"kind": kind, "qt": a.qt, "u": u, "v": u, "x": 3.7})
            # a conversion addressed by a *category* name (also one that is not named after its quantity type, also into that
            # category's own default unit) is the conversion of the category's quantity type
            if ctx.shard == 0 and kind == "posc":
                n_cat = 0
                for c in sorted(db.IterCategories()):
                    cqt = db.GetCategoryQuantityType(c)
                    if cqt == "Unknown":
                        continue
                    du, bu = db.GetDefaultUnit(c), db.GetBaseUnit(cqt)
                    us = [u for u in db.GetUnits(cqt) if u in aff and aff[u].exact]
                    for u in us[:: max(1, len(us) // 6)] + [du, bu]:
                        for v in (du, bu, us[-1]):
                            for x in (1.0, 0.5, -3.0):
                                ctx.ev()
                                n_cat += 1
                                by_cat, by_qt = self_conv(db, c, u, v, x), self_conv(db, cqt, u, v, x)
                                if repr(by_cat) != repr(by_qt):
                                    ctx.violation("%s:%s:%s->%s:category-name-differs-from-quantity-type-name" % (kind, cqt, u, v), {"category": c, "by_category": repr(by_cat), "by_quantity_type": repr(by_qt), "x": x, "db": kind}, replay={"kind": kind, "qt": cqt, "u": u, "v": v, "x": x})
                                # and round trip through the category name
                                if isinstance(by_cat, float) and u != v:
                                    back = self_conv(db, c, v, u, by_cat)
                                    ref_back = self_conv(db, cqt, v, u, by_cat)
                                    if repr(back) != repr(ref_back):
                                        ctx.violation("%s:%s:%s->%s:category-name-differs-from-quantity-type-name" % (kind, cqt, v, u), {"category": c, "by_category": repr(back), "by_quantity_type": repr(ref_back), "x": by_cat, "db": kind})
                ctx.count("conversions addressed by category name", n_cat)
            # the scalar route of a quantity (Scalar.GetValue, Quantity.ConvertScalarValue) for amounts asked one after the other on
            # one shared quantity - small integers and their float twins among them (-1 and -2 hash alike in CPython)
            if ctx.shard == 0 and kind == "posc":
                try:
                    from barril.units import ObtainQuantity as _OQ, Scalar as _Sc
                except Exception:
                    _OQ = None
                seq = [-1.0, -2.0, -1, -2, 1.0, 2.0, 0.0, -0.0, 3, -3.0, 1e-9, -1e9]
                done_q = set()
                for u, a in aff.items():
                    if _OQ is None or a.qt in done_q or a.qt == "Unknown" or not a.exact or not a.slope:
                        continue
                    vs_ = [w for w, b in aff.items() if b.qt == a.qt and w != u and b.exact and b.slope]
                    cat = db.GetDefaultCategory(u)
                    if not vs_ or not cat:
                        continue
                    done_q.add(a.qt)
                    v = vs_[len(vs_) // 2]
                    q = _OQ(u, cat)
                    for x in seq:
                        ctx.ev()
                        want = db.Convert(a.qt, u, v, float(x))
                        try:
                            got = (q.ConvertScalarValue(x, v), _Sc(x, u).GetValue(v), _Sc(cat, x, u).CreateCopy(unit=v).GetValue())
                        except Exception as e:
                            ctx.violation("%s:%s:%s->%s:scalar-route-raised" % (kind, a.qt, u, v), {"x": repr(x), "error": repr(e)[:160], "db": kind})
                            break
                        if any(float(g) != want for g in got):
                            ctx.violation("%s:%s:%s->%s:scalar-route-differs-from-Convert" % (kind, a.qt, u, v), {"x": repr(x), "got": [repr(g) for g in got], "want": want, "asked_before": [repr(t) for t in seq[: seq.index(x)]], "db": kind}, replay={"kind": kind, "qt": a.qt, "u": u, "v": v, "x": float(x)})
                            break
            # the same container object converted twice with other contents in between (a table that is edited in place and
            # asked again), and arrays too large for any "small array" path: every element is the float conversion of that element
            if ctx.shard == 0:
                import numpy as np

                try:
                    from barril.units import Array, ObtainQuantity
                except Exception:
                    Array = ObtainQuantity = None
                by_qt = {}
                for u, a in aff.items():
                    if a.exact and a.slope:
                        by_qt.setdefault(a.qt, []).append(u)
                n_big = 0
                for qt, us in sorted(by_qt.items()):
                    if len(us) < 2 or qt == "Unknown":
                        continue
                    offs = [u for u in us if aff[u].off != 0.0]
                    u, v = (offs[0], next(w for w in us if w != offs[0])) if offs else (us[0], us[-1])
                    first, second = [1.0, 2.0, -3.0], [5000.0, 0.0, 12.5]
                    for label, mk in (("list", list), ("ndarray", lambda z: np.array(z, dtype=float))):
                        ctx.ev()
                        try:
                            want = [db.Convert(qt, u, v, x) for x in second]
                            box = mk(first)
                            cat = db.GetDefaultCategory(u) if ObtainQuantity is not None and kind == "posc" else None
                            askers = [("UnitDatabase.Convert", lambda b: db.Convert(qt, u, v, b))]
                            if cat:
                                q = ObtainQuantity(u, cat)
                                askers.append(("Quantity.Convert", lambda b: q.Convert(b, v)))
                                if label == "ndarray":
                                    arr = Array(q, box)
                                    askers.append(("Array.GetValues (shared buffer)", lambda b: arr.GetValues(v)))
                            for name, ask in askers:
                                box[:] = first
                                ask(box)
                                box[:] = second
                                got = [float(x) for x in ask(box)]
                                if got != want:
                                    ctx.violation("%s:%s:%s->%s:second-conversion-of-an-edited-container:%s[%s]" % (kind, qt, u, v, name, label), {"edited_to": second, "got": got, "want": want, "db": kind}, replay={"kind": kind, "qt": qt, "u": u, "v": v, "x": 12.5})
                        except Exception as e:
                            ctx.violation("%s:%s:%s->%s:edited-container-raised" % (kind, qt, u, v), {"error": repr(e)[:200], "db": kind})
                    # amounts handed over as a one-shot iterable (a generator, iter(), map(), reversed()) are the same amounts, in the
                    # same order, as the list they were made from
                    amounts = [-40.0, -1.5, 0.0, 1e-3, 1.0, 37.5, 273.15, 1e4]
                    try:
                        as_list = db.Convert(qt, u, v, list(amounts))
                        for label, mk in (("generator", lambda z: (t for t in z)), ("iter", iter), ("map", lambda z: map(float, z)), ("reversed", lambda z: reversed(z[::-1])), ("dict keys", lambda z: dict.fromkeys(z).keys()),
                                          # items that exist only while they are being handed over (computed on the fly, unboxed from a buffer)
                                          ("computed generator", lambda z: (t * 1.0 + 0.0 for t in z)), ("array.array", lambda z: __import__("array").array("d", z)), ("ndarray.flat", lambda z: np.array(z).flat),
                                          ("memoryview", lambda z: memoryview(__import__("array").array("d", z)))):
                            ctx.ev()
                            got = db.Convert(qt, u, v, mk(amounts))
                            if [float(t) for t in got] != as_list:
                                ctx.violation("%s:%s:%s->%s:one-shot-iterable:%s" % (kind, qt, u, v, label), {"got": repr(got)[:200], "as_a_list": repr(as_list)[:200], "db": kind}, replay={"kind": kind, "qt": qt, "u": u, "v": v, "x": 37.5})
                        ctx.count("one-shot iterables converted", 9)
                    except Exception as e:
                        ctx.violation("%s:%s:%s->%s:one-shot-iterable-raised" % (kind, qt, u, v), {"error": repr(e)[:200], "db": kind})
                    if n_big < 12:
                        n_big += 1
                        ctx.ev()
                        big = np.arange(-35000, 35001, dtype=np.int64)
                        try:
                            got = np.asarray(db.Convert(qt, u, v, big), dtype=float)
                            ref = np.asarray(db.Convert(qt, u, v, big.astype(float)), dtype=float)
                            small = np.asarray(db.Convert(qt, u, v, big[:64]), dtype=float)
                            ok = got.shape == ref.shape and np.array_equal(got, ref) and np.array_equal(got[:64], small) and all(float(got[i]) == db.Convert(qt, u, v, float(big[i])) for i in (0, 1, 34999, 35001, 36500, 70000))
                        except Exception as e:
                            ok = repr(e)
                        if ok is not True:
                            ctx.violation("%s:%s:%s->%s:large-integer-array" % (kind, qt, u, v), {"items": int(big.size), "problem": ok if ok is not False else "differs from the element-wise float conversion (or from the same amounts in a small array)", "db": kind}, replay={"kind": kind, "qt": qt, "u": u, "v": v, "x": 1500.0})
                ctx.count("large integer arrays converted", n_big)
                # the amounts the caller handed over are the caller's: after a conversion from or to *any* unit the container holds
                # what it held, and asking again answers the same (so v -> u of the answer is a round trip of the original amounts)
                n_kept = 0
                for qt, us in sorted(by_qt.items()):
                    if qt == "Unknown" or len(us) < 2:
                        continue
                    for i, u in enumerate(us):
                        v = us[(i + 1) % len(us)]
                        orig = [12.5, -3.0, 0.25, 1000.0]
                        for label, box in (("ndarray", np.array(orig)), ("list", list(orig)), ("0-d ndarray", np.array(12.5))):
                            ctx.ev()
                            n_kept += 1
                            try:
                                before = box.copy() if hasattr(box, "copy") else list(box)
                                a1 = db.Convert(qt, u, v, box)
                                a1 = a1.copy() if hasattr(a1, "copy") else a1
                                kept = np.array_equal(np.asarray(box), np.asarray(before))
                                a2 = db.Convert(qt, u, v, box)
                                again = np.array_equal(np.asarray(a1), np.asarray(a2))
                                db.Convert(qt, v, u, a1)  # the answer, handed back for the way home, is the caller's too
                                kept2 = np.array_equal(np.asarray(a1), np.asarray(a2))
                            except Exception as e:
                                ctx.violation("%s:%s:%s->%s:callers-container-raised:%s" % (kind, qt, u, v, label), {"error": repr(e)[:200], "db": kind})
                                continue
                            if not (kept and again and kept2):
                                ctx.violation("%s:%s:%s->%s:callers-container-changed:%s" % (kind, qt, u, v, label), {"held": repr(before)[:120], "holds": repr(box)[:120], "same_answer_twice": bool(again), "db": kind}, replay={"kind": kind, "qt": qt, "u": u, "v": v, "x": 12.5})
                ctx.count("caller's containers looked at after a conversion", n_kept)
                # an answer is the caller's as well: it still holds the converted amounts after *other* arrays of the same shape
                # went through the same (and other) conversions - to the base unit, from it, between two other units
                n_ans = 0
                for qt, us in sorted(by_qt.items()):
                    if qt == "Unknown" or len(us) < 2:
                        continue
                    base = db.GetBaseUnit(qt)
                    for u, v in [(u, base) for u in us if u != base][:6] + [(base, u) for u in us if u != base][:3] + [(us[-1], us[1 if us[1] != us[-1] else 0])]:
                        if u == v:
                            continue
                        ctx.ev()
                        n_ans += 1
                        x1, x2 = np.array([12.5, -3.0, 0.25, 1000.0]), np.array([7.0, 8.0, 9.0, -10.0])
                        try:
                            want1 = [db.Convert(qt, u, v, float(t)) for t in x1]
                            r1 = db.Convert(qt, u, v, x1)
                            r2 = db.Convert(qt, u, v, x2)
                            r3 = db.Convert(qt, v, u, np.array([1.0, 2.0, 3.0, 4.0]))
                            ok = [float(t) for t in r1] == want1 and r1 is not r2 and r1 is not r3 and not np.shares_memory(r1, r2)
                        except Exception as e:
                            ctx.violation("%s:%s:%s->%s:answers-kept-raised" % (kind, qt, u, v), {"error": repr(e)[:200], "db": kind})
                            continue
                        if not ok:
                            ctx.violation("%s:%s:%s->%s:an-earlier-answer-changed-when-another-array-was-converted" % (kind, qt, u, v), {"first_answer_now": repr(r1)[:120], "was": want1, "db": kind}, replay={"kind": kind, "qt": qt, "u": u, "v": v, "x": 12.5})
                ctx.count("earlier answers looked at after later conversions", n_ans)
                # arrays of more than one dimension in every memory layout (C order, Fortran order, a transposed view, a strided slice):
                # the element at [i, j] of the answer is the conversion of the element at [i, j]
                n_lay = 0
                for qt, us in sorted(by_qt.items()):
                    if qt == "Unknown" or len(us) < 2 or n_lay >= 60:
                        continue
                    offs = [w for w in us if aff[w].off != 0.0]
                    u, v = (offs[0], next(w for w in us if w != offs[0])) if offs else (us[0], us[-1])
                    base2 = np.arange(12, dtype=float).reshape(3, 4) * 1.5 - 4.0
                    for label, arr in (("C order", base2.copy()), ("Fortran order", np.asfortranarray(base2)), ("transposed view", base2.T), ("strided slice", np.arange(48, dtype=float).reshape(6, 8)[::2, ::2]),
                                       ("3-d Fortran", np.asfortranarray(np.arange(24, dtype=float).reshape(2, 3, 4)))):  # fmt: skip
                        ctx.ev()
                        n_lay += 1
                        try:
                            got = np.asarray(db.Convert(qt, u, v, arr))
                            ok = got.shape == arr.shape and all(float(got[idx_]) == db.Convert(qt, u, v, float(arr[idx_])) for idx_ in np.ndindex(arr.shape))
                        except Exception as e:
                            ok = repr(e)[:160]
                        if ok is not True:
                            ctx.violation("%s:%s:%s->%s:array-of-several-dimensions:%s" % (kind, qt, u, v, label), {"layout": label, "shape": list(arr.shape), "problem": ok if ok is not False else "elements land in other positions (or differ from the scalar route)", "db": kind}, replay={"kind": kind, "qt": qt, "u": u, "v": v, "x": 2.0})
                ctx.count("arrays of several dimensions converted", n_lay)
                # long lists and tuples (1 000 items and more) are the same amounts, item by item, as the scalar route gives
                n_long = 0
                for qt, us in sorted(by_qt.items()):
                    if qt == "Unknown" or len(us) < 2 or n_long >= 40:
                        continue
                    u, v = us[0], us[-1]
                    for n_items in (1000, 4097):
                        vals = [0.1 * (i - n_items // 3) + 1e-7 * i for i in range(n_items)]
                        idx = [0, 1, 2, n_items // 2, n_items - 2, n_items - 1]
                        for label, mk in (("list", list), ("tuple", tuple)):
                            ctx.ev()
                            n_long += 1
                            try:
                                got = db.Convert(qt, u, v, mk(vals))
                                back = db.Convert(qt, v, u, got)
                                ok = type(got) is type(mk([])) and len(got) == n_items and all(got[i] == db.Convert(qt, u, v, vals[i]) for i in idx) and all(back[i] == db.Convert(qt, v, u, got[i]) for i in idx)
                            except Exception as e:
                                ok = repr(e)[:160]
                            if ok is not True:
                                ctx.violation("%s:%s:%s->%s:long-%s-differs-from-the-scalar-route" % (kind, qt, u, v, label), {"items": n_items, "problem": ok, "db": kind}, replay={"kind": kind, "qt": qt, "u": u, "v": v, "x": vals[1]})
                ctx.count("long lists / tuples converted", n_long)
            # slope sign of every unit (strictly increasing maps)
            if ctx.shard == 0:
                for u, a in aff.items():
                    ctx.ev()
                    if not a.slope > 0:
                        ctx.violation("%s:%s:%s:slope" % (kind, a.qt, u), {"slope": a.slope, "db": kind})
    ctx.exhaustive = True
    ctx.notes["exhaustive_dimension"] = "ordered unit pairs of every quantity type of the three self-built databases (values sampled)"
    ctx.notes["pairs_total_all_shards"] = {"n": n_pairs_total} if ctx.shard == 0 else {"n": 0}
    ctx.notes["max_error_over_scale"] = {"shard%d" % ctx.shard: round(maxratio, 3)}
    ctx.notes["values_per_pair"] = {"n": len(xs)} if ctx.shard == 0 else {"n": 0}
    ctx.inconclusive_if(probe.BOUNDARY["UnitDatabase.Convert"] == 0, "deciding wrapper UnitDatabase.Convert saw no event")


def replay(ctx, d):
    probe.install()
    db = table.build(d["kind"])
    with table.pushed(db):
        aff = conv.describe(db)
        P = Pair(ctx, db, d["kind"], aff)
        w = d.get("w")
        if d["u"] == d["v"]:
            d = dict(d)
            d["v"] = next(u for u in aff if aff[u].qt == aff[d["u"]].qt)
        y = P.check_value(d["qt"], d["u"], d["v"], w, d["x"])
        print("replay C01:", d, "->", y)
