"""C19 - equivalent construction forms build equal objects (DESIGN.md 4, C19).

Exhaustive over the shipped table: for every unit u (default category c) and for categories c2 of u's
quantity type (quick: c, the category named after the type, two more; thorough: all), every documented
construction form of Scalar / Array / FixedArray / FractionScalar is executed and the results are compared
pairwise with ``==`` (both directions), ``!=`` and field by field.  Unit-only forms are evaluated *before and
after* the explicit-category forms of the other categories (interning order must not matter), on a fresh
database per shard.  For every category the bare-category object equals the one built from default value and
default unit; ``eval(repr(scalar))`` gives back an equal Scalar.
"""
from .. import probe
from ..workloads import table

SHARDS = {"quick": 4, "thorough": 16}
WATCHDOG_S = {"quick": 900, "thorough": 7200}
FLOORS = (100000, 5000)
VALUES = [2.5, 0.0, -1000.0, 1e-6, 123456.789]


def same(a, b):
    """None if a and b are equal in every respect a construction form must not influence."""
    try:
        if not (a == b) or not (b == a) or (a != b):
            return "== says different"
    except Exception as e:
        return "== raised %s" % type(e).__name__
    if type(a) is not type(b):
        return "classes differ"
    fa = (a.GetUnit(), a.GetCategory(), a.GetQuantityType(), a.GetQuantity() is b.GetQuantity() or a.GetQuantity() == b.GetQuantity(), getattr(a, "dimension", None), a.GetQuantity().GetUnknownCaption() or "")
    fb = (b.GetUnit(), b.GetCategory(), b.GetQuantityType(), True, getattr(b, "dimension", None), b.GetQuantity().GetUnknownCaption() or "")
    if fa != fb:
        return "fields differ: %r vs %r" % (fa, fb)
    return None


def scalar_forms(u, c, v, with_unit_only):
    from barril.units import ObtainQuantity, Scalar

    F = [
        ("Scalar(v,u,c)", lambda: Scalar(v, u, c)),
        ("Scalar(c,v,u)", lambda: Scalar(c, v, u)),
        ("Scalar(category=,value=,unit=)", lambda: Scalar(category=c, value=v, unit=u)),
        ("Scalar(ObtainQuantity(u,c),v)", lambda: Scalar(ObtainQuantity(u, c), v)),
        ("Scalar.CreateWithQuantity", lambda: Scalar.CreateWithQuantity(ObtainQuantity(u, c), v)),
        ("Scalar(c).CreateCopy(v,u)", lambda: Scalar(c).CreateCopy(v, u)),
        ("Scalar(ObtainQuantity([(u,1)],[c]),v)", lambda: Scalar(ObtainQuantity([(u, 1)], [c]), v)),
        ("Scalar(ObtainQuantity({c:[u,1]}),v)", lambda: Scalar(ObtainQuantity(__import__("collections").OrderedDict([(c, [u, 1])])), v)),
        ("Scalar(Scalar(c,v,u).GetValueAndUnit()+(c,))", lambda: Scalar(*(Scalar(c, v, u).GetValueAndUnit() + (c,)))),
    ]
    if with_unit_only:
        F += [("Scalar(v,u)", lambda: Scalar(v, u)), ("Scalar((v,u))", lambda: Scalar((v, u))), ("Scalar(ObtainQuantity(u),v)", lambda: Scalar(ObtainQuantity(u), v))]
    return F


def array_forms(u, c, vals, kind, with_unit_only):
    import numpy as np
    from barril.units import Array, FixedArray, ObtainQuantity

    mk = {"list": list, "tuple": tuple, "nd": lambda x: np.array(x, dtype=float),
          # rows of values (k tuples of w numbers, k != w): the dimension is the number of rows
          "rows": lambda x: [(t, t + 1.0, t + 2.0, 0.5) for t in x], "rows-tuple": lambda x: tuple((t, 1.0) for t in x), "rows-lists": lambda x: [[t, t + 1.0] for t in x]}[kind]
    n = len(vals)
    F = [
        ("Array(values,u,c)", lambda: Array(mk(vals), u, c)),
        ("Array(c,values,u)", lambda: Array(c, mk(vals), u)),
        ("Array(ObtainQuantity(u,c),values)", lambda: Array(ObtainQuantity(u, c), mk(vals))),
        ("Array.CreateWithQuantity", lambda: Array.CreateWithQuantity(ObtainQuantity(u, c), mk(vals))),
        ("Array(values=,unit=,category=)", lambda: Array(values=mk(vals), unit=u, category=c)),
    ]
    G = [
        ("FixedArray(n,c,values,u)", lambda: FixedArray(n, c, mk(vals), u)),
        ("FixedArray(n,ObtainQuantity(u,c),values)", lambda: FixedArray(n, ObtainQuantity(u, c), mk(vals))),
        ("FixedArray.CreateWithQuantity(dimension=)", lambda: FixedArray.CreateWithQuantity(ObtainQuantity(u, c), mk(vals), dimension=n)),
        ("FixedArray.CreateWithQuantity", lambda: FixedArray.CreateWithQuantity(ObtainQuantity(u, c), mk(vals))),
        # the values first, as Array takes them (the arguments are handed on to Array as they come)
        ("FixedArray(n,values,u,c)", lambda: FixedArray(n, mk(vals), u, c)),
    ]
    if with_unit_only:
        F.append(("Array(values,u)", lambda: Array(mk(vals), u)))
        G.append(("FixedArray(n,values,u)", lambda: FixedArray(n, mk(vals), u)))
    return F, G


def fraction_forms(u, c, v, with_unit_only, plain_float=False):
    from barril.basic.fraction import FractionValue
    from barril.units import FractionScalar, ObtainQuantity

    # the value is given either as a FractionValue or as a plain float with a fractional part (the constructor
    # coerces it): both ways every form must store the same thing
    if plain_float:
        fv = lambda: float(int(v)) + 0.75  # noqa
    else:
        fv = lambda: FractionValue(int(v), (1, 2))  # noqa
    F = [
        ("FractionScalar(c,*GetValueAndUnit())", lambda: FractionScalar(c, *FractionScalar(c, fv(), u).GetValueAndUnit())),
        ("FractionScalar(c,fv,u)", lambda: FractionScalar(c, fv(), u)),
        ("FractionScalar(ObtainQuantity(u,c),fv)", lambda: FractionScalar(ObtainQuantity(u, c), fv())),
        ("FractionScalar.CreateWithQuantity", lambda: FractionScalar.CreateWithQuantity(ObtainQuantity(u, c), fv())),
        ("FractionScalar(c,value=,unit=)", lambda: FractionScalar(c, value=fv(), unit=u)),
    ]
    if with_unit_only:
        F.append(("FractionScalar(fv,u)", lambda: FractionScalar(fv(), u)))
    return F


def compare_forms(ctx, forms, case, tag):
    built = []
    for name, fn in forms:
        ctx.ev()
        try:
            built.append((name, fn()))
        except Exception as e:
            ctx.violation("%s:form-raised:%s:%s" % (tag, name, type(e).__name__), dict(case, form=name, error=str(e)[:160]), replay=case)
    if not built:
        return None
    n0, o0 = built[0]
    for name, o in built[1:]:
        ctx.ev()
        why = same(o0, o)
        if why:
            ctx.violation("%s:forms-differ:%s<>%s" % (tag, n0, name), dict(case, a=repr(o0)[:120], b=repr(o)[:120], why=why), replay=case)
    return o0


def unit_sweep(ctx, db, r):
    from barril.units import ObtainQuantity, Scalar

    ubt = table.units_by_type(db)
    cbt = table.categories_by_type(db)
    units = [(qt, u) for qt, us in ubt.items() for u in us if qt != "Unknown"]
    quick = ctx.tier == "quick"
    for idx, (qt, u) in enumerate(units):
        if idx % ctx.nshards != ctx.shard:
            continue
        case0 = {"unit": u, "qt": qt}
        ctx.ev()
        # the default category of a unit is what the table registered for it (else the category named after its quantity
        # type) - read from the table entry, not from the lookup the unit-only forms themselves go through
        info_ = db.unit_to_unit_info[u]
        dc = info_.default_category or (qt if qt in db.categories_to_quantity_types else None)
        ctx.ev()
        if db.GetDefaultCategory(u) != dc:
            ctx.violation("GetDefaultCategory-differs-from-the-table-entry:%s" % u, dict(case0, table=dc, lookup=db.GetDefaultCategory(u)), replay=case0)
        if dc is None or dc not in db.categories_to_quantity_types:
            ctx.violation("unit-without-existing-default-category:%s" % u, dict(case0, default_category=dc), replay=case0)
            continue
        if db.GetCategoryQuantityType(dc) != qt:
            ctx.violation("default-category-of-another-quantity-type:%s" % u, dict(case0, default_category=dc, its_type=db.GetCategoryQuantityType(dc)), replay=case0)
            continue
        cats = cbt.get(qt, [])
        others = [c for c in cats if c != dc]
        v = VALUES[idx % len(VALUES)] if quick else None
        vs = [v] if quick else VALUES
        kinds = ["list", "tuple", "nd"]
        kind = kinds[idx % 3]
        for v in vs:
            vals = [v, 1.0, -2.0]
            case = dict(case0, category=dc, value=v)
            # pass 1: unit-only forms first (nothing of this unit interned yet on this database)
            first = compare_forms(ctx, scalar_forms(u, dc, v, True)[::-1], case, "Scalar")
            # explicit forms under the other categories of the type (this is what may disturb interning)
            for c2 in others:
                case2 = dict(case0, category=c2, value=v)
                compare_forms(ctx, scalar_forms(u, c2, v, False), case2, "Scalar")
                ctx.nt((u, c2))
                if True:
                    fa, ga = array_forms(u, c2, vals, kind, False)
                    compare_forms(ctx, fa, case2, "Array[%s]" % kind)
                    compare_forms(ctx, ga, case2, "FixedArray[%s]" % kind)
                    compare_forms(ctx, fraction_forms(u, c2, v, False), case2, "FractionScalar")
                    compare_forms(ctx, fraction_forms(u, c2, v, False, True), case2, "FractionScalar(float)")
            # an object of another category built *immediately* before a unit-only one (also across classes): the unit-only
            # object is the default category's whatever was built last
            from barril.units import Array as _A, FractionScalar as _F

            for c2 in others[:2]:
                for prev, nxt, tag in (
                    (lambda: Scalar(c2, v, u), lambda: Scalar(v, u), "Scalar after Scalar"), (lambda: _A(c2, [v, 1.0], u), lambda: _F(v, u), "FractionScalar after Array"),
                    (lambda: Scalar(v, u, c2), lambda: _A([v, 2.0], u), "Array after Scalar"),
                ):  # fmt: skip
                    ctx.ev()
                    try:
                        prev()
                        o = nxt()
                        if o.GetCategory() != dc:
                            ctx.violation("unit-only-object-takes-the-category-of-the-object-built-before-it:%s" % tag, dict(case, built_before_under=c2, got=o.GetCategory(), default_category=dc), replay=case)
                    except Exception as e:
                        ctx.violation("unit-only-form-raised:%s" % type(e).__name__, dict(case, sequence=tag, error=str(e)[:160]), replay=case)
            # ... and captioned requests for the same unit (they are other quantities; they must not take over
            # the entry the unit-only forms resolve to)
            try:
                ObtainQuantity(u, None, "a caption")
                ObtainQuantity(u, dc, "another caption")
            except Exception as e:
                ctx.violation("ObtainQuantity-with-caption-raised:%s" % type(e).__name__, dict(case, error=str(e)[:160]), replay=case)
            # pass 2: everything again under the default category, unit-only forms included
            again = compare_forms(ctx, scalar_forms(u, dc, v, True), case, "Scalar")
            if first is not None and again is not None:
                why = same(first, again)
                if why:
                    ctx.violation("Scalar:unit-only-form-depends-on-what-was-built-before", dict(case, before=repr(first), after=repr(again), why=why), replay=case)
            for k in kinds if not quick else [kind]:
                fa, ga = array_forms(u, dc, vals, k, True)
                compare_forms(ctx, fa, case, "Array[%s]" % k)
                compare_forms(ctx, ga, case, "FixedArray[%s]" % k)
            compare_forms(ctx, fraction_forms(u, dc, v, True), case, "FractionScalar")
            compare_forms(ctx, fraction_forms(u, dc, v, True, True), case, "FractionScalar(float)")
            ctx.nt((u, dc))
            # repr round trip (also when the value arrived as a numpy scalar: a Scalar holds a plain float)
            import numpy as np

            for vv, nm in ((np.float64(v), "np.float64"), (np.float32(2.5), "np.float32"), (np.int64(3), "np.int64"), (7, "int"),
                           (0.1 + 0.2, "17-digit float"), (1.1 * 1.1, "17-digit float"), (r.random() * 10 ** r.randint(-8, 8), "random float"), (-r.random(), "random float"),
                           (5e-324, "tiny float"), (1.7976931348623157e308, "huge float")):  # fmt: skip
                ctx.ev()
                sv = Scalar(vv, u)
                try:
                    back = eval(repr(sv), {"Scalar": Scalar, "inf": float("inf"), "nan": float("nan")})
                    why = same(sv, back)
                    if why or not same(sv, Scalar(float(vv), u)) is None:
                        ctx.violation("repr-does-not-evaluate-back-to-an-equal-Scalar:%s-value" % nm, dict(case, repr=repr(sv), why=why), replay=case)
                except Exception as e:
                    ctx.violation("repr-raised-or-does-not-evaluate:%s:%s-value" % (type(e).__name__, nm), dict(case, error=str(e)[:160]), replay=case)
            ctx.ev()
            s = Scalar(v, u)
            try:
                back = eval(repr(s), {"Scalar": Scalar, "inf": float("inf"), "nan": float("nan")})
                why = same(s, back)
                if why:
                    ctx.violation("repr-does-not-evaluate-back-to-an-equal-Scalar", dict(case, repr=repr(s), why=why), replay=case)
            except Exception as e:
                ctx.violation("repr-raised-or-does-not-evaluate:%s" % type(e).__name__, dict(case, error=str(e)[:160]), replay=case)
            for c2 in others[:1]:
                ctx.ev()
                s2 = Scalar(c2, v, u)
                try:
                    back = eval(repr(s2), {"Scalar": Scalar})
                    why = same(s2, back)
                    if why:
                        ctx.violation("repr-does-not-evaluate-back-to-an-equal-Scalar", dict(case, category=c2, repr=repr(s2), why=why), replay=case)
                except Exception as e:
                    ctx.violation("repr-raised-or-does-not-evaluate:%s" % type(e).__name__, dict(case, category=c2, error=str(e)[:160]), replay=case)


def category_sweep(ctx, db, only=None, tag=""):
    from barril.basic.fraction import FractionValue
    from barril.units import Array, FixedArray, FractionScalar, Scalar

    for idx, c in enumerate(list(db.IterCategories())):
        if (idx % ctx.nshards != ctx.shard) if only is None else (c not in only):
            continue
        ci = db.GetCategoryInfo(c)
        du, dv = db.GetDefaultUnit(c), db.GetDefaultValue(c)
        case = {"category": c, "default_unit": du, "default_value": dv}
        ctx.nt(("category", c))
        pairs = [
            ("Scalar", lambda: Scalar(c), lambda: Scalar(c, dv, du)),
            ("Scalar(category=)", lambda: Scalar(category=c), lambda: Scalar(dv, du, c)),
            ("FractionScalar", lambda: FractionScalar(c), lambda: FractionScalar(c, dv, du)),
            ("Array", lambda: Array(c), lambda: Array(c, [], du)),
            ("FixedArray", lambda: FixedArray(3, c), lambda: FixedArray(3, c, [0.0, 0.0, 0.0], du)),
            ("Scalar(c,unit=du)", lambda: Scalar(c, unit=du), lambda: Scalar(c, dv, du)),
        ]
        for name, f1, f2 in pairs:
            ctx.ev()
            try:
                a, b = f1(), f2()
            except Exception as e:
                ctx.violation("category-default:%s-raised:%s" % (name, type(e).__name__), dict(case, error=str(e)[:160]), replay=case)
                continue
            why = same(a, b)
            if why:
                ctx.violation("category-default:%s-differs-from-default-value-and-unit%s" % (name, tag), dict(case, bare=repr(a)[:120], explicit=repr(b)[:120], why=why), replay=case)
            # a caller that fills in the container of the object it was given (a point built from its category, then its
            # coordinates written into it) has changed that object - not what the next bare-category object is built with
            if name in ("Array", "FixedArray") and idx % 5 == 0:
                ctx.ev()
                try:
                    vals = a.GetValues()
                    if isinstance(vals, list):
                        if vals:
                            vals[0] = 1.5
                        vals.append(7.0)
                    a2, b2 = f1(), f2()
                    why = same(a2, b2)
                    if why:
                        ctx.violation("category-default:%s-built-after-a-caller-filled-in-an-earlier-one-differs" % name, dict(case, bare=repr(a2)[:120], explicit=repr(b2)[:120], why=why), replay=case)
                except Exception as e:
                    ctx.violation("category-default:%s-raised-after-a-caller-filled-in-an-earlier-one:%s" % (name, type(e).__name__), dict(case, error=str(e)[:160]), replay=case)


def category_sweep_under_a_unit_system(ctx, db):
    """The same bare-category forms while the application has a *current unit system* that shows these categories in another
    unit than their default one: what an object built from its category alone holds is the category's default value in the
    category's default unit - a unit system re-expresses amounts on request, it does not change what the forms build."""
    from barril.units.unit_system_manager import UnitSystemManager

    cats = list(db.IterCategories())
    mapping = {}
    for c in cats[ctx.shard :: max(1, ctx.nshards)]:
        du = db.GetDefaultUnit(c)
        others = [u for u in db.GetValidUnits(c) if u != du]
        if others and db.GetCategoryQuantityType(c) != "Unknown":
            mapping[c] = others[0]
    m = UnitSystemManager()
    UnitSystemManager.PushSingleton(m)
    try:
        m.AddUnitSystem("c19", "C19", dict(mapping))
        m.SetCurrent(m.GetUnitSystemById("c19"))
        ctx.count("categories shown in another unit by the current unit system", len(mapping))
        category_sweep(ctx, db, only=set(mapping), tag=" (a unit system is current)")
    finally:
        UnitSystemManager.PopSingleton()


def value_kinds(ctx, db):
    """The amount handed over as every kind of number Python and numpy have (a 0-d array, narrow floats, numpy ints and bools,
    Decimal, Fraction): a kind of number is acceptable to every form or to none, and where it is, the forms build equal objects."""
    import decimal
    import fractions

    import numpy as np

    kinds = [("0-d ndarray", np.array(2.5)), ("np.float32", np.float32(2.5)), ("np.float64", np.float64(2.5)), ("np.int64", np.int64(3)), ("bool", True), ("np.bool_", np.bool_(True)), ("Decimal", decimal.Decimal("2.5")),
             ("Fraction", fractions.Fraction(5, 2)), ("int", 3), ("np.uint8", np.uint8(7)), ("np.float16", np.float16(0.5))]  # fmt: skip
    for u, c in (("cm", "length"), ("degC", "temperature"), ("psi", "pressure"), ("1000ft3/d", "volume flow rate")):
        for kname, v in kinds:
            out = []
            for name, fn in scalar_forms(u, c, v, True):
                ctx.ev()
                try:
                    out.append((name, "ok", fn()))
                except Exception as e:
                    out.append((name, "exc", type(e).__name__))
            oks, excs = [o for o in out if o[1] == "ok"], [o for o in out if o[1] == "exc"]
            case = {"unit": u, "category": c, "value kind": kname}
            ctx.nt(("value kind", u, kname, bool(oks)))
            if oks and excs:
                ctx.violation("Scalar:a-kind-of-number-is-accepted-by-some-forms-and-refused-by-others", dict(case, refused_by=[[e[0], e[2]] for e in excs][:4], accepted_by=[o[0] for o in oks][:3]), replay=None)
            for name, _ok, o in oks[1:]:
                why = same(oks[0][2], o)
                if why:
                    ctx.violation("Scalar:forms-differ:%s<>%s" % (oks[0][0], name), dict(case, a=repr(oks[0][2])[:120], b=repr(o)[:120], why=why), replay=None)
    ctx.count("kinds of number handed to every Scalar form", len(kinds) * 4)


def rows_and_subclasses(ctx, db):
    """Two corners of the forms: containers that are rows of values (the dimension of a FixedArray is the number of rows, also
    when it is not told), and an application subclass of Scalar, whose repr evaluates back to an equal object of its class."""
    from barril.units import Scalar

    for u, c in (("m", "length"), ("degC", "temperature"), ("1000ft3/d", "volume flow rate")):
        for kind in ("rows", "rows-tuple", "rows-lists"):
            for vals in ([1.0, 2.0, 3.0], [5.0, -1.0], [1.0, 2.0, 3.0, 4.0, 5.0]):
                case = {"unit": u, "category": c, "container": kind, "rows": len(vals)}
                ctx.nt(("rows", u, kind, len(vals)))
                fa, ga = array_forms(u, c, vals, kind, True)
                compare_forms(ctx, fa, case, "Array[%s]" % kind)
                compare_forms(ctx, ga, case, "FixedArray[%s]" % kind)

    class AppScalar(Scalar):
        pass

    for u, c, v in (("m", "length", 2.5), ("degC", "temperature", -40.0), ("1000ft3/d", "volume flow rate", 7.0), ("psi", "pressure", 0.0)):
        ctx.ev()
        case = {"unit": u, "category": c, "value": v, "class": "an application subclass of Scalar"}
        try:
            x = AppScalar(c, v, u)
            back = eval(repr(x), {"Scalar": Scalar, "AppScalar": AppScalar})
            if type(back) is not AppScalar or not (back == x) or back != x:
                ctx.violation("Scalar:eval-repr-of-a-subclass-instance-is-another-object", dict(case, repr=repr(x), evaluates_to=repr(back), its_class=type(back).__name__))
            forms = [("cls(c,v,u)", x), ("cls(v,u,c)", AppScalar(v, u, c)), ("cls.CreateWithQuantity", AppScalar.CreateWithQuantity(x.GetQuantity(), v)), ("x.CreateCopy()", x.CreateCopy()), ("cls((v,u))", AppScalar((v, u)))]
            for name, o in forms[1:]:
                if type(o) is not AppScalar or same(x, o):
                    ctx.violation("Scalar:forms-differ:cls(c,v,u)<>%s" % name, dict(case, a=repr(x), b=repr(o), b_class=type(o).__name__))
        except Exception as e:
            ctx.violation("Scalar:subclass-form-raised:%s" % type(e).__name__, dict(case, error=str(e)[:160]))
    ctx.count("application subclasses of Scalar through the forms", 4)


def cleared_and_refilled(ctx):
    """One database object used, emptied (`Clear`) and filled again with a table that gives a unit *another* default category:
    the unit-only forms build what the table says now, like the explicit forms."""
    from barril.units import Scalar, UnitDatabase

    db = UnitDatabase()
    with table.pushed(db):
        for generation, own_cat in ((1, "duration"), (2, None), (3, "spell")):
            if generation > 1:
                db.Clear()
            db.AddUnitBase("time", "second", "s")
            db.AddUnit("time", "minute", "min", "%f/60.0", "%f*60.0", default_category=own_cat)
            db.AddUnitBase("length", "metre", "m")
            db.AddCategory("time", "time")
            db.AddCategory("length", "length")
            if own_cat:
                db.AddCategory(own_cat, "time", default_unit="min")
            for u, c in (("min", own_cat or "time"), ("s", "time"), ("m", "length")):
                for v in (1.0, -2.5):
                    case = {"database": "emptied and filled again", "generation": generation, "unit": u, "category": c, "value": v}
                    ctx.nt(("refilled", generation, u))
                    # (the unit-only forms first: that is when they are remembered on their own)
                    compare_forms(ctx, scalar_forms(u, c, v, True)[::-1], case, "Scalar")
                    fa, ga = array_forms(u, c, [v, 2.0, 3.0], "list", True)
                    compare_forms(ctx, fa, case, "Array[list]")
                    compare_forms(ctx, ga, case, "FixedArray[list]")
                    compare_forms(ctx, fraction_forms(u, c, v, True), case, "FractionScalar")
                    ctx.ev()
                    if Scalar(v, u).GetCategory() != c:
                        ctx.violation("Scalar:unit-only-form-builds-the-default-category-of-an-earlier-table", dict(case, got=Scalar(v, u).GetCategory()))
    ctx.count("generations of one database object")


def registered_later(ctx):
    """The forms on a database built by hand, in the orders a program may register things: units first, then questions
    about them (which find no category yet - unit-only forms fail, as they must), then the categories; or categories
    re-registered; every unit has a default category *now*, so every form must build, and build equal objects."""
    from barril.units import Scalar, UnitDatabase

    for order in ("questions before the categories", "categories first", "a category registered again", "the same definitions registered again", "a symbol used as a legacy spelling, then registered as a unit",
                  "questions between the categories"):  # fmt: skip
        db = UnitDatabase()
        with table.pushed(db):
            db.AddUnitBase("length", "metre", "m")
            db.AddUnit("length", "centimetre", "cm", "%f*100.0", "%f/100.0")
            db.AddUnitBase("time", "second", "s")
            db.AddUnit("time", "minute", "min", "%f/60.0", "%f*60.0", default_category="duration")
            # a symbol that reads like a legacy spelling of something else, registered as a unit of its own
            db.AddUnitBase("dynamic viscosity", "pascal second", "Pa.s")
            if order != "a symbol used as a legacy spelling, then registered as a unit":
                db.AddUnit("dynamic viscosity", "newton second per square metre (old symbol)", "Ns/m2", "%f*2.0", "%f/2.0")
            else:
                # the current spellings those two old symbols stand for are units here
                db.AddUnit("dynamic viscosity", "newton second per square metre", "N.s/m2", "%f", "%f")
                db.AddUnitBase("volume", "cubic metre", "m3")
                db.AddUnit("volume", "thousand cubic feet", "Mcf", "%f/28.316846592", "%f*28.316846592")
            if order == "questions before the categories":
                # (no unit is registered after the questions: a later AddUnit may reset what the questions left behind)
                for u in ("m", "cm", "s", "min", "Ns/m2"):
                    ctx.ev()
                    try:
                        db.GetDefaultCategory(u)
                        Scalar(1.0, u)
                    except Exception:
                        pass  # no category yet: a refusal is what is due
            db.AddCategory("length", "length")
            db.AddCategory("time", "time")
            if order == "questions between the categories":
                # the categories named after the quantity types exist, the one the unit 'min' names as its own does not yet
                from barril.units import Array as _Ar, FractionScalar as _Fs, ObtainQuantity as _Oq

                for ask in (lambda: db.GetDefaultCategory("min"), lambda: Scalar(1.0, "min"), lambda: _Oq("min"), lambda: _Ar([1.0], "min"), lambda: _Fs(1.5, "min"), lambda: Scalar((1.0, "min")), lambda: _Oq("min", None, "cap")):
                    ctx.ev()
                    try:
                        ask()
                        ctx.count("hand-built: questions about a unit whose own category is not registered yet that were answered")
                    except Exception:
                        ctx.count("hand-built: questions about a unit whose own category is not registered yet that were refused")
            db.AddCategory("duration", "time", valid_units=["min", "s"], default_unit="min")
            db.AddCategory("dynamic viscosity", "dynamic viscosity")
            if "volume" in db.quantity_types:
                db.AddCategory("volume", "volume")
            pairs = (("m", "length"), ("cm", "length"), ("s", "time"), ("min", "duration"), ("Ns/m2", "dynamic viscosity"), ("Pa.s", "dynamic viscosity"))
            kept = []
            if order == "a symbol used as a legacy spelling, then registered as a unit":
                # while 'Ns/m2' is no unit here it reads as the old spelling of 'N.s/m2'... of nothing registered, or of 'Pa.s'
                # wherever the library resolves it; every way of asking is tried, then the symbol becomes a unit of its own
                from barril.units import Array, ObtainQuantity

                for ask in (lambda: Scalar(1.0, "Ns/m2"), lambda: ObtainQuantity("Ns/m2"), lambda: Array([1.0], "Ns/m2"), lambda: Scalar("dynamic viscosity", 1.0, "Ns/m2"),
                            lambda: db.GetDefaultCategory("Ns/m2"), lambda: ObtainQuantity("Ns/m2", None, "a caption"), lambda: Scalar(1.0, "1000ft3"), lambda: ObtainQuantity("1000ft3")):  # fmt: skip
                    ctx.ev()
                    try:
                        ask()
                        ctx.count("hand-built: questions about a symbol not registered yet that were answered")
                    except Exception:
                        ctx.count("hand-built: questions about a symbol not registered yet that were refused")
                db.AddUnit("dynamic viscosity", "newton second per square metre (old symbol)", "Ns/m2", "%f*2.0", "%f/2.0")
                db.AddUnit("volume", "a thousand cubic feet (old symbol)", "1000ft3", "%f/28.0", "%f*28.0")
                pairs = pairs + (("1000ft3", "volume"), ("Mcf", "volume"), ("N.s/m2", "dynamic viscosity"))
            if order == "the same definitions registered again":
                # objects built before a registration that changes no definition are equal to the same forms built after it
                def build_all(u, c):
                    out = []
                    for n, f in scalar_forms(u, c, 1.0, True) + array_forms(u, c, [1.0, 2.0, 3.0], "list", True)[0]:
                        try:
                            out.append((n, f()))
                        except Exception as e:
                            ctx.violation("hand-built:form-raised:%s:%s" % (n, type(e).__name__), {"unit": u, "category": c, "form": n, "error": str(e)[:160]})
                    return out

                for u, c in pairs:
                    kept.append((u, c, build_all(u, c)))
                db.AddCategory("length", "length", override=True)
                db.AddCategory("time", "time", override=True)
                db.AddCategory("duration", "time", valid_units=["min", "s"], default_unit="min", override=True)
                db.AddCategory("dynamic viscosity", "dynamic viscosity", override=True)
                for u, c, before in kept:
                    after = dict(build_all(u, c))
                    for n, o in before:
                        ctx.ev()
                        if n not in after:
                            continue
                        why = same(o, after[n])
                        if why:
                            ctx.violation("hand-built:object-built-before-an-unchanged-re-registration-differs-from-the-one-built-after", {"unit": u, "category": c, "form": n, "before": repr(o)[:100], "after": repr(after[n])[:100], "why": why})
            if order == "a category registered again":
                for u in ("m", "cm", "s", "min"):
                    Scalar(1.0, u)
                # (the bare-category forms were used before as well; one re-registration changes nothing but the default value)
                from barril.units import FixedArray as _Fa, FractionScalar as _Fs2

                for c_ in ("length", "time", "duration"):
                    Scalar(c_), _Fs2(c_), _Fa(2, c_), Scalar(c_, unit=db.GetDefaultUnit(c_))
                db.AddCategory("time", "time", override=True, default_value=5.5)  # (not a whole number: a fractional amount reads it as it is)
                category_sweep(ctx, db, only={"time"}, tag=" (after the category was registered again with another default value)")
                db.AddCategory("length", "length", override=True, default_unit="cm")
                db.AddCategory("duration", "time", override=True, default_value=-2.25)
                category_sweep(ctx, db, only={"length", "time", "duration", "dynamic viscosity"}, tag=" (after the category was registered again)")
            for u, c in pairs:
                for v in (1.0, -2.5):
                    case = {"database": "hand-built", "order": order, "unit": u, "category": c, "value": v}
                    ctx.nt(("hand-built", order, u))
                    compare_forms(ctx, scalar_forms(u, c, v, True), case, "Scalar")
                    fa, ga = array_forms(u, c, [v, 2.0, 3.0], "list", True)
                    compare_forms(ctx, fa, case, "Array[list]")
                    compare_forms(ctx, ga, case, "FixedArray[list]")
                    compare_forms(ctx, fraction_forms(u, c, v, True), case, "FractionScalar")


def walk_orders(ctx):
    """The unit-only forms asked *first* for every unit, the table walked in other orders than the one it is written in (from
    its last row to the first, units with a category of their own before the rest, shuffled) on a database fresh for the
    walk: what a unit-only form builds is the unit's default category from the table entry whatever was asked before."""
    from barril.units import Array, FractionScalar, Scalar

    r = ctx.rng("walk")
    orders = ["last row first", "units with a default category of their own first", "shuffled", "shuffled again"]
    for oi, order in enumerate(orders):
        if oi % ctx.nshards != ctx.shard % len(orders) or (ctx.shard >= len(orders)):
            continue
        db = table.build("posc")
        with table.pushed(db):
            units = [(qt, u) for qt, us in table.units_by_type(db).items() for u in us if qt != "Unknown"]
            if order == "last row first":
                units = units[::-1]
            elif order.startswith("units with"):
                units = sorted(units, key=lambda t: (db.unit_to_unit_info[t[1]].default_category in (None, t[0]),))
            else:
                r.shuffle(units)
            n = 0
            for i, (qt, u) in enumerate(units):
                info_ = db.unit_to_unit_info[u]
                dc = info_.default_category or (qt if qt in db.categories_to_quantity_types else None)
                if dc is None:
                    continue
                case = {"unit": u, "qt": qt, "walk": order, "category": dc}
                ctx.ev()
                n += 1
                try:
                    first = [Scalar(2.5, u), Array([2.5, 1.0], u), FractionScalar(2.5, u), Scalar((2.5, u))][: 4 if i % 7 == 0 else 1]
                    ref = Scalar(dc, 2.5, u)
                    bad = [type(o).__name__ for o in first if o.GetCategory() != dc or o.GetUnit() != u or o.GetQuantity() != ref.GetQuantity()]
                    if bad or not (first[0] == ref) or first[0] != ref:
                        ctx.violation("walk:unit-only-form-differs-from-the-explicit-default-category-form", dict(case, got=[o.GetCategory() for o in first], classes=bad), replay={"unit": u, "qt": qt})
                except Exception as e:
                    ctx.violation("walk:form-raised:%s" % type(e).__name__, dict(case, error=str(e)[:160]), replay={"unit": u, "qt": qt})
            ctx.count("units asked first by a unit-only form in a walk (%s)" % order, n)


def run(ctx):
    from barril.units import AbstractValueWithQuantityObject, ObtainQuantity, Scalar

    probe.install()
    probe.reach([AbstractValueWithQuantityObject.__init__, AbstractValueWithQuantityObject.CreateWithQuantity, ObtainQuantity, Scalar.__repr__, Scalar._InternalCreateWithQuantity])
    quick = ctx.tier == "quick"
    ctx.rule = (
        "every unit of the shipped table x {default category + %s} (all (unit, category of the same type) pairs) x %s: 9 Scalar forms, 6 Array and 5 FixedArray forms (container %s), 5 FractionScalar forms compared pairwise (==, !=, unit, category, "
        "type, quantity, dimension); unit-only forms evaluated before and after the explicit-category forms of the other categories on a database fresh for the shard; eval(repr(Scalar)); every category: bare-category "
        "object vs explicit default value + default unit for Scalar, FractionScalar, Array, FixedArray. distinct = (unit, category) pairs and categories"
        % ("all categories of the quantity type", "1 rotating value" if quick else "5 values", "rotating" if quick else "list, tuple, ndarray")
    )
    ctx.assumptions = ["equality is the classes' own ==; floats are finite", "the table dimension is exhaustive (all units, all categories); values and container kinds are sampled"]
    ctx.exhaustive = True
    db = table.build("posc")
    with table.pushed(db):
        unit_sweep(ctx, db, ctx.rng("c19"))
        category_sweep(ctx, db)
        category_sweep_under_a_unit_system(ctx, db)
        if ctx.shard == 0:
            value_kinds(ctx, db)
            rows_and_subclasses(ctx, db)
        if ctx.shard == 0:
            ctx.sample({"unit": "cP", "default category": db.GetDefaultCategory("cP"), "forms": [n for n, _ in scalar_forms("cP", "x", 1.0, True)]})
    if ctx.shard == 0:
        registered_later(ctx)
        cleared_and_refilled(ctx)
    walk_orders(ctx)
    ctx.inconclusive_if(probe.BOUNDARY["Scalar.__init__"] < 1000, "Scalar constructor reached fewer than 1000 times")


def replay(ctx, d):
    probe.install()
    db = table.build("posc")
    with table.pushed(db):
        if d and "unit" in d:
            u, qt = d["unit"], d["qt"]
            dc = db.GetDefaultCategory(u)
            v = d.get("value", 2.5)
            cats = [c for c in table.categories_by_type(db).get(qt, []) if c != dc]
            first = compare_forms(ctx, scalar_forms(u, dc, v, True)[::-1], d, "Scalar")
            for c2 in cats:
                compare_forms(ctx, scalar_forms(u, c2, v, False), dict(d, category=c2), "Scalar")
            again = compare_forms(ctx, scalar_forms(u, dc, v, True), d, "Scalar")
            if first is not None and again is not None and same(first, again):
                ctx.violation("Scalar:unit-only-form-depends-on-what-was-built-before", dict(d, before=repr(first), after=repr(again)))
            for k in ("list", "tuple", "nd"):
                fa, ga = array_forms(u, dc, [v, 1.0, -2.0], k, True)
                compare_forms(ctx, fa, d, "Array[%s]" % k)
                compare_forms(ctx, ga, d, "FixedArray[%s]" % k)
            compare_forms(ctx, fraction_forms(u, dc, v, True), d, "FractionScalar")
        else:
            category_sweep(ctx, db)
