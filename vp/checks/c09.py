"""C09 - plain numbers act as dimensionless operands and never strip the unit (DESIGN.md 4, C09)."""
import math
import operator

from .. import probe
from ..models import conv, dims
from ..workloads import programs, table

SHARDS = {"quick": 4, "thorough": 16}
WATCHDOG_S = {"quick": 900, "thorough": 7200}
FLOORS = (5000, 300)

# (label, function(x, k), keeps x's quantity?)
FORMS = [
    ("k*x", lambda x, k: k * x, True), ("x*k", lambda x, k: x * k, True), ("x/k", lambda x, k: x / k, True),
    ("x//k", lambda x, k: x // k, True), ("x+k", lambda x, k: x + k, True), ("k+x", lambda x, k: k + x, True),
    ("x-k", lambda x, k: x - k, True), ("k-x", lambda x, k: k - x, True), ("k/x", lambda x, k: k / x, False),
    ("k//x", lambda x, k: k // x, False),
]  # fmt: skip
VALUE_OPS = {
    "k*x": lambda v, k: k * v, "x*k": lambda v, k: v * k, "x/k": lambda v, k: v / k, "x//k": lambda v, k: v // k,
    "x+k": lambda v, k: v + k, "k+x": lambda v, k: k + v, "x-k": lambda v, k: v - k, "k-x": lambda v, k: k - v,
    "k/x": lambda v, k: k / v, "k//x": lambda v, k: k // v,
}  # fmt: skip


def number_kinds(r):
    import numpy as np

    base = r.choice([2, 3, 1, 7, 10])
    fl = r.choice([2.0, 0.5, 1.0, 3.0, 0.1, 0.2, 0.3, 0.7, 2.5])
    return [
        ("int", base), ("float", fl), ("bool", True), ("np.float64", np.float64(fl)), ("np.float32", np.float32(r.choice([2.0, 0.5, 1.5]))),
        ("np.int64", np.int64(base)), ("np.int32", np.int32(base)), ("negative float", -fl), ("float one", 1.0),
        # the neutral / absorbing elements are where shortcuts hide
        # unsigned and smallest-signed numpy integers (negating or subtracting them inside their own type wraps around)
        ("np.uint8", np.uint8(2)), ("np.uint16", np.uint16(7)), ("np.uint64", np.uint64(3)), ("np.int8 lowest", np.int8(-128)),
        ("int zero", 0), ("float zero", 0.0), ("np.float64 zero", np.float64(0.0)), ("np.int32 zero", np.int32(0)), ("int one", 1), ("int minus one", -1), ("False", False),
    ]  # fmt: skip


def _r(o):
    """repr for the evidence: a value object whose own repr raises is still named"""
    try:
        return repr(o)
    except Exception as e:
        return "<%s whose repr raised %s>" % (type(o).__name__, type(e).__name__)


def same(a, b):
    # (Python compares an int with a float exactly: 2**53 + 1 is not 9007199254740992.0 - a result that went through float() shows)
    if isinstance(a, int) or isinstance(b, int):
        try:
            return bool(a == b)
        except Exception:
            pass
    a, b = float(a), float(b)
    return a == b or (a != a and b != b)


def check(ctx, x, xvals, kname, k, case, is_array, elementwise_k=None):
    """x: barril object, xvals: its plain values (list), k: the plain operand."""
    import numpy as np
    from barril.units import Array, FixedArray, Scalar

    q = x.GetQuantity()
    items = dims.items_of(q)
    if (kname.startswith("np.uint") or kname == "np.int8 lowest") and not all(isinstance(v, float) for v in xvals):
        return  # a Python int met by a narrow numpy integer is numpy's business (it refuses -7 for a uint8), not the library's
    for label, fn, keeps in FORMS:
        ctx.ev()
        key_cls = type(x).__name__
        c = dict(case, form=label, k_kind=kname, k=repr(k)[:60])
        try:
            r = fn(x, k)
        except ZeroDivisionError:
            continue
        except Exception as e:
            ctx.violation("raised:%s:%s:%s" % (key_cls, label, kname.split("[")[0]), dict(c, error="%s: %s" % (type(e).__name__, str(e)[:160])), replay=c)
            continue
        if not isinstance(r, type(x)):
            ctx.violation("unit-stripped:%s:%s:%s" % (key_cls, label, kname.split("[")[0]), dict(c, got_type=type(r).__name__, got=_r(r)[:120]), replay=c)
            continue
        rq = r.GetQuantity()
        if keeps:
            if rq != q:
                ctx.violation("quantity-changed:%s:%s" % (key_cls, label), dict(c, got=repr(rq), want=repr(q)), replay=c)
        else:
            want = [(cc, u, -e) for cc, u, e in items]
            got = dims.items_of(rq)
            if sorted(got) != sorted(want):
                ctx.violation("not-reciprocal:%s:%s" % (key_cls, label), dict(c, got=got, want=want), replay=c)
        if isinstance(x, FixedArray) and r.dimension != x.dimension:
            ctx.violation("dimension-changed:%s" % label, dict(c, got=r.dimension), replay=c)
        got_vals = [r.GetValue()] if isinstance(r, Scalar) else list(r.GetValues())  # (as they are held: an int stays an int)
        vop = VALUE_OPS[label]
        try:
            if elementwise_k is not None:
                want_vals = [vop(v, kk) for v, kk in zip(xvals, elementwise_k)]
            else:
                want_vals = [vop(v, k) for v in xvals]
        except ZeroDivisionError:
            continue
        if kname == "np.float32":
            # whether float32 (op) python float is evaluated in single or double precision is numpy's
            # promotion rule, not barril's: accept either precision; floor forms sit on rounding edges
            if "//" in label:
                continue
            # "either precision" means: within single precision of the *operands* (a + or - may cancel, and a
            # value below float32's normal range is subnormal there): 2^-22 x (|k| + |stored value| + |result|),
            # or equal to the double-precision result of float(k)
            k64 = float(k)
            ok = len(got_vals) == len(want_vals)
            for g, w, v in zip(got_vals, want_vals, xvals):
                g, w = float(g), float(w)
                try:
                    w64 = float(vop(float(v), k64))
                except ZeroDivisionError:
                    w64 = w
                slack = 2.0**-22 * (abs(k64) + abs(float(v)) + abs(w64))
                if not (same(g, w) or same(g, w64) or abs(g - w) <= slack or abs(g - w64) <= 2.0**-22 * abs(w64)):
                    ok = False
        else:
            ok = len(got_vals) == len(want_vals) and all(same(g, w) for g, w in zip(got_vals, want_vals))
        if not ok:
            ctx.violation("value:%s:%s:%s" % (key_cls, label, kname.split("[")[0]), dict(c, got=got_vals[:6], want=[float(w) for w in want_vals[:6]], x=_r(x)[:120]), replay=c)


def integer_containers(ctx, r, n_rounds):
    """x holding integers: int64 / int32 ndarrays (a fractional or numpy-float k must not be squeezed into the container's
    dtype) and lists / tuples of python ints, also huge ones (python ints are exact: 2**62 * 4 is 2**64, not 0)."""
    import numpy as np
    from barril.units import Array, FixedArray

    for i in range(n_rounds):
        ints = [r.choice([1, 2, 3, 10, -7, 0, 5]) for _ in range(r.choice([2, 3, 4]))]
        big = [2**62, 1, -(2**61)][: len(ints)] if len(ints) >= 2 else [2**62]
        u = r.choice(["m", "s", "kg", "degC"])
        for label, values in (("ndarray[int64]", np.array(ints, dtype=np.int64)), ("ndarray[int32]", np.array(ints, dtype=np.int32)), ("list of int", list(ints)), ("tuple of int", tuple(ints)), ("list of huge int", list(big)), ("tuple of huge int", tuple(big))):  # fmt: skip
            for cls in (Array, FixedArray):
                x = cls(values, u) if cls is Array else cls(len(values), values, u)
                xvals = list(values)
                case = {"x": _r(x)[:160], "class": cls.__name__, "container": label, "length": len(xvals), "quantity": "simple"}
                ks = number_kinds(r)
                if "huge" in label:
                    ks = [("int", 4), ("huge int", 2**70), ("int minus one", -1), ("float", 2.5), ("int 10**18", 10**18)]
                for kname, k in ks:
                    if kname == "np.float32" or ("int3" in label and isinstance(k, (np.integer,)) and not isinstance(k, np.int32)):
                        continue  # numpy's own promotion / overflow rules between small integer types are numpy's
                    ctx.nt((cls.__name__, label, len(xvals), "integers", kname))
                    check(ctx, x, xvals, kname, k, case, True)


def equal_numbers_of_several_kinds(ctx):
    """x holding, in one list or tuple, numbers that compare equal but are not the same number for arithmetic: a huge int and
    its float (2**53 + 1 is an int only), a numpy.int8 and the Python int (100 * 2 overflows in one, not in the other).
    Every position gets the operation applied to *its* value."""
    import numpy as np
    from barril.units import Array, FixedArray

    big = 2**53
    for u in ("m", "degC"):
        for label, values in (("list: float then int", [float(big), big, 3, 3.0]), ("list: int then float", [big, float(big), 3.0, 3]), ("tuple: float then int", (float(big), big)), ("tuple: int then float", (1, 1.0, big, float(big))),
                              ("list: numpy.int8 then int", [np.int8(100), 100, 7]), ("list: int then numpy.int8", [100, np.int8(100), 7])):  # fmt: skip
            for cls in (Array, FixedArray):
                x = cls(values, u) if cls is Array else cls(len(values), values, u)
                case = {"x": _r(x)[:160], "class": cls.__name__, "container": label, "length": len(values), "quantity": "simple"}
                for kname, k in (("int", 1), ("int 3", 3), ("int 2**53+1", big + 1), ("int minus one", -1), ("float", 2.5), ("int 2", 2)):
                    if "int8" in label and not (isinstance(k, int) and abs(k) <= 3):
                        continue
                    ctx.nt((cls.__name__, label, u, kname))
                    with np.errstate(all="ignore"):
                        import warnings

                        with warnings.catch_warnings():
                            warnings.simplefilter("ignore")
                            check(ctx, x, list(values), kname, k, case, True)


def limited_categories(ctx, db):
    """x in a category that has limits (fractions in 0..1, amounts that cannot be negative, ...): an operation with a plain
    number is arithmetic on the stored value - the result carries x's quantity and the computed value wherever that value
    lies with respect to the limits (whether it is *valid* is what CheckValidity answers, when asked)."""
    import numpy as np
    from barril.units import Array, Scalar

    n = 0
    # (the table's own categories have no limits: an application's categories do)
    for name, qt, kw in (("c09 pipe length", "length", dict(min_value=0.0, max_value=100.0, default_value=10.0)), ("c09 share", "dimensionless", dict(min_value=0.0, max_value=1.0, is_max_exclusive=True, default_value=0.5)),
                         ("c09 absolute temperature", "temperature", dict(min_value=0.0, is_min_exclusive=True, default_value=300.0)), ("c09 depth below", "length", dict(max_value=0.0, default_value=-1.0)),
                         ("c09 rate", "volume flow rate", dict(min_value=-5.0, max_value=5.0, default_value=1.0))):  # fmt: skip
        if name not in db.IterCategories():
            db.AddCategory(name, qt, **kw)
    for c in sorted(db.IterCategories()):
        info = db.GetCategoryInfo(c)
        lo, hi = info.min_value, info.max_value
        if lo is None and hi is None:
            continue
        inside = lo if hi is None else hi if lo is None else (lo + hi) / 2.0
        if lo is not None and hi is None:
            inside = lo + 1.0
        if hi is not None and lo is None:
            inside = hi - 1.0
        u = info.default_unit
        try:
            x = Scalar(c, float(inside), u)
            xa = Array(c, [float(inside), float(inside)], u)
            xn = Array(c, np.array([float(inside)]), u)
        except Exception:
            ctx.count("limited categories whose mid-range amount was refused")
            continue
        n += 1
        case = {"category": c, "limits": [lo, hi], "x": _r(x), "quantity": "simple, limited category"}
        for kname, k in (("float far above", 1.0e7), ("float far below", -1.0e7), ("int", -3), ("np.float64", np.float64(1.0e9)), ("zero", 0.0)):
            ctx.nt(("limited", c, kname))
            check(ctx, x, [x.GetValue()], kname, k, dict(case, **{"class": "scalar"}), False)
            check(ctx, xa, list(xa.GetValues()), kname, k, dict(case, **{"class": "array[list]"}), True)
            check(ctx, xn, list(xn.GetValues()), kname, k, dict(case, **{"class": "array[nd]"}), True)
    ctx.count("categories with limits, operated past them", n)


def rows_of_values(ctx):
    """x holding a 2-d numpy container (rows of values): k as a number, as an array of the same shape, and as one value
    per column - the result keeps x's quantity (reciprocal for k / x) and holds what numpy computes for the stored values."""
    import numpy as np
    from barril.units import Array, FixedArray

    base = np.array([[1.0, 2.0, 4.0], [8.0, 0.5, 10.0]])
    ks = [("float", 2.5), ("np.float64", np.float64(0.5)), ("ndarray of the same shape", np.array([[2.0, 4.0, 8.0], [1.0, 0.5, 5.0]])), ("ndarray, one value per column", np.array([2.0, 4.0, 8.0])), ("int", 3)]
    for cls, mk in (("Array", lambda v, u: Array(v, u)), ("FixedArray", lambda v, u: FixedArray(2, v, u))):
        for u in ("m", "degC", "kg"):
            x = mk(base.copy(), u)
            q = x.GetQuantity()
            for kname, k in ks:
                for label, fn, keeps in FORMS:
                    ctx.ev()
                    ctx.nt((cls, "2-d ndarray", u, kname, label))
                    case = {"x": _r(x)[:120], "class": cls, "container": "2-d ndarray", "k_kind": kname, "form": label}
                    try:
                        r = fn(x, k)
                        want = VALUE_OPS[label](base, k)
                    except Exception as e:
                        ctx.violation("raised:%s:%s:%s" % (cls, label, kname), dict(case, error="%s: %s" % (type(e).__name__, str(e)[:160])), replay=case)
                        continue
                    if not isinstance(r, type(x)):
                        ctx.violation("unit-stripped:%s:%s:%s" % (cls, label, kname), dict(case, got_type=type(r).__name__), replay=case)
                        continue
                    if keeps and r.GetQuantity() != q:
                        ctx.violation("quantity-changed:%s:%s" % (cls, label), dict(case, got=repr(r.GetQuantity()), want=repr(q)), replay=case)
                    got = np.asarray(r.GetValues(), dtype=float)
                    if got.shape != np.asarray(want).shape or not np.array_equal(got, np.asarray(want, dtype=float)):
                        ctx.violation("value:%s:%s:%s" % (cls, label, kname), dict(case, got=repr(got)[:160], want=repr(want)[:160]), replay=case)
            ctx.ev()
            if not np.array_equal(np.asarray(x.GetValues()), base):
                ctx.violation("operand-changed:2-d ndarray", {"class": cls, "unit": u})


def unusual_containers(ctx):
    """containers and operands that are list / tuple / ndarray *subclasses*: a named tuple as x's container (the result holds
    the computed values, whatever tuple type carries them), a masked array as k or as x's container (what is masked stays
    masked, what is not is computed)"""
    import collections

    import numpy as np
    from barril.units import Array, FixedArray

    Point = collections.namedtuple("Point", "x y z")
    base = [1.0, 2.0, 4.0]
    for cls, mk in (("Array", lambda v: Array(v, "m")), ("FixedArray", lambda v: FixedArray(3, v, "m"))):
        x = mk(Point(*base))
        q = x.GetQuantity()
        for kname, k in (("float", 2.5), ("np.float64", np.float64(0.5)), ("int", 3)):
            for label, fn, keeps in FORMS:
                ctx.ev()
                ctx.nt((cls, "named tuple", kname, label))
                case = {"class": cls, "container": "named tuple", "k_kind": kname, "form": label}
                try:
                    r = fn(x, k)
                    want = [VALUE_OPS[label](v, k) for v in base]
                    got = [float(g) for g in r.GetValues()]
                except Exception as e:
                    ctx.violation("raised:%s:%s:%s" % (cls, label, kname), dict(case, error="%s: %s" % (type(e).__name__, str(e)[:160])), replay=case)
                    continue
                if not isinstance(r, type(x)) or (keeps and r.GetQuantity() != q) or got != [float(w) for w in want]:
                    ctx.violation("value:%s:%s:%s" % (cls, label, kname), dict(case, got=got, want=[float(w) for w in want], result=_r(r)[:120]), replay=case)
        mk_masked = lambda: np.ma.masked_array([2.0, 4.0, 8.0], mask=[False, True, False])  # noqa: E731
        for cont, values in (("list", list(base)), ("tuple", tuple(base)), ("ndarray", np.array(base)), ("masked ndarray", np.ma.masked_array(base, mask=[False, False, True]))):
            x = mk(values)
            q = x.GetQuantity()
            ks = [("masked array", mk_masked())] if cont != "masked ndarray" else [("float", 2.5), ("masked array", mk_masked())]
            for kname, k in ks:
                for label, fn, keeps in FORMS:
                    ctx.ev()
                    ctx.nt((cls, cont, kname, label))
                    case = {"class": cls, "container": cont, "k_kind": kname, "form": label}
                    try:
                        r = fn(x, k)
                        want = VALUE_OPS[label](np.ma.masked_array(base, mask=[False, False, True]) if cont == "masked ndarray" else np.array(base), k)
                        got = r.GetValues()
                    except Exception as e:
                        ctx.violation("raised:%s:%s:%s" % (cls, label, kname), dict(case, error="%s: %s" % (type(e).__name__, str(e)[:160])), replay=case)
                        continue
                    ok = isinstance(r, type(x)) and (not keeps or r.GetQuantity() == q) and np.ma.isMaskedArray(got) and np.array_equal(np.ma.getmaskarray(got), np.ma.getmaskarray(want)) and np.ma.allequal(got, want)
                    if not ok:
                        ctx.violation("value:%s:%s:%s" % (cls, label, kname), dict(case, got=repr(got)[:160], want=repr(want)[:160]), replay=case)


def zero_d_containers(ctx):
    """an Array whose container is a 0-d ndarray (one number boxed by numpy): the ten forms with plain numbers answer with an
    Array of x's quantity (reciprocal for k/x, k//x) holding the one computed number"""
    import numpy as np
    from barril.units import Array

    for u, base in (("m", 7.0), ("degC", -40.0), ("s", 0.5)):
        x = Array(np.array(base), u)
        q = x.GetQuantity()
        for kname, k in (("float", 2.5), ("int", 3), ("np.float64", np.float64(0.5)), ("ndarray 0-d", np.array(2.0)), ("bool", True)):
            for label, fn, keeps in FORMS:
                ctx.ev()
                ctx.nt(("0-d container", u, kname, label))
                case = {"class": "Array", "container": "0-d ndarray", "unit": u, "k_kind": kname, "form": label}
                try:
                    r = fn(x, k)
                    want = float(VALUE_OPS[label](base, k))
                    got = float(np.asarray(r.GetValues()).reshape(-1)[0]) if isinstance(r, Array) else None
                except Exception as e:
                    ctx.violation("raised:Array:%s:%s" % (label, kname), dict(case, error="%s: %s" % (type(e).__name__, str(e)[:160])), replay=case)
                    continue
                if not isinstance(r, Array) or (keeps and r.GetQuantity() != q) or got != want:
                    ctx.violation("value:Array:%s:%s" % (label, kname), dict(case, got=got, want=want, result=_r(r)[:120]), replay=case)


def exponent_families(ctx, r, n_families):
    """One process, quantities that differ *only in one exponent* (u/v, u/v2, u/v3, 1/v, 1/v2, u2/v ...), every
    number form applied to each in turn and again in reverse order: whatever a previous operand left behind
    (a memo, an interned result) must not leak into the next one."""
    from barril.units import Array, Scalar

    pairs = [("m", "s"), ("kg", "m"), ("s", "kg"), ("ft", "min"), ("mol", "L"), ("A", "s"), ("K", "m"), ("cm", "h")]
    for _ in range(n_families):
        u, v = r.choice(pairs)
        fam = []
        for eu in (0, 1, 2):
            for ev in (-3, -2, -1, 1, 2):
                def build(cls):
                    one = (lambda x, un: Scalar(x, un)) if cls == "scalar" else (lambda x, un: Array([x, 2 * x], un))
                    acc = None
                    for _i in range(eu):
                        acc = one(2.0, u) if acc is None else acc * one(2.0, u)
                    for _i in range(abs(ev)):
                        f = one(4.0, v)
                        if ev > 0:
                            acc = f if acc is None else acc * f
                        else:
                            acc = (1.0 / f) if acc is None else acc / f
                    return acc
                fam.append((eu, ev, build))
        order = list(range(len(fam)))
        r.shuffle(order)
        for cls in ("scalar", "array"):
            for idxs in (order, order[::-1]):
                for i in idxs:
                    eu, ev, build = fam[i]
                    try:
                        x = build(cls)
                    except Exception:
                        continue
                    xvals = [x.GetValue()] if cls == "scalar" else list(x.GetValues())
                    case = {"x": _r(x)[:120], "class": cls, "family": [u, eu, v, ev]}
                    ctx.nt(("family", cls, u, eu, v, ev))
                    for kname, k in (("int", 3), ("float", 0.5), ("np.float64", __import__("numpy").float64(2.0))):
                        check(ctx, x, xvals, kname, k, case, cls != "scalar")


def run(ctx):
    import numpy as np
    from barril.units import Array, FixedArray, Quantity, Scalar

    probe.install()
    probe.reach([Scalar._DoOperation, Array._DoOperation])
    ctx.rule = (
        "x in {Scalar, Array, FixedArray} x {simple, derived (random trees), empty quantity} x {list, tuple, ndarray, lengths 0..4} ; "
        "k in {int, float, bool, np.float64, np.float32, np.int64, np.int32, negative, 0, 0.0, numpy zeros, 1, -1, False} and for arrays float64/int64 ndarrays of x's length; "
        "all ten operator forms in both operand orders: result is an instance of x's class, quantity = x's (reciprocal dimension for k/x, k//x), "
        "values == the Python/numpy operation applied to the stored value(s) exactly; + families of quantities differing only in one exponent, visited in one process in both orders. distinct non-trivial = (class, container, length, quantity kind, k kind)"
    )
    ctx.assumptions = ["an ndarray operand for a Scalar is ill-typed and excluded", "complex numbers are not examined"]
    r = ctx.rng("c09")
    db = table.build("posc")
    n_rounds = 120 if ctx.tier == "quick" else 2500
    with table.pushed(db):
        T = dims.Table(db, conv.describe(db))
        B = programs.Basis(T, ctx.rng("basis%d" % (ctx.shard % 4)))
        nul = lambda *a: None  # noqa
        for i in range(n_rounds):
            qkind = ("simple", "derived", "empty", "simple", "derived", "unknown with a caption", "unknown")[i % 7]
            n = r.choice([0, 1, 2, 3, 4]) if i % 4 == 0 else r.choice([2, 3])
            raw = [r.choice([1.0, 2.0, 0.5, 0.1, 0.3, 7.0, -3.0, 10.0, 0.7, 2.5]) for _ in range(max(n, 1))]
            spec = B.leaf(r, max(n, 1)) if qkind != "derived" else B.tree(r, 2, max(n, 1))
            spec_vals = None
            for cls in ("scalar", "array", "fixedarray"):
                for cont in ("list", "tuple", "nd"):
                    if cls == "scalar" and cont != "list":
                        continue
                    if cls == "fixedarray" and n < 2:
                        continue
                    try:
                        if qkind.startswith("unknown"):
                            from barril.units import GetUnknownQuantity

                            uq = GetUnknownQuantity("furlong") if "caption" in qkind else GetUnknownQuantity()
                            if cls == "scalar":
                                x = Scalar(uq, raw[0])
                            elif cls == "array":
                                x = Array(uq, programs.make_container(raw[:n], cont))
                            else:
                                x = FixedArray(n, uq, programs.make_container(raw[:n], cont))
                        elif qkind == "empty":
                            if cls == "scalar":
                                x = Scalar.CreateEmptyScalar(raw[0])
                            elif cls == "array":
                                x = Array.CreateEmptyArray(programs.make_container(raw[:n], cont))
                            else:
                                x = FixedArray.CreateEmptyArray(n, programs.make_container(raw[:n], cont))
                        elif qkind == "simple":
                            x = programs.build_leaf(spec, cls, cont, None if cls == "scalar" else n)
                        else:
                            if cls == "fixedarray":
                                y, _m = programs.evaluate(T, spec, "array", cont, nul, n)
                                x = FixedArray.CreateWithQuantity(y.GetQuantity(), y.GetValues(), dimension=n)
                            else:
                                x, _m = programs.evaluate(T, spec, cls, cont, nul, None if cls == "scalar" else n)
                    except programs.Degenerate:
                        continue
                    except programs.EvalError:
                        ctx.count("operands that could not be built")
                        continue
                    xvals = [x.GetValue()] if cls == "scalar" else list(x.GetValues())
                    case = {"x": _r(x)[:160], "class": cls, "container": cont, "length": len(xvals), "quantity": qkind}
                    for kname, k in number_kinds(r):
                        ctx.nt((cls, cont, len(xvals), qkind, kname))
                        check(ctx, x, xvals, kname, k, case, cls != "scalar")
                    if cls == "scalar":
                        # numpy's own idea of a number, a 0-d array, on either side of a Scalar
                        k0 = r.choice([2.0, 0.5, 3.0])
                        for kname, k in (("ndarray[f8] 0-d", np.array(k0)), ("ndarray[i8] 0-d", np.array(int(k0) or 2))):
                            ctx.nt((cls, cont, 1, qkind, kname))
                            check(ctx, x, xvals, kname, k, case, False, elementwise_k=[k[()]])
                        # an array of several numbers with a Scalar: by the statement still "a barril object carrying a unit" (an Array
                        # of x's quantity would be one) - observed and reported under a key of its own (DESIGN.md 9.3)
                        kv = np.array([2.0, 4.0])
                        for side, fn in (("x*k", lambda: x * kv), ("k*x", lambda: kv * x), ("x+k", lambda: x + kv), ("k-x", lambda: kv - x), ("k/x", lambda: kv / x)):
                            ctx.ev()
                            try:
                                res = fn()
                                what = "barril object" if hasattr(res, "GetQuantity") else "bare %s" % type(res).__name__
                            except Exception as e:
                                what = "raised %s" % type(e).__name__
                            ctx.count("Scalar with an ndarray of several numbers: %s -> %s" % (side, what))
                            if what != "barril object":
                                ctx.violation("scalar-with-ndarray-of-several-numbers:%s:%s" % ("array-on-the-right" if side.startswith("x") else "array-on-the-left", what.replace(" ", "-")), dict(case, form=side, outcome=what))
                    if cls != "scalar":
                        kf = np.array([r.choice([2.0, 0.5, 3.0, 0.1]) for _ in xvals], dtype=float)
                        ki = np.array([r.choice([2, 3, 5]) for _ in xvals], dtype=np.int64)
                        # a mask (`values > 0` where all are) and an array of python numbers boxed as objects are unit-less numpy operands too
                        kb = np.array([True for _ in xvals], dtype=bool)
                        ko = np.array([r.choice([2, 0.5, 3]) for _ in xvals], dtype=object)
                        for kname, k in (("ndarray[f8]", kf), ("ndarray[i8]", ki), ("ndarray[bool]", kb), ("ndarray[object]", ko)):
                            ctx.nt((cls, cont, len(xvals), qkind, kname))
                            check(ctx, x, xvals, kname, k, case, True, elementwise_k=list(k))
                        # numpy's own idea of a number: a 0-d array and a one-element array apply to every value
                        k1 = r.choice([2.0, 0.5, 3.0])
                        for kname, k in (("ndarray[f8] 0-d", np.array(k1)), ("ndarray[f8] of one element", np.array([k1])), ("ndarray[i8] of one element", np.array([int(k1) or 2], dtype=np.int64))):
                            if len(xvals) >= 1:
                                ctx.nt((cls, cont, len(xvals), qkind, kname))
                                check(ctx, x, xvals, kname, k, case, True, elementwise_k=[k.reshape(-1)[0]] * len(xvals))
            if i < 2 and ctx.shard == 0:
                ctx.sample({"x": programs.render(spec), "quantity_kind": qkind, "length": n})
        integer_containers(ctx, ctx.rng("ints"), 6 if ctx.tier == "quick" else 80)
        if ctx.shard == 0:
            rows_of_values(ctx)
            unusual_containers(ctx)
            equal_numbers_of_several_kinds(ctx)
        if ctx.shard == 1 % ctx.nshards:
            limited_categories(ctx, db)
        zero_d_containers(ctx)
        exponent_families(ctx, ctx.rng("families"), 12 if ctx.tier == "quick" else 150)
    ctx.inconclusive_if(ctx.counters.get("operands that could not be built", 0) > n_rounds, "barril refused to build %d valid operands" % ctx.counters.get("operands that could not be built", 0))
    ctx.inconclusive_if(probe.COUNTS["Array.__rmul__"] == 0, "Array operators never reached")
    ctx.inconclusive_if(probe.COUNTS["Scalar.__rtruediv__"] == 0 or probe.COUNTS["Array.__rsub__"] == 0, "reflected operators never reached")
