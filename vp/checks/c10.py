"""C10 - Array results equal elementwise Scalar results for every container kind (DESIGN.md 4, C10)."""
import math
import operator

import itertools
from .. import probe
from ..models import conv, dims
from ..workloads import programs, table

SHARDS = {"quick": 4, "thorough": 16}
WATCHDOG_S = {"quick": 900, "thorough": 7200}
FLOORS = (5000, 300)
OPS = {"+": operator.add, "-": operator.sub, "*": operator.mul, "/": operator.truediv, "//": operator.floordiv}
CONTS = ("list", "tuple", "nd")


def slice_spec(spec, i):
    t = spec[0]
    if t == "leaf":
        return ("leaf", spec[1], [spec[2][i]], spec[3])
    if t == "dleaf":
        return ("dleaf", spec[1], [spec[2][i]])
    if t == "**":
        return ("**", slice_spec(spec[1], i), spec[2])
    return (t, slice_spec(spec[1], i), slice_spec(spec[2], i))


def close(g, s):
    g, s = float(g), float(s)
    if g == s or (g != g and s != s):
        return True
    if math.isinf(g) or math.isinf(s):
        return False
    return abs(g - s) <= 4 * math.ulp(max(abs(g), abs(s)))


def one_case(ctx, T, sa, sb, na, nb, opn):
    nul = lambda *a: None  # noqa
    op = OPS[opn]
    case = {"a": programs.render(sa), "b": programs.render(sb), "op": opn, "len_a": na, "len_b": nb}
    # scalar reference, element by element
    ref, ref_exc, refq = [], None, None
    try:
        for i in range(min(na, nb)):
            x, _ = programs.evaluate(T, slice_spec(sa, i), "scalar", "list", nul)
            y, _ = programs.evaluate(T, slice_spec(sb, i), "scalar", "list", nul)
            ref.append(op(x, y))
        x1, _ = programs.evaluate(T, slice_spec(sa, 0), "scalar", "list", nul)
        y1, _ = programs.evaluate(T, slice_spec(sb, 0), "scalar", "list", nul)
        refq = op(x1, y1).GetQuantity()
    except (programs.Degenerate, ZeroDivisionError):
        return False
    except Exception as e:
        ref_exc = e
    for ka in CONTS:
        for kb in CONTS:
            ctx.ev()
            c = dict(case, containers=[ka, kb])
            try:
                a, _ = programs.evaluate(T, sa, "array", ka, nul, na)
                b, _ = programs.evaluate(T, sb, "array", kb, nul, nb)
            except programs.Degenerate:
                return False
            except programs.EvalError:
                ctx.count("operands that could not be built")
                return False
            exc = None
            try:
                r = op(a, b)
            except ZeroDivisionError:
                continue
            except Exception as e:
                exc = e
            if na != nb:
                if exc is None and ref_exc is None:
                    ctx.violation("different-lengths-accepted:%s/%s" % (ka, kb), dict(c, result=repr(r)[:160]), replay=c)
                continue
            if (exc is None) != (ref_exc is None):
                ctx.violation(
                    "raise-mismatch:%s/%s:%s" % (ka, kb, type(exc or ref_exc).__name__),
                    dict(c, array_error=repr(exc)[:200], scalar_error=repr(ref_exc)[:200]), replay=c,
                )  # fmt: skip
                continue
            if exc is not None:
                continue
            if r.GetQuantity() != refq:
                ctx.violation("quantity:%s/%s" % (ka, kb), dict(c, got=repr(r.GetQuantity()), scalar=repr(refq)), replay=c)
            # the same two operand objects once more: an operation may not leave anything behind in them
            try:
                r_again = op(a, b)
                g1, g2 = [float(x) for x in r.GetValues()], [float(x) for x in r_again.GetValues()]
                if len(g1) != len(g2) or any(not close(x, y) for x, y in zip(g1, g2)) or r_again.GetQuantity() != r.GetQuantity():
                    ctx.violation("second-use-of-the-same-operands-differs:%s/%s:%s" % (ka, kb, opn), dict(c, first=g1[:5], second=g2[:5]), replay=c)
            except ZeroDivisionError:
                pass
            except Exception as e:
                ctx.violation("second-use-of-the-same-operands-raised:%s/%s:%s" % (ka, kb, type(e).__name__), dict(c, error=str(e)[:160]), replay=c)
            got = list(r.GetValues())
            if len(got) != na:
                ctx.violation("result-length:%s/%s" % (ka, kb), dict(c, got=len(got)), replay=c)
                continue
            for i, (g, s) in enumerate(zip(got, ref)):
                if not close(g, s.GetValue()):
                    ctx.violation("value:%s/%s:%s" % (ka, kb, opn), dict(c, index=i, got=float(g), scalar=s.GetValue(), result_unit=r.GetUnit()), replay=c)
                    break
            want_type = {"list": list, "tuple": tuple}
            if ka == "nd" or kb == "nd":
                import numpy as np

                if not isinstance(r.GetValues(), np.ndarray):
                    ctx.violation("result-container:%s/%s" % (ka, kb), dict(c, got=type(r.GetValues()).__name__), replay=c)
            elif type(r.GetValues()) is not (tuple if ka == kb == "tuple" else list):
                ctx.violation("result-container:%s/%s" % (ka, kb), dict(c, got=type(r.GetValues()).__name__), replay=c)
    return True


def conversions_and_fromscalars(ctx, T, db, r, n_cases):
    from barril.units import Array, Scalar

    ubt = {qt: [u for u in us if u in T.aff and T.aff[u].exact and T.aff[u].slope] for qt, us in table.units_by_type(db).items() if qt != "Unknown"}
    qts = [q for q, us in ubt.items() if len(us) >= 2]
    for _ in range(n_cases):
        qt = r.choice(qts)
        u, v, w = r.choice(ubt[qt]), r.choice(ubt[qt]), r.choice(ubt[qt])
        n = r.choice([0, 1, 2, 3, 7])
        vals = [r.choice([1.0, 2.5, -3.0, 0.0, 100.0, 0.1]) for _ in range(n)]
        case = {"qt": qt, "u": u, "v": v, "w": w, "values": vals}
        ctx.nt(("conv", qt, u, v, n))
        try:
            ss = [Scalar(x, u if i % 2 == 0 else w) for i, x in enumerate(vals)]
            want = [s.GetValue(v) for s in ss]
            ctx.ev()
            fs = Array.FromScalars(ss, unit=v) if n else Array.FromScalars(ss, unit=v)
            got = list(fs.GetValues())
            if len(got) != n or not all(close(g, x) for g, x in zip(got, want)) or fs.GetUnit() != v:
                ctx.violation("FromScalars(unit)", dict(case, got=got, want=want, unit=fs.GetUnit()), replay=case)
            # the scalars may come as any iterable - a tuple, an iterator, a generator, a map object (each can be walked once)
            for label, it in (("tuple", tuple(ss)), ("iterator", iter(ss)), ("generator", (s_ for s_ in ss)), ("map", map(lambda s_: s_, ss))):
                for with_unit in (True, False):
                    if not with_unit and (not n or label == "tuple"):
                        continue
                    ctx.ev()
                    src = it if label == "tuple" else {"iterator": iter(ss), "generator": (s_ for s_ in ss), "map": map(lambda s_: s_, ss)}[label]
                    fi = Array.FromScalars(src, unit=v) if with_unit else Array.FromScalars(src)
                    wi = want if with_unit else [s_.GetValue(ss[0].GetUnit()) for s_ in ss]
                    gi = list(fi.GetValues())
                    if len(gi) != n or not all(close(g, x) for g, x in zip(gi, wi)) or fi.GetUnit() != (v if with_unit else ss[0].GetUnit()):
                        ctx.violation("FromScalars(%s%s)" % (label, ", unit" if with_unit else ""), dict(case, got=gi, want=wi, unit=fi.GetUnit()), replay=case)
            if n:
                f2 = Array.FromScalars(ss)
                ctx.ev()
                want2 = [s.GetValue(ss[0].GetUnit()) for s in ss]
                if f2.GetUnit() != ss[0].GetUnit() or f2.GetCategory() != ss[0].GetCategory() or not all(close(g, x) for g, x in zip(f2.GetValues(), want2)):
                    ctx.violation("FromScalars(default unit)", dict(case, got=list(f2.GetValues()), want=want2), replay=case)
                for i in range(n):
                    if not close(f2[i], want2[i]):
                        ctx.violation("FromScalars indexing", dict(case, index=i), replay=case)
            for cont in CONTS:
                ctx.ev()
                arr = Array(programs.make_container(vals, cont), u)
                conv_a = list(arr.GetValues(v))
                conv_s = [Scalar(x, u).GetValue(v) for x in vals]
                if len(conv_a) != n or not all(close(g, x) for g, x in zip(conv_a, conv_s)):
                    ctx.violation("GetValues(unit):%s" % cont, dict(case, got=conv_a, scalar=conv_s), replay=case)
                elif u != v and n:
                    # what a conversion hands out is the caller's: scribbling on it and asking again must give the
                    # converted amounts again (and the stored values stay what they were)
                    out = arr.GetValues(v)
                    if out is arr.GetValues():
                        continue  # an identity conversion may hand out the stored container itself (like GetValues())
                    try:
                        if isinstance(out, list):
                            out[:] = [0.0] * len(out)
                        elif hasattr(out, "fill"):
                            out.fill(0.0)
                    except Exception:
                        pass
                    ctx.ev()
                    again = list(arr.GetValues(v))
                    copy_a = list(arr.CreateCopy(unit=v).GetValues())
                    if not all(close(g, x) for g, x in zip(again, conv_s)) or not all(close(g, x) for g, x in zip(copy_a, conv_s)) or [float(x) for x in arr.GetValues()] != [float(x) for x in vals]:
                        ctx.violation("GetValues(unit)-after-the-caller-edited-an-earlier-result:%s" % cont, dict(case, second=again, copy=copy_a, scalar=conv_s), replay=case)
        except Exception as e:
            ctx.ev()
            ctx.violation("conversion-raised:%s" % type(e).__name__, dict(case, error=str(e)[:200]), replay=case)


def large_arrays(ctx, T, db):
    """arrays longer than any block a conversion might work in (65 536 items and a tail): GetValues(unit) and + / - with a
    list-free ndarray operand in another unit, compared with the Scalars at both ends, in the middle and across block edges"""
    import numpy as np
    from barril.units import Array, Scalar

    idx = (0, 1, 65535, 65536, 65537, 69998, 69999, 70000)
    for u, v in (("m", "cm"), ("degC", "K"), ("bar", "psi")):
        for n in (70001, 131075):
            vals = np.linspace(-50.0, 50.0, n)
            case = {"u": u, "v": v, "items": n}
            ctx.ev()
            ctx.nt(("large array", u, v, n))
            try:
                a = Array(vals, u)
                conv_a = a.GetValues(v)
                b = Array(np.full(n, 2.0), v) + a
                ok = len(conv_a) == n and all(close(conv_a[i], Scalar(float(vals[i]), u).GetValue(v)) for i in idx) and all(close(b.GetValues()[i], (Scalar(2.0, v) + Scalar(float(vals[i]), u)).GetValue()) for i in idx)
                ok = ok and close(conv_a[n - 1], Scalar(float(vals[n - 1]), u).GetValue(v)) and close(conv_a[n - 2], Scalar(float(vals[n - 2]), u).GetValue(v))
            except Exception as e:
                ok = repr(e)[:160]
            if ok is not True:
                ctx.violation("large-array-differs-from-elementwise-scalars", dict(case, problem=ok), replay=case)


def offset_twins(ctx, T, db, r):
    """Units of one quantity type with the same scale and another zero (bar / bar(g), psia / psig, degF / degR, delta
    temperatures): every such ordered pair, every container kind - conversions and + / - against the Scalars. A route
    that decides "same factor, nothing to convert" is wrong exactly here, and a random pair almost never lands here."""
    from barril.units import Array, Scalar

    by_type = {}
    for u, a in T.aff.items():
        if a.exact and a.slope and a.qt != "Unknown":
            by_type.setdefault(a.qt, []).append((u, a))
    pairs = []
    for qt, lst in sorted(by_type.items()):
        for u, au in lst:
            for v, av in lst:
                if u != v and au.off != av.off and abs(au.slope / av.slope - 1) <= 1e-12:
                    pairs.append((qt, u, v))
    ctx.count("same-scale / other-zero unit pairs", len(pairs))
    for k, (qt, u, v) in enumerate(pairs):
        if k % ctx.nshards != ctx.shard:
            continue
        vals = [r.choice([1.0, 2.5, -3.0, 0.0, 100.0]), 7.0, -0.5]
        case = {"qt": qt, "u": u, "v": v, "values": vals}
        ctx.nt(("offset twins", qt, u, v))
        try:
            conv_s = [Scalar(x, u).GetValue(v) for x in vals]
            sum_s = [(Scalar(x, v) + Scalar(x, u)).GetValue() for x in vals]
            dif_s = [(Scalar(x, v) - Scalar(x, u)).GetValue() for x in vals]
        except Exception as e:
            ctx.ev()
            ctx.violation("offset-twins:scalar-reference-raised", dict(case, error=repr(e)[:160]), replay=case)
            continue
        for cont in CONTS:
            ctx.ev()
            try:
                arr = Array(programs.make_container(vals, cont), u)
                got = list(arr.GetValues(v))
                cp = list(arr.CreateCopy(unit=v).GetValues())
                for c2 in CONTS:
                    other = Array(programs.make_container(vals, c2), v)
                    gs, gd = list((other + arr).GetValues()), list((other - arr).GetValues())
                    if not all(close(g, x) for g, x in zip(gs, sum_s)) or not all(close(g, x) for g, x in zip(gd, dif_s)):
                        ctx.violation("offset-twins:+/-:%s/%s" % (c2, cont), dict(case, got_sum=gs, scalar_sum=sum_s, got_difference=gd, scalar_difference=dif_s), replay=case)
            except Exception as e:
                ctx.violation("offset-twins:raised:%s" % cont, dict(case, error=repr(e)[:160]), replay=case)
                continue
            if not all(close(g, x) for g, x in zip(got, conv_s)) or not all(close(g, x) for g, x in zip(cp, conv_s)):
                ctx.violation("offset-twins:GetValues(unit):%s" % cont, dict(case, got=got, copy=cp, scalar=conv_s), replay=case)


def integer_containers(ctx, T, db, r, n_cases):
    """One operand holds integers (int64 / int32 ndarray, or a list of ints), the other non-integral floats in
    another container kind: the result must still be the elementwise Scalar result (no operand may be cast to
    the other's dtype)."""
    import numpy as np
    from barril.units import Array, Scalar

    ubt = {qt: [u for u in us if u in T.aff and T.aff[u].exact and T.aff[u].off == 0 and T.aff[u].slope > 0] for qt, us in table.units_by_type(db).items() if qt != "Unknown"}
    qts = [q for q, us in ubt.items() if len(us) >= 2]
    mk = {
        "int64 nd": lambda v: np.array(v, dtype=np.int64), "int32 nd": lambda v: np.array(v, dtype=np.int32), "int list": lambda v: [int(x) for x in v], "int tuple": lambda v: tuple(int(x) for x in v),
        "float list": list, "float tuple": tuple, "float nd": lambda v: np.array(v, dtype=float), "float32 nd": lambda v: np.array(v, dtype=np.float32),
    }  # fmt: skip
    for _ in range(n_cases):
        qt, qt2 = r.choice(qts), r.choice(qts)
        opn = r.choice(["+", "-", "*", "/", "//"])
        if opn in ("+", "-"):
            qt2 = qt
        u, v = r.choice(ubt[qt]), r.choice(ubt[qt2])
        n = r.choice([1, 2, 3])
        ints = [float(r.choice([1, 2, 3, 5, 7, -4, 10])) for _ in range(n)]
        flts = [r.choice([0.25, 0.5, 1.75, -2.5, 3.125, 0.125]) for _ in range(n)]
        ka = r.choice(["int64 nd", "int32 nd", "int list", "int tuple"])
        kb = r.choice(["float list", "float tuple", "float nd"])
        for order in ("int,float", "float,int"):
            case = {"qt": qt, "qt2": qt2, "u": u, "v": v, "ints": ints, "floats": flts, "int_container": ka, "float_container": kb, "op": opn, "order": order}
            ctx.ev()
            ctx.nt(("intcont", ka, kb, opn, order, u == v))
            try:
                A, Bv = Array(mk[ka](ints), u), Array(mk[kb](flts), v)
                x, y, xs, ys, ux, uy = (A, Bv, ints, flts, u, v) if order == "int,float" else (Bv, A, flts, ints, v, u)
                ref = [OPS[opn](Scalar(a, ux), Scalar(b, uy)) for a, b in zip(xs, ys)]
            except Exception:
                continue
            try:
                res = OPS[opn](x, y)
            except Exception as e:
                ctx.violation("int-container:raised:%s:%s/%s" % (type(e).__name__, ka.split()[0], kb.split()[0]), dict(case, error=str(e)[:200]), replay=case)
                continue
            got = [float(g) for g in res.GetValues()]
            if res.GetQuantity() != ref[0].GetQuantity() or len(got) != n or not all(close(g, s.GetValue()) for g, s in zip(got, ref)):
                ctx.violation("int-container:value:%s:%s/%s" % (opn, ka, kb), dict(case, got=got, scalars=[s.GetValue() for s in ref], result_unit=res.GetUnit()), replay=case)


def unusual_containers(ctx):
    """Containers that are *kinds of* lists, tuples and arrays: a named tuple, an application's own list class, an ndarray of
    dtype object holding Python floats. Array (op) Array and the re-expression in another unit give, element by element, what
    the Scalars give - whatever the pairing of container kinds."""
    import collections

    import numpy as np
    from barril.units import Array, Scalar

    Point = collections.namedtuple("Point", "x y z")

    class Column(list):
        pass

    conts = [("named tuple", lambda z: Point(*z)), ("list subclass", lambda z: Column(z)), ("object ndarray", lambda z: np.array(z, dtype=object)), ("list", list), ("nd", lambda z: np.array(z, dtype=float))]
    av, bv = [1.5, -2.0, 40.0], [3.0, 0.5, -7.0]
    ops = [("+", lambda p, q: p + q), ("-", lambda p, q: p - q), ("*", lambda p, q: p * q), ("/", lambda p, q: p / q), ("//", lambda p, q: p // q)]
    n = 0
    for u, v in (("m", "cm"), ("km", "m"), ("degC", "K"), ("m", "m")):
        for (ka, mka), (kb, mkb) in itertools.product(conts, conts):
            if ka in ("list", "nd") and kb in ("list", "nd"):
                continue  # (the ordinary pairings are the business of the rest of this check)
            for sym, fn in ops:
                if "degC" in (u, v) and sym in ("*", "/", "//"):
                    continue
                ctx.ev()
                n += 1
                case = {"containers": [ka, kb], "units": [u, v], "op": sym}
                ctx.nt(("unusual containers", ka, kb, u, v, sym))
                try:
                    res = fn(Array(mka(av), u), Array(mkb(bv), v))
                    got = [float(t) for t in res.GetValues()]
                    want = [float(fn(Scalar(x, u), Scalar(y, v)).GetValue()) for x, y in zip(av, bv)]
                    wu = fn(Scalar(av[0], u), Scalar(bv[0], v)).GetUnit()
                except Exception as e:
                    ctx.violation("unusual-container:raised:%s" % type(e).__name__, dict(case, error=str(e)[:160]))
                    continue
                if len(got) != 3 or res.GetUnit() != wu or not all(abs(g - w) <= 1e-12 * (abs(w) + abs(g)) + 1e-300 for g, w in zip(got, want)):
                    ctx.violation("unusual-container:array-differs-from-the-scalars", dict(case, array=got, scalars=want, unit=[res.GetUnit(), wu]))
        for ka, mka in conts[:3]:
            ctx.ev()
            n += 1
            case = {"containers": [ka], "units": [u, v], "op": "GetValues(unit)"}
            try:
                got = [float(t) for t in Array(mka(av), u).GetValues(v)]
                got2 = [float(t) for t in Array(mka(av), u).CreateCopy(unit=v).GetValues()]
                want = [Scalar(x, u).GetValue(v) for x in av]
            except Exception as e:
                ctx.violation("unusual-container:raised:%s" % type(e).__name__, dict(case, error=str(e)[:160]))
                continue
            if got != want or got2 != want:
                ctx.violation("unusual-container:array-differs-from-the-scalars", dict(case, array=got, copy=got2, scalars=want))
    ctx.count("operations on unusual containers", n)


def non_affine_units(ctx):
    """A database to which an application added a unit whose formula is not a straight line (API gravity against specific
    gravity): Arrays of every container kind and length - long lists and tuples included - are re-expressed and added like
    the Scalars, element by element."""
    import numpy as np
    from barril.units import Array, Scalar, UnitDatabase

    db = UnitDatabase()
    db.AddUnitBase("relative density", "specific gravity", "sg")
    db.AddUnit("relative density", "degrees API", "dAPI", "141.5/%f - 131.5", "141.5/(%f + 131.5)")
    db.AddUnit("relative density", "per mille of water", "pmw", "%f*1000.0", "%f/1000.0")
    db.AddCategory("relative density", "relative density")
    n = 0
    with table.pushed(db):
        for length in (3, 129, 400):
            vals = [10.0 + 0.17 * i for i in range(length)]
            for kname, mk in (("list", list), ("tuple", tuple), ("nd", lambda z: np.array(z, dtype=float))):
                for u, v in (("dAPI", "sg"), ("sg", "dAPI"), ("dAPI", "pmw"), ("pmw", "dAPI")):
                    src = vals if u != "sg" else [0.6 + 0.001 * i for i in range(length)]
                    src = src if u != "pmw" else [600.0 + i for i in range(length)]
                    ctx.ev()
                    n += 1
                    case = {"non-affine unit": True, "u": u, "v": v, "container": kname, "items": length}
                    ctx.nt(("non-affine", u, v, kname, length))
                    try:
                        got = [float(t) for t in Array(mk(src), u).GetValues(v)]
                        idx = sorted({0, 1, length // 2, length - 1})
                        want = {i: Scalar(src[i], u).GetValue(v) for i in idx}
                        if len(got) != length or any(abs(got[i] - w) > 1e-12 * (abs(w) + 1.0) for i, w in want.items()):
                            ctx.violation("non-affine-unit:array-differs-from-the-scalars:GetValues", dict(case, array=[got[i] for i in idx if i < len(got)], scalars=[want[i] for i in idx]))
                        if v != "dAPI" and u != "dAPI":
                            continue
                        s_ = Array(mk(src), u) + Array(mk(src), u)
                        if abs(float(s_.GetValues()[0]) - 2 * src[0]) > 1e-12 * abs(src[0]):
                            ctx.violation("non-affine-unit:array-differs-from-the-scalars:sum", dict(case, got=float(s_.GetValues()[0]), want=2 * src[0]))
                    except Exception as e:
                        ctx.violation("non-affine-unit:raised:%s" % type(e).__name__, dict(case, error=str(e)[:160]))
    ctx.count("arrays re-expressed through a non-affine unit", n)


def two_databases(ctx):
    """The same expressions under the shipped table and under another table that gives the same symbols other factors
    (one after the other, both orders, in one process): under each database every container kind gives what the Scalars of
    *that* database give, element by element."""
    import numpy as np
    from barril.units import Array, FixedArray, Scalar, UnitDatabase

    def alt():
        d = UnitDatabase()
        d.AddUnitBase("length", "metre", "m")
        d.AddUnit("length", "survey centimetre", "cm", "%f*50.0", "%f/50.0")
        d.AddUnit("length", "survey kilometre", "km", "%f/999.0", "%f*999.0")
        d.AddUnit("length", "survey mile", "mi", "%f/1609.347", "%f*1609.347")
        d.AddUnitBase("temperature", "kelvin", "K")
        d.AddUnit("temperature", "other celsius", "degC", "%f-100.0", "%f+100.0")
        d.AddCategory("length", "length")
        d.AddCategory("temperature", "temperature")
        return d

    vals, other = [1.5, -2.0, 40.0], [3.0, 0.5, -7.0]
    exprs = [
        ("GetValues(unit)", lambda mk, u, v: mk(vals, u).GetValues(v), lambda i, u, v: Scalar(vals[i], u).GetValue(v)),
        ("CreateCopy(unit)", lambda mk, u, v: mk(vals, u).CreateCopy(unit=v).GetValues(), lambda i, u, v: Scalar(vals[i], u).CreateCopy(unit=v).GetValue()),
        ("a + b", lambda mk, u, v: (mk(vals, u) + mk(other, v)).GetValues(), lambda i, u, v: (Scalar(vals[i], u) + Scalar(other[i], v)).GetValue()),
        ("a - b", lambda mk, u, v: (mk(vals, u) - mk(other, v)).GetValues(), lambda i, u, v: (Scalar(vals[i], u) - Scalar(other[i], v)).GetValue()),
        ("a * b", lambda mk, u, v: (mk(vals, u) * mk(other, v)).GetValues(), lambda i, u, v: (Scalar(vals[i], u) * Scalar(other[i], v)).GetValue()),
        ("a / b", lambda mk, u, v: (mk(vals, u) / mk(other, v)).GetValues(), lambda i, u, v: (Scalar(vals[i], u) / Scalar(other[i], v)).GetValue()),
    ]
    kinds = [("list", lambda x, u: Array(list(x), u)), ("tuple", lambda x, u: Array(tuple(x), u)), ("nd", lambda x, u: Array(np.array(x), u)), ("FixedArray[nd]", lambda x, u: FixedArray(3, np.array(x), u)),
             ("nd32", lambda x, u: Array(np.array(x, dtype=np.float32), u))]  # fmt: skip
    n = 0
    for order in (("shipped", "other"), ("other", "shipped")):
        dbs = {"shipped": table.build("posc"), "other": alt()}
        for which in order + order[:1]:
            with table.pushed(dbs[which]):
                for u, v in (("km", "m"), ("mi", "m"), ("cm", "km"), ("degC", "K"), ("m", "cm")):
                    for name, arr_fn, sc_fn in exprs:
                        if "degC" in (u, v) and name in ("a * b", "a / b"):
                            continue
                        for kname, mk in kinds:
                            ctx.ev()
                            n += 1
                            case = {"database": which, "asked_in_order": list(order), "expression": name, "u": u, "v": v, "container": kname}
                            ctx.nt(("two databases", which, name, u, v, kname))
                            try:
                                got = [float(t) for t in arr_fn(mk, u, v)]
                                want = [float(sc_fn(i, u, v)) for i in range(3)]
                            except Exception as e:
                                ctx.violation("two-databases:raised:%s" % type(e).__name__, dict(case, error=str(e)[:160]))
                                continue
                            rel = 1e-6 if kname == "nd32" else 1e-12
                            if len(got) != 3 or not all(abs(g - w) <= rel * (abs(w) + abs(g)) + 1e-300 for g, w in zip(got, want)):
                                ctx.violation("two-databases:array-differs-from-the-scalars-of-the-current-database", dict(case, array=got, scalars=want))
    ctx.count("expressions evaluated under two databases", n)


def run(ctx):
    from barril.units import Array, UnitDatabase
    from barril.units._value_generator import _ValueGenerator

    probe.install()
    probe.reach([Array._DoOperation, _ValueGenerator.__iter__, _ValueGenerator.IsTuple, Array.FromScalars, UnitDatabase._ConvertMatchingExp if hasattr(UnitDatabase, "_ConvertMatchingExp") else UnitDatabase._MatchQuantities])
    ctx.rule = (
        "pairs of operand programs (random trees, same-dimension pairs with differing units/categories, CreateDerived leaves) x 5 operators x 9 container "
        "combinations x lengths {0,1,2,3,7} incl. mismatched lengths: each element and the quantity of the Array result compared with the result of the same operation "
        "on the corresponding Scalars (4 ulp), raise/no-raise must agree, different lengths must raise, result container rule; Array.FromScalars and GetValues(unit) "
        "against Scalar.GetValue; integer containers (int64/int32 ndarray, int list/tuple) against non-integral floats in another container kind, both orders. "
        "distinct non-trivial = (operator, dimension vectors, lengths)"
    )
    ctx.assumptions = ["one-dimensional, non-ragged containers", "the Scalar operators are the reference (C03/C04 vouch for them)"]
    r = ctx.rng("c10")
    db = table.build("posc")
    n_cases = 350 if ctx.tier == "quick" else 6000
    with table.pushed(db):
        T = dims.Table(db, conv.describe(db))
        B = programs.Basis(T, ctx.rng("basis%d" % (ctx.shard % 4)))
        done = 0
        while done < n_cases:
            n = r.choice([0, 1, 2, 3, 7])
            nb = n if r.random() < 0.8 else r.choice([x for x in (0, 1, 2, 3, 7) if x != n])
            L = max(n, nb, 1)
            if r.random() < 0.6:
                sa, sb, _d = B.same_dimension_pair(r, L)
                opn = r.choice(["+", "-", "+", "-", "*", "/", "//"])
            else:
                sa, sb = B.tree(r, r.randint(0, 2), L), B.tree(r, r.randint(0, 2), L)
                opn = r.choice(["*", "/", "//", "+"])
            if one_case(ctx, T, sa, sb, n, nb, opn):
                done += 1
                ctx.nt((opn, programs.render(sa)[:0] + str(sorted(programs.model_leaf(T, sa).dim.items()) if sa[0] in ("leaf", "dleaf") else programs.count_ops(sa)), programs.count_ops(sb), n, nb))
                if done <= 2 and ctx.shard == 0:
                    ctx.sample({"a": programs.render(sa), "b": programs.render(sb), "op": opn, "lengths": [n, nb]})
        conversions_and_fromscalars(ctx, T, db, r, 300 if ctx.tier == "quick" else 5000)
        integer_containers(ctx, T, db, ctx.rng("ints"), 400 if ctx.tier == "quick" else 8000)
        offset_twins(ctx, T, db, ctx.rng("twins"))
        if ctx.shard == 0:
            large_arrays(ctx, T, db)
    if ctx.shard == 0:
        non_affine_units(ctx)
        two_databases(ctx)
        with table.pushed(table.build("posc")):
            unusual_containers(ctx)
    ctx.inconclusive_if(probe.COUNTS["Array.__add__"] == 0 or probe.COUNTS["Array.__floordiv__"] == 0 or probe.COUNTS["Array.FromScalars"] == 0, "Array operators never reached")
