"""C03 - addition / subtraction are physically sound, also for derived units (DESIGN.md 4, C03)."""
import itertools
from fractions import Fraction as Fr

from .. import probe
from ..models import conv, dims
from ..workloads import programs, table, values

SHARDS = {"quick": 4, "thorough": 16}
WATCHDOG_S = {"quick": 900, "thorough": 7200}
FLOORS = (5000, 300)
REL = 1e-11


def _mags(T, obj):
    s = dims.scale(T, dims.items_of(obj.GetQuantity()))
    return [Fr(v) * s for v in programs.values_of(obj)]


def _unified(T, items):
    seen = {}
    for c, u, e in items:
        qt = T.qt_of_category(c)
        if seen.setdefault(qt, u) != u:
            return False
    return True


class Checker:
    def __init__(self, ctx, T):
        self.ctx, self.T = ctx, T

    def bad(self, clause, case, detail):
        self.ctx.violation(clause, dict(detail, **{k: v for k, v in case.items() if k != "specs"}), replay=case)

    def pair(self, sa, sb, cls, ca, cb, n):
        """a (container ca) and b (container cb): a+b, a-b, b+a, (a+b)-b; also through UnitDatabase.Sum/Subtract."""
        ctx, T = self.ctx, self.T
        case = {"a": programs.render(sa), "b": programs.render(sb), "cls": cls, "containers": [ca, cb], "specs": [sa, sb]}
        nul = lambda *x: None  # noqa
        try:
            a, ma = programs.evaluate(T, sa, cls, ca, nul, n)
            b, mb = programs.evaluate(T, sb, cls, cb, nul, n)
        except programs.Degenerate:
            return
        except programs.EvalError as e:
            ctx.ev()
            self.bad("operand-construction-raised", case, {"error": repr(e)[:300]})
            return
        ia, ib = dims.items_of(a.GetQuantity()), dims.items_of(b.GetQuantity())
        if dims.unitvec(ia) != dims.unitvec(ib):
            ctx.nt((tuple(sorted(ma.dim.items())), tuple(sorted(dims.unitvec(ia).items())), tuple(sorted(dims.unitvec(ib).items()))))
        nops = ma.nops + mb.nops + 4
        results = {}
        for name, fn in (("a+b", lambda: a + b), ("a-b", lambda: a - b), ("b+a", lambda: b + a), ("b-a", lambda: b - a)):
            ctx.ev()
            try:
                results[name] = fn()
            except Exception as e:
                self.bad("raised:%s" % name[1], case, {"op": name, "error": "%s: %s" % (type(e).__name__, str(e)[:200])})
                return
        for name, left, lm, rm, sign in (("a+b", a, ma, mb, 1), ("a-b", a, ma, mb, -1), ("b+a", b, mb, ma, 1), ("b-a", b, mb, ma, -1)):
            r = results[name]
            ctx.ev()
            # result quantity: the left operand's units and categories
            li = dims.items_of(left.GetQuantity())
            if _unified(T, li):
                if r.GetQuantity() != left.GetQuantity():
                    self.bad("result-quantity-not-left", case, {"op": name, "got": repr(r.GetQuantity()), "left": repr(left.GetQuantity())})
            else:
                ri = dims.items_of(r.GetQuantity())
                if [(c, e) for c, u, e in ri] != [(c, e) for c, u, e in li]:
                    self.bad("result-categories-not-left", case, {"op": name, "got": ri, "left": li})
            if type(r) is not type(left):
                self.bad("result-class", case, {"op": name, "got": type(r).__name__})
            got = _mags(T, r)
            if len(got) != len(lm.mags):
                self.bad("length", case, {"op": name, "got": len(got), "want": len(lm.mags)})
                continue
            for g, x, y in zip(got, lm.mags, rm.mags):
                want = x + sign * y
                if abs(g - want) > Fr(REL * nops) * (abs(x) + abs(y)):
                    self.bad("value:%s" % name[1], case, {"op": name, "got_base": float(g), "want_base": float(want), "a_base": float(x), "b_base": float(y), "result": repr(r)})
                    break
        # (a+b)-b denotes a
        ctx.ev()
        try:
            back = results["a+b"] - b
            for g, x, y in zip(_mags(T, back), ma.mags, mb.mags):
                if abs(g - x) > Fr(REL * nops * 2) * (abs(x) + abs(y)):
                    self.bad("(a+b)-b", case, {"got_base": float(g), "a_base": float(x), "result": repr(back)})
                    break
        except Exception as e:
            self.bad("raised:(a+b)-b", case, {"error": repr(e)[:200]})
        # UnitDatabase.Sum / Subtract directly (scalars): same value and quantity as the operators
        if cls == "scalar":
            ctx.ev()
            try:
                q, v = T.db.Sum(a.GetQuantity(), b.GetQuantity(), a.GetValue(), b.GetValue())
                q2, v2 = T.db.Subtract(a.GetQuantity(), b.GetQuantity(), a.GetValue(), b.GetValue())
                if q != results["a+b"].GetQuantity() or v != results["a+b"].GetValue() or q2 != results["a-b"].GetQuantity() or v2 != results["a-b"].GetValue():
                    self.bad("UnitDatabase.Sum/Subtract differs from operators", case, {"sum": (repr(q), v), "op": repr(results["a+b"])})
            except Exception as e:
                self.bad("raised:UnitDatabase.Sum", case, {"error": repr(e)[:200]})

    def simple_affine(self, c, qt, u, v, x, y):
        """exponent-1 simple quantities: affine units allowed; a.value +/- Convert(b.value -> a's unit)."""
        from barril.units import Array, Scalar

        ctx, T = self.ctx, self.T
        case = {"simple": True, "category": c, "qt": qt, "u": u, "v": v, "x": x, "y": y}
        au, av = T.aff[u], T.aff[v]
        try:
            conv_y = T.db.Convert(qt, v, u, y)
            for name, r, want in (
                ("+", Scalar(c, x, u) + Scalar(c, y, v), x + conv_y),
                ("-", Scalar(c, x, u) - Scalar(c, y, v), x - conv_y),
            ):
                ctx.ev()
                tol = conv.tol_in(au, conv.base_err(av, y, au), conv_y, 8.0) + 4 * conv.EPS * (abs(x) + abs(conv_y))
                if not abs(r.GetValue() - want) <= tol:
                    self.bad("simple-value:%s" % name, case, {"got": r.GetValue(), "want": want})
                if (r.GetCategory(), r.GetUnit()) != (c, u):
                    self.bad("simple-result-quantity-not-left", case, {"got": repr(r)})
            # an application subclass of Scalar (or of Array) on either side is a Scalar like any other
            class AppScalar(Scalar):
                pass

            class AppArray(Array):
                pass

            for name, r, want, left_u in (
                ("Scalar + subclass", Scalar(c, x, u) + AppScalar(c, y, v), x + conv_y, u), ("Scalar - subclass", Scalar(c, x, u) - AppScalar(c, y, v), x - conv_y, u),
                ("subclass + Scalar", AppScalar(c, x, u) + Scalar(c, y, v), x + conv_y, u), ("subclass - subclass", AppScalar(c, x, u) - AppScalar(c, y, v), x - conv_y, u),
            ):  # fmt: skip
                ctx.ev()
                if not abs(r.GetValue() - want) <= tol or (r.GetCategory(), r.GetUnit()) != (c, left_u):
                    self.bad("simple-value:%s" % name, case, {"got": repr(r), "want": want})
            rs = Array(c, [x, x], u) + AppArray(c, [y, y], v)
            ctx.ev()
            if not all(abs(g - (x + conv_y)) <= tol for g in rs.GetValues()) or rs.GetUnit() != u:
                self.bad("simple-array-value:Array + subclass", case, {"got": repr(rs), "want": x + conv_y})
            ra = Array(c, [x, x], u) + Array(c, (y, y), v)
            ctx.ev()
            if not all(abs(g - (x + conv_y)) <= tol for g in ra.GetValues()) or ra.GetUnit() != u:
                self.bad("simple-array-value", case, {"got": repr(ra), "want": x + conv_y})
        except Exception as e:
            ctx.ev()
            self.bad("raised:simple", case, {"error": "%s: %s" % (type(e).__name__, str(e)[:200])})


def zero_right_operands(ck, c, qt, u, v):
    """an amount that is exactly zero is an amount like any other: in a unit with another zero point it still has to be
    re-expressed (10 K + 0 degC is 283.15 K). Scalars with 0.0 / 0 / -0.0 and Arrays holding zeros in every container."""
    import numpy as np
    from barril.units import Array, Scalar

    ctx, T = ck.ctx, ck.T
    au, av = T.aff[u], T.aff[v]
    case = {"zero right operand": True, "category": c, "qt": qt, "u": u, "v": v}
    try:
        z = T.db.Convert(qt, v, u, 0.0)
        tol = conv.tol_in(au, conv.base_err(av, 0.0, au), z, 8.0) + 4 * conv.EPS * (10.0 + abs(z))
        for zero in (0.0, 0, -0.0):
            for name, r, want in (("+", Scalar(c, 10.0, u) + Scalar(c, zero, v), 10.0 + z), ("-", Scalar(c, 10.0, u) - Scalar(c, zero, v), 10.0 - z), ("0+", Scalar(c, zero, v) + Scalar(c, zero, u), T.db.Convert(qt, u, v, 0.0))):
                ctx.ev()
                t2 = tol if name != "0+" else conv.tol_in(av, conv.base_err(au, 0.0, av), want, 8.0) + 4 * conv.EPS * abs(want)
                if not abs(r.GetValue() - want) <= t2:
                    ck.bad("zero-operand-value:%s" % name, case, {"zero": repr(zero), "got": r.GetValue(), "want": want})
        for kind, mk in (("list", list), ("tuple", tuple), ("nd", lambda x: np.array(x, dtype=float)), ("ndint", lambda x: np.array(x, dtype=np.int64))):
            for ys in ([0.0, 0.0], [0.0, 2.0], [3.0, 0.0, 0.0]):
                ctx.ev()
                left = Array(c, [10.0] * len(ys), u)
                got = list((left + Array(c, mk(ys), v)).GetValues())
                want = [10.0 + T.db.Convert(qt, v, u, float(y)) for y in ys]
                if not all(abs(g - w) <= tol + 8 * conv.EPS * abs(w) for g, w in zip(got, want)) or len(got) != len(want):
                    ck.bad("zero-operand-array-value:%s" % kind, case, {"right": ys, "got": got, "want": want})
    except Exception as e:
        ctx.ev()
        ck.bad("raised:zero-operand", case, {"error": "%s: %s" % (type(e).__name__, str(e)[:200])})


def integer_ndarray_operands(ck, db):
    """one operand backed by an integer ndarray, the other by a list / tuple / float ndarray of non-integral amounts (both
    orders, simple and squared units): every element is a.value +/- b re-expressed - nothing is squeezed into integers."""
    import numpy as np
    from barril.units import Array

    ctx = ck.ctx
    ints, fracs = [1, 2, 3, -4], [0.5, 1.25, -2.75, 10.125]
    for u, v, e in (("m", "m", 1), ("m", "cm", 1), ("km", "m", 1), ("s", "min", 1), ("m", "cm", 2), ("degC", "K", 1)):
        qt = db.GetQuantityType(u)
        def conv_(x, frm, to):  # noqa: E306
            return db.Convert(qt, frm, to, x) if e == 1 else x * (db.Convert(qt, frm, to, 1.0) - db.Convert(qt, frm, to, 0.0)) ** e
        for dt in (np.int64, np.int32):
            for other_kind, mk in (("list", list), ("tuple", tuple), ("nd", lambda z: np.array(z, dtype=float))):
                def build(vals, unit, integer):  # noqa: E306
                    cont = np.array(vals, dtype=dt) if integer else mk(vals)
                    a = Array(cont, unit)
                    return a * a if e == 2 else a
                iv = [x * x for x in ints] if e == 2 else ints
                fv = [x * x for x in fracs] if e == 2 else fracs
                for name, left, right, lv, rv, lu, ru in (
                    ("int ndarray + %s" % other_kind, build(ints, u, True), build(fracs, v, False), iv, fv, u, v),
                    ("%s + int ndarray" % other_kind, build(fracs, v, False), build(ints, u, True), fv, iv, v, u),
                ):
                    case = {"operands": name, "dtype": dt.__name__, "units": [lu, ru], "exponent": e}
                    for sym, sign in (("+", 1), ("-", -1)):
                        ctx.ev()
                        ctx.nt(("integer ndarray", name, dt.__name__, lu, ru, e, sym))
                        try:
                            res = left + right if sign == 1 else left - right
                            got = [float(x) for x in res.GetValues()]
                            want = [x + sign * conv_(y, ru, lu) for x, y in zip(lv, rv)]
                            if len(got) != len(want) or not all(abs(g - w) <= 1e-9 * (abs(w) + abs(x) + 1e-300) for g, w, x in zip(got, want, lv)):
                                ck.bad("integer-ndarray-operand:value:%s" % sym, case, {"got": got, "want": want, "result": repr(res)[:160]})
                        except Exception as ex:
                            ck.bad("raised:integer-ndarray-operand", case, {"error": "%s: %s" % (type(ex).__name__, str(ex)[:160])})


def zero_derived_operands(ck, db):
    """derived amounts (units in the denominator, squares, several quantity types) one of which is exactly zero - 'the pump
    is off' - added and subtracted in both orders, Scalars and Arrays: a zero is re-expressed like any other amount"""
    import numpy as np
    from barril.units import Array, Scalar

    ctx = ck.ctx

    def size(u):
        qt = db.GetQuantityType(u)
        return db.Convert(qt, u, db.GetBaseUnit(qt), 1.0) - db.Convert(qt, u, db.GetBaseUnit(qt), 0.0)

    def build(cls, value, parts):
        # parts: [(unit, exponent)]; the amount is `value` in the product of those units
        def one(x, u):
            return Scalar(x, u) if cls == "scalar" else Array(np.array([x, x]) if cls == "nd" else [x, x], u)

        acc = None
        for u, e in parts:
            for _ in range(abs(e)):
                f = one(1.0, u)
                if acc is None:
                    acc = f if e > 0 else 1.0 / f
                else:
                    acc = acc * f if e > 0 else acc / f
        return acc * value

    FAMILIES = [
        ([("min", -1)], [("s", -1)]), ([("s", -1)], [("min", -1)]), ([("min", -2)], [("s", -2)]), ([("h", -1)], [("d", -1)]),
        ([("kg", 1), ("m", -3)], [("g", 1), ("cm", -3)]), ([("m", 1), ("s", -1)], [("km", 1), ("h", -1)]), ([("m", 2)], [("cm", 2)]),
        ([("m", 1), ("s", -2)], [("ft", 1), ("min", -2)]),
    ]
    for pa, pb in FAMILIES:
        k = 1.0
        for (ua, e), (ub, _e) in zip(pa, pb):
            k *= (size(ub) / size(ua)) ** e
        for cls in ("scalar", "list", "nd"):
            for av, bv in ((0.5, 0.0), (0.0, 0.5), (0.0, 0.0), (0.5, -0.0), (2.0, 0.25)):
                case = {"zero derived operand": True, "a": [av, pa], "b": [bv, pb], "class": cls}
                ctx.ev()
                ctx.nt(("zero derived", str(pa), str(pb), cls, av, bv))
                try:
                    a, b = build(cls, av, pa), build(cls, bv, pb)
                    vals = lambda x: [x.GetValue()] if cls == "scalar" else [float(t) for t in x.GetValues()]  # noqa: E731
                    for sym, res, want, unit_of in (("a+b", a + b, av + bv * k, a), ("a-b", a - b, av - bv * k, a), ("b+a", b + a, bv + av / k, b), ("b-a", b - a, bv - av / k, b), ("(a+b)-b", (a + b) - b, av, a)):
                        got = vals(res)
                        if res.GetUnit() != unit_of.GetUnit() or res.GetQuantity().GetComposingCategories() != unit_of.GetQuantity().GetComposingCategories():
                            ck.bad("zero-derived-operand:unit:%s" % sym, case, {"got": res.GetUnit(), "want": unit_of.GetUnit()})
                        if not all(abs(g - want) <= 1e-9 * (abs(want) + abs(av) + abs(bv * k if unit_of is a else av / k)) + 1e-300 for g in got):
                            ck.bad("zero-derived-operand:value:%s" % sym, case, {"got": got, "want": want, "result": repr(res)[:160]})
                except Exception as ex:
                    ck.bad("raised:zero-derived-operand", case, {"error": "%s: %s" % (type(ex).__name__, str(ex)[:160])})


def array_layouts(ck, db):
    """numpy operands of several dimensions in every memory layout (C order, Fortran order, a transposed view, a strided slice),
    the right operand in another unit: the sum at [i, j] is the sum of the amounts at [i, j]"""
    import numpy as np
    from barril.units import Array

    ctx = ck.ctx
    base_l, base_r = np.arange(12, dtype=float).reshape(3, 4) + 1.0, (np.arange(12, dtype=float).reshape(3, 4) * 10.0 - 30.0)
    layouts = [("C order", lambda z: z.copy()), ("Fortran order", np.asfortranarray), ("transposed view", lambda z: z.T.copy().T if False else np.ascontiguousarray(z.T).T),
               ("strided slice", lambda z: np.repeat(np.repeat(z, 2, axis=0), 2, axis=1)[::2, ::2])]  # fmt: skip
    for u, v, derive in (("m", "cm", False), ("K", "degC", False), ("m", "km", True), ("s", "min", False)):
        qt = db.GetQuantityType(u)
        for (ln, lf), (rn, rf) in itertools.product(layouts, layouts):
            for sym, sign in (("+", 1), ("-", -1)):
                ctx.ev()
                case = {"layouts": [ln, rn], "units": [u, v], "per second": derive, "op": sym}
                ctx.nt(("layouts", ln, rn, u, v, derive, sym))
                try:
                    a, b = Array(lf(base_l), u), Array(rf(base_r), v)
                    if derive:
                        per = Array(np.full((3, 4), 2.0), "s")
                        a, b = a / per, b / per
                    res = a + b if sign == 1 else a - b
                    got = np.asarray(res.GetValues(), dtype=float)
                    k = 0.5 if derive else 1.0
                    want = np.array([[base_l[i, j] * k + sign * db.Convert(qt, v, u, float(base_r[i, j])) * k for j in range(4)] for i in range(3)])
                    if got.shape != (3, 4) or not np.allclose(got, want, rtol=1e-12, atol=1e-12):
                        ck.bad("array-layout:value:%s" % sym, case, {"got": got.tolist(), "want": want.tolist()})
                except Exception as ex:
                    ck.bad("raised:array-layout", case, {"error": "%s: %s" % (type(ex).__name__, str(ex)[:160])})


def big_integers_and_masks(ck, db):
    """(1) integer ndarrays whose amounts, re-expressed in the left operand's smaller unit, leave the integer dtype's range
    (40 000 km2 in m2 does not fit an int32): the sum is computed on the amounts, not in the container's arithmetic.
    (2) masked arrays as operands: what is masked stays masked, what is not is the sum."""
    import numpy as np
    from barril.units import Array

    ctx = ck.ctx
    for dt in (np.int32, np.int64):
        for u, v, lv, rv in (("m", "km", [5, 7, 11], [1, 3000, 40000]), ("cm", "m", [5, 7, 11], [1, 30000, 20000]), ("s", "h", [1, 2, 3], [1, 700, 9000])):
            for e in (1, 2):
                ctx.ev()
                case = {"dtype": dt.__name__, "units": [u, v], "exponent": e, "left": lv, "right": rv}
                ctx.nt(("big integers", dt.__name__, u, v, e))
                try:
                    a, b = Array(np.array(lv, dtype=dt), u), Array(np.array(rv, dtype=dt), v)
                    if e == 2:
                        a, b = a * Array(np.array([1, 1, 1], dtype=dt), u), b * Array(np.array([1, 1, 1], dtype=dt), v)
                    qt = db.GetQuantityType(u)
                    k = (db.Convert(qt, v, u, 1.0)) ** e
                    for sym, res, want in (("+", a + b, [x + y * k for x, y in zip(lv, rv)]), ("-", a - b, [x - y * k for x, y in zip(lv, rv)])):
                        got = [float(t) for t in res.GetValues()]
                        if not all(abs(g - w) <= 1e-9 * abs(w) for g, w in zip(got, want)):
                            ck.bad("big-integer-operand:value:%s" % sym, case, {"got": got, "want": want})
                except Exception as ex:
                    ck.bad("raised:big-integer-operand", case, {"error": "%s: %s" % (type(ex).__name__, str(ex)[:160])})
    for u, v in (("m", "cm"), ("K", "degC"), ("m", "m")):
        qt = db.GetQuantityType(u)
        for lm, rm in (([False] * 4, [False, True, False, True]), ([True, False, False, False], [False] * 4), ([False, True, False, False], [False, True, True, False])):
            for sym, sign in (("+", 1), ("-", -1)):
                ctx.ev()
                case = {"masked operands": True, "units": [u, v], "left mask": lm, "right mask": rm, "op": sym}
                ctx.nt(("masked operands", u, v, str(lm), str(rm), sym))
                try:
                    la, ra = np.ma.masked_array([1.0, 2.0, 3.0, 4.0], mask=lm), np.ma.masked_array([10.0, 20.0, 30.0, 40.0], mask=rm)
                    res = (Array(la, u) + Array(ra, v)) if sign == 1 else (Array(la, u) - Array(ra, v))
                    got = res.GetValues()
                    want_mask = [p or q_ for p, q_ in zip(lm, rm)]
                    want = [x + sign * db.Convert(qt, v, u, y) for x, y in zip([1.0, 2.0, 3.0, 4.0], [10.0, 20.0, 30.0, 40.0])]
                    gm = list(np.ma.getmaskarray(got)) if np.ma.isMaskedArray(got) else None
                    ok = gm == want_mask and all(abs(float(got[i]) - want[i]) <= 1e-9 * (abs(want[i]) + 1) for i in range(4) if not want_mask[i])
                    if not ok:
                        ck.bad("masked-operand:value-or-mask:%s" % sym, case, {"got": repr(got)[:200], "want": want, "want_mask": want_mask})
                except Exception as ex:
                    ck.bad("raised:masked-operand", case, {"error": "%s: %s" % (type(ex).__name__, str(ex)[:160])})


def default_units_that_are_not_the_base(ck, db):
    """Quantity types whose own category has a default unit that is not the base unit of the table (frequency: Hz beside rad/s;
    three more): sums and differences with that unit on either side, Scalars and list Arrays, against the units' own to-base
    formulas - every other unit of the type (the category's default unit is one unit among the others for arithmetic)."""
    from barril.units import Array, Scalar

    ctx = ck.ctx
    n = 0
    for qt in sorted(db.quantity_types):
        try:
            du, base = db.GetDefaultUnit(qt), db.GetBaseUnit(qt)
        except Exception:
            continue
        if du == base:
            continue
        tb = {i.unit: i.tobase for i in db.GetInfos(qt)}
        others = [u for u in tb if u != du][:8]
        for v in others:
            for x, y in ((1.0, 1.0), (2.5, 500.0)):
                for form, fn, want in (("du + v", lambda: Scalar(x, du) + Scalar(y, v), tb[du](x) + tb[v](y)), ("v + du", lambda: Scalar(y, v) + Scalar(x, du), tb[du](x) + tb[v](y)), ("du - v", lambda: Scalar(x, du) - Scalar(y, v), tb[du](x) - tb[v](y)),
                                       ("v - du", lambda: Scalar(y, v) - Scalar(x, du), tb[v](y) - tb[du](x)), ("[du] + [v]", lambda: Array([x, x], du) + Array([y, y], v), tb[du](x) + tb[v](y)), ("(v) - (du)", lambda: Array((y,), v) - Array((x,), du), tb[v](y) - tb[du](x))):  # fmt: skip
                    ctx.ev()
                    n += 1
                    ctx.nt(("default unit is not the base", qt, v, form))
                    case = {"quantity_type": qt, "default_unit_of_its_category": du, "base_unit": base, "other_unit": v, "form": form, "amounts": [x, y]}
                    try:
                        res = fn()
                        val = res.GetValue() if isinstance(res, Scalar) else res.GetValues()[0]
                        got = tb[res.GetUnit()](float(val))
                    except Exception as e:
                        ctx.violation("default-unit-sum:raised", dict(case, error="%s: %s" % (type(e).__name__, str(e)[:160])), replay=case)
                        continue
                    if not abs(got - want) <= 1e-9 * (abs(want) + abs(tb[du](x)) + abs(tb[v](y))):
                        ctx.violation("default-unit-sum:value:%s" % form, dict(case, got_in_base_units=got, want_in_base_units=want, result=repr(res)[:120]), replay=case)
    ctx.count("sums with a category default unit that is not the base unit", n)


def cancelling_categories(ck, db, r, n):
    """a right operand whose categories partly cancel inside one quantity type (length**2 / diameter is a length, its
    quantity-type string reads 'length') added to a plain amount of that type in another unit - Scalars and Arrays."""
    cbt = table.categories_by_type(db)
    T = ck.T
    done = 0
    for qt in sorted(cbt):
        cs = cbt[qt]
        us = [u for u in db.GetUnits(qt) if u in T.aff and T.aff[u].exact and T.aff[u].slope > 0 and T.aff[u].off == 0.0 and 1e-6 < T.aff[u].slope < 1e6]
        if len(cs) < 2 or len(us) < 2:
            continue
        for t in range(n):
            c1, c2 = r.sample(cs, 2)
            u1, u2 = r.sample(us, 2)
            k = r.choice([1, 1, 2])
            vals = lambda: [r.choice([1.0, 2.0, 3.0, 0.5, 6.0]) for _ in range(3)]  # noqa
            num = ("leaf", c1, vals(), u2)
            for _ in range(k):
                num = ("*", num, ("leaf", c1, vals(), u2))
            den = ("leaf", c2, vals(), u2)
            for _ in range(k - 1):
                den = ("*", den, ("leaf", c2, vals(), u2))
            sb = ("/", num, den)
            sa = ("leaf", r.choice([c1, c2]), vals(), u1)
            cls = "scalar" if t % 2 == 0 else "array"
            ck.ctx.nt(("cancelling", qt, c1, c2, k, cls))
            ck.pair(sa, sb, cls, r.choice(("list", "tuple", "nd")), r.choice(("list", "tuple", "nd")), 1 if cls == "scalar" else 3)
            ck.pair(sb, sa, cls, "list", "nd", 1 if cls == "scalar" else 3)
            done += 1
    ck.ctx.count("pairs with partly cancelling categories", done)


def run(ctx):
    from barril.units import Array, Scalar, UnitDatabase

    probe.install()
    probe.reach([UnitDatabase._DoOperationWithSameQuantity, UnitDatabase._MatchQuantities, UnitDatabase._ConvertMatchingExp if hasattr(UnitDatabase, "_ConvertMatchingExp") else UnitDatabase.Sum])
    ctx.rule = (
        "pairs of expression trees with the same dimension vector (1-3 quantity types, exponents -3..3, products / quotients / "
        "CreateDerived leaves, offset units at exponents != 1) but independently drawn units, categories, association order; "
        "Scalars and Arrays in all 9 container combinations; a+b, a-b, b+a, b-a, (a+b)-b, UnitDatabase.Sum/Subtract compared with the "
        "dimensional model (value in base units, result quantity = left operand's); plus exponent-1 simple quantities incl. offset units; "
        "non-trivial = distinct (dimension vector, unit vector a, unit vector b) with differing unit vectors"
    )
    ctx.assumptions = ["re-expressing a unit at exponent e scales by (ratio of slopes)**e; offsets only take part at exponent 1 of a simple quantity", "relative tolerance 1e-11 x operations, relative to |a|+|b| in base units"]
    r = ctx.rng("pairs")
    db = table.build("posc")
    n_pairs = 3000 if ctx.tier == "quick" else 30000
    conts = ("list", "tuple", "nd")
    with table.pushed(db):
        T = dims.Table(db, conv.describe(db))
        B = programs.Basis(T, ctx.rng("basis%d" % (ctx.shard % 4)))
        ck = Checker(ctx, T)
        ctx.notes["basis"] = {qt: 1 for qt in list(B.types) + list(B.affine_types)}
        for i in range(n_pairs):
            cls = "scalar" if i % 2 else "array"
            n = 1 if cls == "scalar" else r.randint(0, 4) if i % 20 == 0 else r.randint(1, 4)
            sa, sb, d = B.same_dimension_pair(r, max(n, 1))
            ca, cb = conts[(i // 2) % 3], conts[(i // 6) % 3]
            ck.pair(sa, sb, cls, ca, cb, n)
            if i < 2 and ctx.shard == 0:
                ctx.sample({"a": programs.render(sa), "b": programs.render(sb), "dimension": d, "as": cls})
        # exponent-1 simple quantities, all categories (shard-sliced), incl. offset units
        hv = [x for x in values.hostile() if abs(x) <= 1e9]
        cats = sorted(db.IterCategories())
        for j, c in enumerate(cats):
            if j % ctx.nshards != ctx.shard:
                continue
            qt = db.GetCategoryQuantityType(c)
            us = [u for u in db.GetUnits(qt) if u in T.aff and T.aff[u].exact and T.aff[u].slope > 0]
            if len(us) < 2:
                continue
            offs = [u for u in us if T.aff[u].off != 0.0]
            for t in range(4 if ctx.tier == "quick" else 30):
                u, v = r.choice(offs or us) if t % 2 == 0 else r.choice(us), r.choice(us)
                ck.simple_affine(c, qt, u, v, r.choice(hv), r.choice(hv))
                if u != v:
                    ctx.nt(("simple", c, u, v))
            for u in offs:
                for v in [w for w in us if T.aff[w].off != T.aff[u].off][: 3 if ctx.tier == "quick" else 40]:
                    zero_right_operands(ck, c, qt, u, v)
                    zero_right_operands(ck, c, qt, v, u)
                    ctx.nt(("zero right operand", c, u, v))
        if ctx.shard == 0:
            cancelling_categories(ck, db, ctx.rng("cancel"), 2 if ctx.tier == "quick" else 12)
            integer_ndarray_operands(ck, db)
            zero_derived_operands(ck, db)
            array_layouts(ck, db)
            big_integers_and_masks(ck, db)
            default_units_that_are_not_the_base(ck, db)
    ctx.inconclusive_if(probe.COUNTS["UnitDatabase.Sum"] == 0 or probe.COUNTS["UnitDatabase.Subtract"] == 0, "Sum/Subtract never reached")


def replay(ctx, d):
    from .c04 import replay as _r4  # noqa  (spec fixer lives there)

    probe.install()
    db = table.build("posc")

    def fix(s):
        s = list(s)
        if s[0] == "leaf":
            return ("leaf", s[1], list(s[2]), s[3])
        if s[0] == "dleaf":
            return ("dleaf", [tuple(i) for i in s[1]], list(s[2]))
        if s[0] == "**":
            return ("**", fix(s[1]), s[2])
        return (s[0], fix(s[1]), fix(s[2]))

    with table.pushed(db):
        T = dims.Table(db, conv.describe(db))
        ck = Checker(ctx, T)
        if d.get("simple"):
            ck.simple_affine(d["category"], d["qt"], d["u"], d["v"], d["x"], d["y"])
        else:
            sa, sb = fix(d["specs"][0]), fix(d["specs"][1])
            n = len(sa[2]) if sa[0] in ("leaf", "dleaf") else None
            ck.pair(sa, sb, d["cls"], d["containers"][0], d["containers"][1], n)
