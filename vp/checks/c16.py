"""C16 - legacy unit spellings are exact aliases and never capture current units (DESIGN.md 4, C16).

Legacy spellings are *derived*, not listed: for every unit of the shipped table and every substitution
(legacy -> current) whose current form occurs in the symbol, every non-empty subset of the occurrences is
written back in every legacy form (so symbols with two tokens, the same token twice, or two different
legacy forms of one token are covered).  For each spelling every API entry that takes a unit string is
called twice - with the legacy and with the current spelling - and the canonical outcomes must be
identical (objects equal, conversions bit-identical).  All current symbols must survive the rewrite
unchanged, and rewriting must be idempotent.  Exhaustive in both tiers.
"""
import itertools

from .. import probe
from ..workloads import histories as H
from ..workloads import table

SHARDS = {"quick": 4, "thorough": 8}
WATCHDOG_S = {"quick": 900, "thorough": 3600}
FLOORS = (3000, 60)


def substitutions():
    from barril.units import unit_database as ud

    return list(ud._LEGACY_TO_CURRENT)


def derive_spellings(units, subs):
    """{legacy spelling: current symbol} for every table unit."""
    out = {}
    table_units = set(units)
    for u in units:
        # occurrences (start, current token, [legacy forms])
        occ = []
        by_cur = {}
        for leg, cur in subs:
            by_cur.setdefault(cur, []).append(leg)
        for cur, legs in by_cur.items():
            i = u.find(cur)
            while i >= 0:
                occ.append((i, cur, legs))
                i = u.find(cur, i + 1)
        if not occ:
            continue
        occ.sort()
        occ = occ[:4]
        for k in range(1, len(occ) + 1):
            for chosen in itertools.combinations(occ, k):
                # skip overlapping occurrences ('Mcf' inside 'MMcf')
                if any(a[0] + len(a[1]) > b[0] for a, b in zip(chosen, chosen[1:])):
                    continue
                for forms in itertools.product(*[c[2] for c in chosen]):
                    s, shift = u, 0
                    for (pos, cur, _l), leg in zip(chosen, forms):
                        s = s[: pos + shift] + leg + s[pos + shift + len(cur) :]
                        shift += len(leg) - len(cur)
                    if s != u and s not in table_units:
                        out.setdefault(s, u)
    return out


def _nz(c):
    """-0.0 and 0.0 are the same amount (== says so); the sign of zero depends on whether a conversion ran."""
    if isinstance(c, tuple):
        return tuple(_nz(x) for x in c)
    return "0.0" if c == "-0.0" else c


def outcome(fn):
    try:
        return ("ok", _nz(H.canon(fn())))
    except RecursionError:
        return ("exc", "RecursionError")
    except Exception as e:
        return ("exc", type(e).__name__, H.family(e))


def _other_cat(db, cat, k=0):
    """a category of another quantity type than `cat`'s (two candidates)"""
    qt = db.GetCategoryQuantityType(cat)
    cands = [c for c in ("time", "mass", "length") if c in db.categories_to_quantity_types and db.GetCategoryQuantityType(c) != qt]
    return cands[k % len(cands)]


def _other_unit(db, cat, k=0):
    return db.GetDefaultUnit(_other_cat(db, cat, k))


def entries(db, qt, cat, base, other, cur=None):
    """[(entry name, f(unit_string))] - every API entry that takes a unit string (statement's list)."""
    import numpy as np
    from barril.basic.fraction import FractionValue
    from barril.units import Array, ChangeScalars, FixedArray, FractionScalar, ObtainQuantity, Quantity, Scalar

    x = 123.567

    def change_scalars(u):
        class Owner:
            pass

        ow = Owner()
        ow.a = Scalar(cat, x, base)
        ChangeScalars(ow, a=(None, u))
        return ow.a

    E = [
        ("FixUnitIfIsLegacy", lambda u: __import__("barril.units.unit_database", fromlist=["x"]).FixUnitIfIsLegacy(u)[1]),
        ("ObtainQuantity(u)", lambda u: ObtainQuantity(u)),
        ("ObtainQuantity(u,c)", lambda u: ObtainQuantity(u, cat)),
        ("ObtainQuantity([(u,2)],[c])", lambda u: ObtainQuantity([(u, 2)], [cat])),
        ("ObtainQuantity([(u,1)],[c])", lambda u: ObtainQuantity([(u, 1)], [cat])),
        ("ObtainQuantity([(u,2)],[c],caption)", lambda u: [ObtainQuantity([(u, 2)], [cat], "a caption"), ObtainQuantity([(u, 2)], [cat])]),
        ("ObtainQuantity(OrderedDict,caption)", lambda u: [ObtainQuantity(__import__("collections").OrderedDict([(cat, [u, -2])]), None, "another caption"), ObtainQuantity([(u, -2)], [cat])]),
        ("ObtainQuantity(u,None,caption)", lambda u: [ObtainQuantity(u, None, "third caption"), ObtainQuantity(u)]),
        ("ObtainQuantity(u,c,caption)", lambda u: ObtainQuantity(u, cat, "cap")),
        ("Quantity(c,u)", lambda u: Quantity(cat, u)),
        ("ObtainQuantity(OrderedDict)", lambda u: ObtainQuantity(__import__("collections").OrderedDict([(cat, [u, 3])]))),
        # a request naming several categories, the spelling in question not in the first position: the order of the categories
        # is part of what the request names (and of the strings the quantity prints)
        ("ObtainQuantity(OrderedDict, u second)", lambda u: (lambda q: [q, q.GetCategory(), q.GetUnit(), list(q.GetCategoryToUnitAndExps())])(ObtainQuantity(__import__("collections").OrderedDict([(_other_cat(db, cat), [_other_unit(db, cat), -1]), (cat, [u, 2])])))),
        ("ObtainQuantity(list, u last)", lambda u: (lambda q: [q, q.GetCategory(), list(q.GetCategoryToUnitAndExps())])(ObtainQuantity([(_other_unit(db, cat), 1), (_other_unit(db, cat, 1), -2), (u, 1)], [_other_cat(db, cat), _other_cat(db, cat, 1), cat]))),
        ("derived Scalar from a request, u second", lambda u: Scalar(ObtainQuantity(__import__("collections").OrderedDict([(_other_cat(db, cat), [_other_unit(db, cat), 1]), (cat, [u, -1])])), x)),
        ("Scalar(ObtainQuantity([(u,2)],[c]),x)", lambda u: Scalar(ObtainQuantity([(u, 2)], [cat]), x)),
        ("Scalar(x,u)", lambda u: Scalar(x, u)),
        ("Scalar(x,u,c)", lambda u: Scalar(x, u, cat)),
        ("Scalar(c,x,u)", lambda u: Scalar(cat, x, u)),
        ("Scalar((x,u))", lambda u: Scalar((x, u))),
        ("Scalar(c,unit=u)", lambda u: Scalar(cat, unit=u)),
        ("Scalar(Quantity)", lambda u: Scalar(ObtainQuantity(u, cat), x)),
        ("Array(values,u)", lambda u: Array([x, 1.0], u)),
        ("Array(c,nd,u)", lambda u: Array(cat, np.array([x, 1.0]), u)),
        ("Array(values,u,c)", lambda u: Array((x, 1.0), u, cat)),
        ("FixedArray(2,values,u)", lambda u: FixedArray(2, [x, 1.0], u)),
        ("FixedArray(2,c,values,u)", lambda u: FixedArray(2, cat, (x, 1.0), u)),
        ("FractionScalar(x,u)", lambda u: FractionScalar(x, u)),
        ("FractionScalar(c,fv,u)", lambda u: FractionScalar(cat, FractionValue(3, (1, 4)), u)),
        ("Scalar.CreateCopy(unit=u)", lambda u: Scalar(cat, x, base).CreateCopy(unit=u)),
        ("Scalar.CreateCopy(v,u,c)", lambda u: Scalar(cat, x, base).CreateCopy(2.0, u, cat)),
        ("Array.CreateCopy(unit=u)", lambda u: Array(cat, [x, 1.0], base).CreateCopy(unit=u)),
        ("FixedArray.CreateCopy(unit=u)", lambda u: FixedArray(2, cat, [x, 1.0], base).CreateCopy(unit=u)),
        ("FractionScalar.CreateCopy(unit=u)", lambda u: FractionScalar(cat, x, base).CreateCopy(unit=u)),
        ("Scalar.GetValue(u)", lambda u: Scalar(cat, x, base).GetValue(u)),
        ("Scalar[legacy].GetValue(other)", lambda u: Scalar(cat, x, u).GetValue(other)),
        ("Array.GetValues(u)", lambda u: Array(cat, [x, 1.0], base).GetValues(u)),
        ("Array[nd].GetValues(u)", lambda u: Array(cat, np.array([x, 1.0]), base).GetValues(u)),
        ("Array[tuple of tuples].GetValues(u)", lambda u: Array(cat, ((x, 1.0), (2.0, 3.0)), base).GetValues(u)),
        ("FixedArray.GetValues(u)", lambda u: FixedArray(2, cat, [x, 1.0], base).GetValues(u)),
        ("FractionScalar.GetValue(u)", lambda u: FractionScalar(cat, FractionValue(3, (1, 4)), base).GetValue(u)),
        ("Quantity.ConvertScalarValue", lambda u: ObtainQuantity(base, cat).ConvertScalarValue(x, u)),
        ("Quantity[legacy].Convert", lambda u: ObtainQuantity(u, cat).Convert(x, other)),
        ("db.Convert(qt,base,u,float)", lambda u: db.Convert(qt, base, u, x)),
        ("db.Convert(qt,u,base,float)", lambda u: db.Convert(qt, u, base, x)),
        ("db.Convert(qt,u,u,float)", lambda u: db.Convert(qt, u, u, x)),
        ("db.Convert(category,u,other,float)", lambda u: db.Convert(cat, u, other, x)),
        ("db.Convert(qt,u,base,list)", lambda u: db.Convert(qt, u, base, [x, 1.0])),
        ("db.Convert(qt,base,u,tuple)", lambda u: db.Convert(qt, base, u, (x, 1.0))),
        ("db.Convert(qt,u,base,ndarray)", lambda u: db.Convert(qt, u, base, np.array([x, 1.0]))),
        ("db.Convert(qt,base,u,int ndarray)", lambda u: db.Convert(qt, base, u, np.array([3, 1]))),
        ("db.Convert(qt,[(u,1)],[(base,1)],x)", lambda u: db.Convert(qt, [(u, 1)], [(base, 1)], x)),
        ("db.Convert(qt,[(u,2)],[(base,2)],x)", lambda u: db.Convert(qt, [(u, 2)], [(base, 2)], x)),
        ("db.Convert(qt,[(base,-1)],[(u,-1)],x)", lambda u: db.Convert(qt, [(base, -1)], [(u, -1)], x)),
        ("db.Convert(qt,[(u,3)],[(other,3)],x)", lambda u: db.Convert(qt, [(u, 3)], [(other, 3)], x)),
        ("squared Scalar.GetValue([(u,2)])", lambda u: (Scalar(cat, x, base) * Scalar(cat, x, base)).GetValue([(u, 2)])),
        ("db.Convert(qt,u,base,FractionValue)", lambda u: db.Convert(qt, u, base, FractionValue(3, (1, 4)))),
        ("db.Convert(qt,base,u,FractionValue)", lambda u: db.Convert(qt, base, u, FractionValue(3, (1, 4)))),
        ("db.Convert(category,u,other,FractionValue)", lambda u: db.Convert(cat, u, other, FractionValue(2.5))),
        ("FractionScalar.ConvertFractionValue", lambda u: FractionScalar.ConvertFractionValue(FractionValue(3, (1, 4)), qt, u, base)),
        ("FractionScalar.ConvertFractionValue(to u)", lambda u: FractionScalar.ConvertFractionValue(FractionValue(3, (1, 4)), ObtainQuantity(base, cat), base, u)),
        ("db.GetDefaultCategory(u)", lambda u: db.GetDefaultCategory(u)),
        ("ChangeScalars", change_scalars),
        ("FixedArray.ChangingIndex(0,(x,u))", lambda u: FixedArray(2, cat, [x, 1.0], base).ChangingIndex(0, (5.0, u))),
        ("FixedArray.IndexAsScalar(0,Quantity(u))", lambda u: FixedArray(2, cat, [x, 1.0], base).IndexAsScalar(0, ObtainQuantity(u, cat))),
        ("Array.FromScalars(unit=u)", lambda u: Array.FromScalars([Scalar(cat, x, base)], unit=u)),
        ("Scalar+Scalar", lambda u: Scalar(cat, x, u) + Scalar(cat, 1.0, base)),
        ("Scalar*Scalar", lambda u: Scalar(cat, x, u) * Scalar(cat, 2.0, u)),
        ("Scalar<Scalar", lambda u: Scalar(cat, x, u) < Scalar(cat, 2.0, base)),
        ("GetUnitName / caption", lambda u: [Scalar(cat, x, u).GetUnitName(), ObtainQuantity(u, cat).GetUnitCaption(), Scalar(cat, x, u).GetValidUnits()]),
        ("IsValid", lambda u: Scalar(cat, x, u).IsValid()),
    ]
    # requests that must be refused - the unit, under either spelling, belongs to another quantity type than the object asked
    fqt, fu = ("time", "s") if qt == "length" else ("length", "m")
    if fqt in db.quantity_types and fqt in db.categories_to_quantity_types:
        E += [
            ("foreign Scalar.GetValue(u)", lambda u: Scalar(fqt, x, fu).GetValue(u)), ("foreign Array.GetValues(u)", lambda u: Array(fqt, [x, 1.0], fu).GetValues(u)),
            ("foreign Array[nd].GetValues(u)", lambda u: Array(fqt, np.array([x, 1.0]), fu).GetValues(u)), ("foreign FractionScalar.GetValue(u)", lambda u: FractionScalar(fqt, FractionValue(3, (1, 4)), fu).GetValue(u)),
            ("foreign db.Convert(qt,fu,u,x)", lambda u: db.Convert(fqt, fu, u, x)), ("foreign db.Convert(qt,u,fu,list)", lambda u: db.Convert(fqt, u, fu, [x])), ("foreign Scalar(c,x,u)", lambda u: Scalar(fqt, x, u)),
            ("foreign Scalar.CreateCopy(unit=u)", lambda u: Scalar(fqt, x, fu).CreateCopy(unit=u)), ("foreign db.GetInfo(qt,u)", lambda u: db.GetInfo(fqt, u).unit), ("foreign Quantity.ConvertScalarValue", lambda u: ObtainQuantity(fu, fqt).ConvertScalarValue(x, u)),
            ("foreign db.CheckQuantityTypeUnit", lambda u: db.CheckQuantityTypeUnit(fqt, u)),
        ]  # fmt: skip
    if cur is not None:
        # objects that already *are* in the unit being asked for (the current spelling of it), plain and with a caption on the quantity
        def own(caption):
            return ObtainQuantity(cur, cat, caption) if caption else ObtainQuantity(cur, cat)

        for caption in (None, "rate of well A"):
            tag = " [own unit%s]" % (", captioned quantity" if caption else "")
            E += [
                ("Scalar.CreateCopy(unit=u)" + tag, lambda u, caption=caption: Scalar(own(caption), x).CreateCopy(unit=u)),
                ("Array.CreateCopy(unit=u)" + tag, lambda u, caption=caption: Array(own(caption), [x, 1.0]).CreateCopy(unit=u)),
                ("FixedArray.CreateCopy(unit=u)" + tag, lambda u, caption=caption: FixedArray(2, own(caption), [x, 1.0]).CreateCopy(unit=u)),
                ("FractionScalar.CreateCopy(unit=u)" + tag, lambda u, caption=caption: FractionScalar.CreateWithQuantity(own(caption), value=x).CreateCopy(unit=u)),
                ("Scalar.GetValue(u)" + tag, lambda u, caption=caption: Scalar(own(caption), x).GetValue(u)),
                ("Scalar.CreateCopy(value, unit=u)" + tag, lambda u, caption=caption: Scalar(own(caption), x).CreateCopy(value=7.0, unit=u)),
                ("Scalar==Scalar" + tag, lambda u, caption=caption: [Scalar(own(caption), x) == Scalar(cat, x, u), Scalar(cat, x, u) == Scalar(own(caption), x)]),
                # numpy containers (amounts that do not survive a trip to the base unit and back bit for bit)
                ("Array[ndarray].GetValues(u)" + tag, lambda u, caption=caption: Array(own(caption), np.array([0.1, 7.7, x, 1.0 / 3.0])).GetValues(u)),
                ("Array[ndarray].CreateCopy(unit=u)" + tag, lambda u, caption=caption: Array(own(caption), np.array([0.1, 7.7, x, 1.0 / 3.0])).CreateCopy(unit=u)),
                ("FixedArray[ndarray].GetValues(u)" + tag, lambda u, caption=caption: FixedArray(3, own(caption), np.array([0.1, 7.7, 1.0 / 3.0])).GetValues(u)),
                ("Quantity.Convert(ndarray, u)" + tag, lambda u, caption=caption: own(caption).Convert(np.array([0.1, 7.7, x]), u)),
                ("Array[ndarray f4].GetValues(u)" + tag, lambda u, caption=caption: Array(own(caption), np.array([0.1, 7.7], dtype=np.float32)).GetValues(u)),
            ]
    return E


N_REG = [0]


def registration(ctx, qt, legacy, current, units_of_type):
    """category registration with the legacy spelling vs the current one, on private databases."""
    out = []
    base = units_of_type[0]
    forms = [
        ("AddCategory(valid_units=[u],default_unit=u)", lambda u: {"valid_units": [u], "default_unit": u}),
        ("AddCategory(valid_units=[u])", lambda u: {"valid_units": [u]}),
        ("AddCategory(valid_units=[u,base])", lambda u: {"valid_units": [u, base] if current != base else [u]}),
        ("AddCategory(valid_units=[other,u])", lambda u: {"valid_units": [x for x in units_of_type if x not in (current, base)][:1] + [u]}),
        ("AddCategory(default_unit=u)", lambda u: {"default_unit": u}),
        ("AddCategory(default_unit=u,min,max)", lambda u: {"default_unit": u, "min_value": 0.0, "max_value": 10.0}),
        # a copy of the category named after the type, with units of its own on top
        ("AddCategory(from_category, valid_units=[u])", lambda u: {"from_category": qt, "valid_units": [u], "_no_qt": True}),
        ("AddCategory(from_category, valid_units=[u,base], default_unit=u)", lambda u: {"from_category": qt, "valid_units": [u, base] if current != base else [u], "default_unit": u, "_no_qt": True}),
        ("AddCategory(from_category, valid_units=[base,u])", lambda u: {"from_category": qt, "valid_units": ([base] if current != base else []) + [u], "_no_qt": True}),
    ]
    for name, mk in forms:
        res = []
        for spelling in (legacy, current):
            db = table.build("posc")
            with table.pushed(db):
                from barril.units import Scalar

                def f():
                    kw = mk(spelling)
                    given = list(kw.get("valid_units") or [])
                    ci = db.AddCategory("c16 category", **kw) if kw.pop("_no_qt", False) else db.AddCategory("c16 category", qt, **kw)
                    s = Scalar("c16 category")
                    return [ci.quantity_type, list(ci.valid_units) if ci.valid_units is not None else None, sorted(ci.valid_units_set), ci.default_unit, ci.default_value, ci.min_value, ci.max_value,
                            db.GetDefaultUnit("c16 category"), list(db.GetValidUnits("c16 category")), s, s.GetValidUnits(), Scalar("c16 category", 1.0, spelling), Scalar("c16 category", unit=spelling)]  # fmt: skip

                res.append(outcome(f))
        out.append((name, res[0], res[1]))
    # from_category chain: the legacy spelling in the parent, the current one in the child (and vice versa)
    res = []
    for first, second in ((legacy, current), (current, legacy)):
        db = table.build("posc")
        with table.pushed(db):

            def f():
                db.AddCategory("c16 parent", qt, valid_units=[first], default_unit=first)
                ci = db.AddCategory("c16 child", from_category="c16 parent", default_unit=second)
                return [list(ci.valid_units), ci.default_unit, list(db.GetValidUnits("c16 child"))]

            res.append(outcome(f))
    out.append(("AddCategory(from_category, default_unit=u)", res[0], res[1]))
    return out


def second_database(ctx, subs):
    """After the shipped database resolved every legacy spelling, a *second* database that defines the same symbols
    with other factors (or not at all): there, too, the legacy spelling must mean exactly what the current one means
    there - nothing learnt about a spelling in one database may leak into another."""
    import numpy as np
    from barril.units import Array, Scalar, UnitDatabase

    db2 = UnitDatabase()
    cur_units = sorted({cur for _leg, cur in subs})
    with table.pushed(db2):
        db2.AddUnitBase("volume", "cubic metre", "m3")
        db2.AddUnitBase("force per velocity", "newton second per metre", "kg/s")
        db2.AddUnitBase("amount of substance", "mole", "mol")
        fac = {"Mcf": 7.0, "Mm3": 3.0, "MMcf": 11.0, "MMm3": 13.0, "N.s/m": 5.0, "lbmol": 17.0, "gmol": 19.0}
        qt_of = {"Mcf": "volume", "Mm3": "volume", "MMcf": "volume", "MMm3": "volume", "N.s/m": "force per velocity", "lbmol": "amount of substance", "gmol": "amount of substance"}
        for cur in cur_units:
            if cur in fac and cur != "MMm3":  # one symbol is left out on purpose: both spellings must fail alike
                db2.AddUnit(qt_of[cur], cur, cur, "%%f / %r" % fac[cur], "%%f * %r" % fac[cur])
        for qt in ("volume", "force per velocity", "amount of substance"):
            db2.AddCategory(qt, qt)
        base = {"volume": "m3", "force per velocity": "kg/s", "amount of substance": "mol"}
        for leg, cur in subs:
            qt = qt_of.get(cur)
            if qt is None:
                continue
            b = base[qt]
            for name, fn in (
                ("db2.Convert(qt,u,base,x)", lambda u: db2.Convert(qt, u, b, 2.0)), ("db2.Convert(qt,base,u,list)", lambda u: db2.Convert(qt, b, u, [2.0, 4.0])),
                ("db2.Convert(qt,u,base,ndarray)", lambda u: db2.Convert(qt, u, b, np.array([2.0, 4.0]))), ("Scalar(x,u).GetValue(base)", lambda u: Scalar(2.0, u).GetValue(b)),
                ("Scalar(x,base).GetValue(u)", lambda u: Scalar(2.0, b).GetValue(u)), ("Array.GetValues(u)", lambda u: Array(qt, [2.0, 4.0], b).GetValues(u)),
                ("Scalar.CreateCopy(unit=u)", lambda u: Scalar(qt, 2.0, b).CreateCopy(unit=u)), ("db2.GetDefaultCategory(u)", lambda u: db2.GetDefaultCategory(u)),
            ):  # fmt: skip
                ctx.ev()
                ctx.nt(("second database", leg, name))
                ol, oc = outcome(lambda: fn(leg)), outcome(lambda: fn(cur))
                if cur not in fac or cur == "MMm3":
                    # the symbol is not a unit of this database: the property speaks of table units only, so how the
                    # two spellings fail is not compared (GetDefaultCategory: None for one, KeyError for the other) -
                    # only that neither spelling yields something where the other yields nothing
                    ol, oc = [("nothing",) if (o[0] != "ok" or o[1] is None) else o for o in (ol, oc)]
                if ol != oc:
                    ctx.violation("second-database:legacy-differs-from-current:%s" % name, {"legacy": leg, "current": cur, "entry": name, "with_legacy": ol, "with_current": oc})
                elif oc[0] == "ok":
                    ctx.count("second database: pairs agreeing on a value")


def first_use_orders(ctx, spell, shard, nshards):
    """What a spelling means must not depend on how it was used first. On a fresh database every legacy spelling is
    used first under a category that is *not* the default category of its unit (then under the default one, then
    without any) - and the other way round on a second fresh database - before the category-less forms of both
    spellings are compared."""
    import numpy as np
    from barril.basic.fraction import FractionValue
    from barril.units import Array, FractionScalar, ObtainQuantity, Scalar

    for order in ("other category first", "no category first"):
        db = table.build("posc")
        with table.pushed(db):
            cbt = table.categories_by_type(db)
            for i, (leg, cur) in enumerate(sorted(spell.items())):
                if i % nshards != shard:
                    continue
                qt = db.GetQuantityType(cur)
                dc = db.GetDefaultCategory(cur)
                others = [c for c in cbt.get(qt, []) if c != dc]
                if not others or not dc:
                    continue
                oc_ = others[0]
                try:
                    if order == "other category first":
                        first = [Scalar(1.0, leg, oc_), ObtainQuantity(leg, oc_, "a caption"), Array(oc_, [1.0], leg), Scalar(1.0, leg, dc)]
                    else:
                        first = [Scalar(1.0, leg), Scalar(1.0, leg, oc_), ObtainQuantity(leg, oc_)]
                except Exception as e:
                    ctx.ev()
                    ctx.violation("first-use:legacy-spelling-refused:%s" % order, {"legacy": leg, "current": cur, "category": oc_, "error": repr(e)[:160]})
                    continue
                forms = (
                    ("Scalar(x,u)", lambda u: Scalar(1.0, u)), ("ObtainQuantity(u)", lambda u: ObtainQuantity(u)), ("Array(values,u)", lambda u: Array([1.0, 2.0], u)),
                    ("Array(ndarray,u)", lambda u: Array(np.array([1.0, 2.0]), u)), ("FractionScalar(x,u)", lambda u: FractionScalar(FractionValue(1, (1, 2)), u)),
                    ("empty Scalar.CreateCopy(unit=u)", lambda u: Scalar.CreateEmptyScalar(2.0).CreateCopy(unit=u)), ("ObtainQuantity(u,None,caption)", lambda u: ObtainQuantity(u, None, "a caption")),
                    ("Scalar(x,u,default category)", lambda u: Scalar(1.0, u, dc)), ("Scalar(x,u,other category)", lambda u: Scalar(1.0, u, oc_)),
                )  # fmt: skip
                for name, fn in forms:
                    ctx.ev()
                    ctx.nt(("first use", order, leg, name))
                    ol, oc = outcome(lambda: fn(leg)), outcome(lambda: fn(cur))
                    if ol != oc:
                        ctx.violation("first-use:legacy-differs-from-current:%s" % name, {"order": order, "legacy": leg, "current": cur, "first_used_under": oc_, "default_category": dc, "with_legacy": ol, "with_current": oc}, replay={"legacy": leg, "current": cur})
                    elif oc[0] == "ok":
                        ctx.count("first-use pairs agreeing on a value")
                del first


def database_that_is_not_the_singleton(ctx, spell, shard, nshards):
    """The shipped table asked through its own methods while *another*, smaller database is the singleton of the moment: what
    a spelling means to a database is that database's business."""
    import numpy as np
    from barril.units import UnitDatabase

    full = table.build("posc")
    small = UnitDatabase()
    small.AddUnitBase("length", "metre", "m")
    small.AddCategory("length", "length")
    with table.pushed(small):
        for i, (leg, cur) in enumerate(sorted(spell.items())):
            if i % nshards != shard:
                continue
            qt = full.GetQuantityType(cur)
            base = full.GetBaseUnit(qt)
            forms = (
                ("full.Convert(qt,u,base,x)", lambda u: full.Convert(qt, u, base, 2.5)), ("full.Convert(qt,base,u,list)", lambda u: full.Convert(qt, base, u, [2.5, 1.0])), ("full.Convert(qt,u,base,ndarray)", lambda u: full.Convert(qt, u, base, np.array([2.5]))),
                ("full.GetDefaultCategory(u)", lambda u: full.GetDefaultCategory(u)), ("full.GetInfo(qt,u)", lambda u: full.GetInfo(qt, u).unit), ("full.GetUnitName(u)", lambda u: full.GetUnitName(u)),
                ("full.Convert(qt,[(u,2)],[(base,2)],x)", lambda u: full.Convert(qt, [(u, 2)], [(base, 2)], 2.5)),
            )  # fmt: skip
            for name, fn in forms:
                ctx.ev()
                ctx.nt(("not the singleton", leg, name))
                ol, oc = outcome(lambda: fn(leg)), outcome(lambda: fn(cur))
                if ol != oc:
                    ctx.violation("not-the-singleton:legacy-differs-from-current:%s" % name, {"legacy": leg, "current": cur, "with_legacy": ol, "with_current": oc}, replay={"legacy": leg, "current": cur})
                elif oc[0] == "ok":
                    ctx.count("pairs agreeing on a value on a database that is not the singleton")


def categories_registered_later(ctx, spell, shard, nshards):
    """A database filled step by step (`fill_categories=False`, the categories added afterwards): both spellings are asked
    about while the unit has no category (both are refused alike), the category is registered, both are asked again -
    what was answered for a spelling before must not stand in for what is true now."""
    import numpy as np
    from barril.units import Array, FractionScalar, ObtainQuantity, Scalar, UnitDatabase

    for order in ("legacy asked first", "current asked first", "nothing asked before"):
        db = UnitDatabase()
        UnitDatabase.FillUnitDatabaseWithPosc(db, fill_categories=False)
        full = table.build("posc")
        with table.pushed(db):
            forms = (
                ("GetDefaultCategory(u)", lambda u: db.GetDefaultCategory(u)), ("Scalar(x,u)", lambda u: Scalar(1.0, u)), ("ObtainQuantity(u)", lambda u: ObtainQuantity(u)), ("Array(values,u)", lambda u: Array([1.0, 2.0], u)),
                ("Array(ndarray,u)", lambda u: Array(np.array([1.0, 2.0]), u)), ("FractionScalar(x,u)", lambda u: FractionScalar(1.5, u)), ("Array.FromScalars", lambda u: Array.FromScalars([Scalar(1.0, u), Scalar(2.0, u)])),
                ("ObtainQuantity(u,None,caption)", lambda u: ObtainQuantity(u, None, "a caption")), ("empty Scalar.CreateCopy(unit=u)", lambda u: Scalar.CreateEmptyScalar(2.0).CreateCopy(unit=u)),
            )  # fmt: skip
            todo = [(leg, cur) for i, (leg, cur) in enumerate(sorted(spell.items())) if i % nshards == shard]
            for leg, cur in todo:
                first = {"legacy asked first": (leg, cur), "current asked first": (cur, leg), "nothing asked before": ()}[order]
                for sp in first:
                    for name, fn in forms:
                        ctx.ev()
                        outcome(lambda: fn(sp))
            # the categories of the shipped table, one by one
            for c in sorted(full.categories_to_quantity_types):
                info = full.categories_to_quantity_types[c]
                try:
                    db.AddCategory(c, info.quantity_type, valid_units=info.valid_units, default_unit=info.default_unit)
                except Exception:
                    ctx.count("later categories that could not be registered")
            for leg, cur in todo:
                for name, fn in forms:
                    ctx.ev()
                    ctx.nt(("categories later", order, leg, name))
                    ol, oc = outcome(lambda: fn(leg)), outcome(lambda: fn(cur))
                    if ol != oc:
                        ctx.violation("categories-later:legacy-differs-from-current:%s" % name, {"order": order, "legacy": leg, "current": cur, "with_legacy": ol, "with_current": oc}, replay={"legacy": leg, "current": cur})
                    elif oc[0] == "ok":
                        ctx.count("pairs agreeing on a value after their category was registered later")


def spellings_registered_as_units(ctx, spell, shard, nshards):
    """A legacy spelling is *used* (so whatever the library remembers about it is remembered), then registered as a unit of
    its own - in the quantity type of its old reading, or in a quantity type of the application - and is from then on a
    current symbol of the table: it means the registered unit, exactly as on a database where it was registered before
    anyone used it ("no current unit symbol of the table is ever rewritten into something else")."""
    import numpy as np
    from barril.units import Array, FractionScalar, ObtainQuantity, Scalar, UnitDatabase

    warm, fresh = table.build("posc"), table.build("posc")
    todo = [(leg, cur) for i, (leg, cur) in enumerate(sorted(spell.items())) if i % nshards == shard][:: 1 if ctx.tier != "quick" else 3]

    def register(db, k, leg, cur):
        if k % 2 == 0:
            db.AddUnit("c16 own units", "a unit of the application", leg, "%f*7.0", "%f/7.0")
        else:
            db.AddUnit(db.GetQuantityType(cur), "an old symbol with a meaning of its own", leg, "%f*7.0", "%f/7.0")

    def forms(db, k, leg, cur):
        qt = "c16 own units" if k % 2 == 0 else db.GetQuantityType(cur)
        base = db.GetBaseUnit(qt)
        return (
            ("Scalar(x,u)", lambda: Scalar(2.0, leg)), ("ObtainQuantity(u)", lambda: ObtainQuantity(leg)), ("ObtainQuantity(u,None,caption)", lambda: ObtainQuantity(leg, None, "a caption")), ("Scalar(x,u).GetValue(base)", lambda: Scalar(2.0, leg).GetValue(base)),
            ("Array(ndarray,u)", lambda: Array(np.array([1.0, 2.0]), leg)), ("FractionScalar(x,u)", lambda: FractionScalar(1.5, leg)), ("GetDefaultCategory(u)", lambda: db.GetDefaultCategory(leg)), ("GetQuantityType(u)", lambda: db.GetQuantityType(leg)),
            ("Convert(qt,u,base,x)", lambda: db.Convert(qt, leg, base, 2.0)), ("empty Scalar.CreateCopy(unit=u)", lambda: Scalar.CreateEmptyScalar(2.0).CreateCopy(unit=leg)), ("Scalar(x,u,old default category)", lambda: Scalar(2.0, leg, db.GetDefaultCategory(cur))),
            ("ObtainQuantity(u, old default category)", lambda: ObtainQuantity(leg, db.GetDefaultCategory(cur))), ("Scalar(x, current spelling)", lambda: Scalar(2.0, cur)), ("Scalar(own category, x, u)", lambda: Scalar("c16 own units", 2.0, leg)),
        )  # fmt: skip

    for db in (warm, fresh):
        db.AddUnitBase("c16 own units", "base of the application's units", "c16 base")
        db.AddCategory("c16 own units", "c16 own units")
    now = {}
    with table.pushed(warm):
        for k, (leg, cur) in enumerate(todo):
            dc = warm.GetDefaultCategory(cur)
            for use in (lambda: Scalar(1.0, leg), lambda: ObtainQuantity(leg), lambda: ObtainQuantity(leg, dc), lambda: ObtainQuantity(leg, None, "a caption"), lambda: Array(dc, [1.0], leg), lambda: FractionScalar(1.5, leg),
                        lambda: Scalar.CreateEmptyScalar(2.0).CreateCopy(unit=leg), lambda: ObtainQuantity(leg, dc, "a caption")):  # fmt: skip
                outcome(use)
            try:
                register(warm, k, leg, cur)
            except Exception as e:
                ctx.count("spellings that could not be registered as units (%s)" % type(e).__name__)
                continue
            now[leg] = {name: outcome(fn) for name, fn in forms(warm, k, leg, cur)}
        end = {leg: {name: outcome(fn) for name, fn in forms(warm, k, leg, cur)} for k, (leg, cur) in enumerate(todo) if leg in now}
    with table.pushed(fresh):
        for k, (leg, cur) in enumerate(todo):
            if leg in now:
                register(fresh, k, leg, cur)
        for k, (leg, cur) in enumerate(todo):
            if leg not in now:
                continue
            for name, fn in forms(fresh, k, leg, cur):
                ctx.ev()
                ctx.nt(("registered as a unit", leg, name))
                of = outcome(fn)
                for when, ow in (("right after the registration", now[leg][name]), ("after all registrations", end[leg][name])):
                    if ow != of:
                        ctx.violation("registered-spelling:used-before-differs-from-never-used:%s" % name, {"symbol": leg, "old_reading": cur, "registered_in": "a type of the application" if k % 2 == 0 else "the type of its old reading", "asked": when,
                                                                                                          "used_before_the_registration": ow, "never_used_before": of}, replay={"legacy": leg, "current": cur})  # fmt: skip
                        break
                else:
                    if of[0] == "ok":
                        ctx.count("registered spellings: pairs agreeing on a value")


def run(ctx):
    from barril.units import ObtainQuantity, Quantity, UnitDatabase
    from barril.units import unit_database as ud

    probe.install()
    probe.reach([ud.FixUnitIfIsLegacy, UnitDatabase.AddCategory, UnitDatabase.GetDefaultCategory, UnitDatabase.GetInfo, ObtainQuantity, Quantity.__init__])
    db = table.build("posc")
    subs = substitutions()
    Fix = ud.FixUnitIfIsLegacy
    with table.pushed(db):
        ubt = table.units_by_type(db)
        units = [u for us in ubt.values() for u in us]
        spell = derive_spellings(units, subs)
        n_entries = 0
        per_entry, per_entry_exc = {}, {}
        n_str_sub = 0
        ctx.rule = (
            "legacy spellings derived from the %d substitutions for all %d table units (every non-empty subset of token occurrences x every legacy form, not themselves table symbols): %d spellings; "
            "each x ~55 API entry forms + 7 category-registration forms, legacy vs current spelling, canonical outcomes identical; all current symbols and all category default/valid units unchanged by "
            "the rewrite; rewrite idempotent. distinct = (spelling, entry form)" % (len(subs), len(units), len(spell))
        )
        ctx.assumptions = ["CheckQuantityTypeUnit / GetQuantityType / GetUnitName(qt, unit) / Quantity.CreateDerived reject legacy spellings by design, GetFormatted(unit) echoes the given string; none is in the statement's list", "outcomes compared canonically (class, value repr, unit, category, quantity items), exceptions by class"]
        ctx.exhaustive = True
        ctx.notes["legacy_spellings"] = {"n": len(spell)}
        # (1) no current symbol is rewritten
        if ctx.shard == 0:
            for u in units:
                ctx.ev()
                ch, f = Fix(u)
                if ch or f != u:
                    ctx.violation("current-symbol-rewritten:%s" % u, {"unit": u, "rewritten_to": f, "still_a_table_symbol": f in set(units)})
                ch2, f2 = Fix(f)
                if f2 != f:
                    ctx.violation("rewrite-not-idempotent:%s" % u, {"unit": u, "once": f, "twice": f2})
            for c, ci in db.categories_to_quantity_types.items():
                for u in [ci.default_unit] + list(ci.valid_units or []):
                    ctx.ev()
                    if Fix(u)[1] != u:
                        ctx.violation("category-unit-rewritten:%s" % u, {"category": c, "unit": u, "rewritten_to": Fix(u)[1]})
            ctx.count("current symbols checked", len(units))
        # (2) every derived spelling
        cbt = table.categories_by_type(db)
        utype = {u: qt for qt, us in ubt.items() for u in us}
        for idx, (leg, cur) in enumerate(sorted(spell.items())):
            if idx % ctx.nshards != ctx.shard:
                continue
            qt = utype[cur]
            us = ubt[qt]
            base = us[0]
            other = next((x for x in us if x not in (cur, base)), base)
            cats = cbt.get(qt, [])
            dc = db.GetDefaultCategory(cur)
            cat_list = [dc] + [c for c in cats if c != dc][:1] if dc else cats[:2]
            ctx.ev()
            ch, f = Fix(leg)
            if f != cur or not ch:
                ctx.violation("legacy-spelling-not-restored:%s" % leg, {"legacy": leg, "rewritten_to": f, "expected": cur})
                continue
            ch2, f2 = Fix(f)
            if ch2 or f2 != f:
                ctx.violation("rewrite-not-idempotent:%s" % leg, {"legacy": leg, "once": f, "twice": f2})
            # a category of the application with a non-zero default amount (every shipped default is 0: an amount that needs
            # no conversion), asked for in the legacy spelling without a value
            nz = "vp16 non-zero default %s" % qt
            if nz not in db.categories_to_quantity_types:
                try:
                    db.AddCategory(nz, qt, default_unit=base if base != cur else other, default_value=999.99)
                except Exception:
                    nz = None
            if nz:
                from barril.units import FractionScalar as _FS, Scalar as _S

                for name, fn in (("Scalar(c,unit=u) of a non-zero default", lambda u: _S(nz, unit=u)), ("FractionScalar(c,unit=u) of a non-zero default", lambda u: _FS(nz, unit=u)),
                                 ("Scalar(c).CreateCopy(unit=u) of a non-zero default", lambda u: _S(nz).CreateCopy(unit=u))):  # fmt: skip
                    ctx.ev()
                    ctx.nt((leg, name))
                    ol, oc = outcome(lambda: fn(leg)), outcome(lambda: fn(cur))
                    if ol != oc:
                        ctx.violation("legacy-differs-from-current:%s" % name, {"legacy": leg, "current": cur, "category": nz, "entry": name, "with_legacy": ol, "with_current": oc}, replay={"legacy": leg, "current": cur})
            # the spelling carried by a str *subclass* (numpy.str_ from an array of unit names, an application's own str type)
            if n_str_sub % 3 == 0 and cat_list:
                import numpy as _np

                class AppStr(str):
                    pass

                for wrap_name, wrap in (("numpy.str_", _np.str_), ("str subclass", AppStr)):
                    for name, fn in entries(db, qt, cat_list[0], base if base != cur else other, other):
                        ctx.ev()
                        # several entries insist on exact str objects ("Only str is accepted" - a TypeError, for either spelling):
                        # a spelling handed over as a str subclass is therefore either refused as not-a-str, or means what the
                        # same text means as a plain str - never a third thing
                        ol, plain = outcome(lambda: fn(wrap(leg))), outcome(lambda: fn(leg))
                        if ol != plain and not (ol[0] == "exc" and ol[1] in ("TypeError", "AssertionError")):  # (derived requests assert the class)
                            ctx.violation("legacy-spelling-as-a-str-subclass-differs-from-the-plain-str:%s:%s" % (name, wrap_name), {"legacy": leg, "current": cur, "entry": name, "given_as": wrap_name, "as_subclass": ol, "as_plain_str": plain}, replay={"legacy": leg, "current": cur})
                        elif ol[0] == "ok":
                            ctx.count("entry pairs agreeing on a value (spelling given as a str subclass)")
            n_str_sub += 1
            for cat in cat_list:
                # between two old spellings of one unit ('1000ft3/d' and 'k(ft3)/d'): no conversion at all, as between the current
                # spelling and itself
                for sib in [l_ for l_, c_ in spell.items() if c_ == cur and l_ != leg][:2]:
                    for vname, val in (("float", 3.1415), ("int", 7), ("list", [3.1415, 7])):
                        ctx.ev()
                        got_ = outcome(lambda: db.Convert(qt, leg, sib, val))
                        want_ = outcome(lambda: db.Convert(qt, cur, cur, val))
                        if got_ != want_:
                            ctx.violation("conversion-between-two-legacy-spellings-of-one-unit-is-not-the-identity", {"legacy": leg, "other_legacy": sib, "current": cur, "value": vname, "got": got_, "identity": want_}, replay={"legacy": leg, "current": cur})
                        else:
                            ctx.count("conversions between two legacy spellings of one unit")
                for name, fn in entries(db, qt, cat, base if base != cur else other, other, cur):
                    ctx.ev()
                    n_entries += 1
                    ol = outcome(lambda: fn(leg))
                    oc = outcome(lambda: fn(cur))
                    ctx.nt((leg, name))
                    if ol != oc:
                        ctx.violation("legacy-differs-from-current:%s" % name, {"legacy": leg, "current": cur, "category": cat, "entry": name, "with_legacy": ol, "with_current": oc},
                                      replay={"legacy": leg, "current": cur})  # fmt: skip
                    elif oc[0] == "ok":
                        ctx.count("entry pairs agreeing on a value")
                        per_entry[name] = per_entry.get(name, 0) + 1
                    else:
                        ctx.count("entry pairs agreeing on an exception")
                        per_entry.setdefault(name, 0)
                        per_entry_exc[name] = oc[1]
            # the caller's warning filter set to "error" (a test run with -W error, a service that treats warnings as faults): whatever
            # the library may have to say about an old spelling, the spelling still means the unit
            if cat_list:
                import warnings as _w

                for k_, (name, fn) in enumerate(entries(db, qt, cat_list[0], base if base != cur else other, other, cur)):
                    if k_ % 5 != idx % 5:
                        continue
                    ctx.ev()
                    ctx.nt((leg, name, "warnings as errors"))
                    with _w.catch_warnings():
                        _w.simplefilter("error")
                        ol, oc = outcome(lambda: fn(leg)), outcome(lambda: fn(cur))
                    if ol != oc:
                        ctx.violation("legacy-differs-from-current:under-an-error-warning-filter:%s" % name, {"legacy": leg, "current": cur, "category": cat_list[0], "entry": name, "with_legacy": ol, "with_current": oc}, replay={"legacy": leg, "current": cur})
                    elif oc[0] == "ok":
                        ctx.count("entry pairs agreeing on a value with warnings turned into errors")
            for name, ol, oc in registration(ctx, qt, leg, cur, us):
                ctx.ev()
                ctx.nt((leg, name))
                if ol != oc:
                    ctx.violation("legacy-differs-from-current:%s" % name, {"legacy": leg, "current": cur, "entry": name, "with_legacy": ol, "with_current": oc}, replay={"legacy": leg, "current": cur})
                elif oc[0] == "ok":
                    ctx.count("registration pairs agreeing on a value")
                else:
                    ctx.count("registration pairs agreeing on an exception")
        # an entry form that never once produced a value decides nothing (both spellings failing alike is also what
        # a mistake in the form itself looks like): named in the evidence, and the run is inconclusive
        dead = sorted(n for n, k in per_entry.items() if k == 0)
        ctx.notes["entry_forms"] = {"with_a_value": sum(1 for k in per_entry.values() if k), "never_a_value": {n: per_entry_exc.get(n) for n in dead}}
        ctx.inconclusive_if(bool(dead) and ctx.nshards == 1, "entry forms that never produced a value: %s" % dead[:5])
        first_use_orders(ctx, spell, ctx.shard, ctx.nshards)
        categories_registered_later(ctx, spell, ctx.shard, ctx.nshards)
        database_that_is_not_the_singleton(ctx, spell, ctx.shard, ctx.nshards)
        spellings_registered_as_units(ctx, spell, ctx.shard, ctx.nshards)
        if ctx.shard == 0:
            second_database(ctx, subs)
            ctx.sample({"spellings": sorted(spell.items())[:12]})
            ctx.sample({"entry forms": [n for n, _f in entries(db, "length", "length", "m", "cm")]})
    ctx.inconclusive_if(len(spell) < 20, "fewer than 20 legacy spellings derived (substitution list empty or table not loaded)")
    ctx.inconclusive_if(ctx.counters.get("entry pairs agreeing on a value", 0) < 100 * max(1, len(spell) // (8 * ctx.nshards)), "too few entry pairs produced a value - legacy spellings are not being accepted at all or the harness is off")


def replay(ctx, d):
    probe.install()
    db = table.build("posc")
    with table.pushed(db):
        ubt = table.units_by_type(db)
        utype = {u: qt for qt, us in ubt.items() for u in us}
        leg, cur = d["legacy"], d["current"]
        qt = utype[cur]
        us = ubt[qt]
        base = us[0]
        other = next((x for x in us if x not in (cur, base)), base)
        cat = db.GetDefaultCategory(cur) or table.categories_by_type(db)[qt][0]
        for name, fn in entries(db, qt, cat, base if base != cur else other, other):
            ctx.ev()
            ol, oc = outcome(lambda: fn(leg)), outcome(lambda: fn(cur))
            if ol != oc:
                ctx.violation("legacy-differs-from-current:%s" % name, {"legacy": leg, "current": cur, "with_legacy": ol, "with_current": oc})
        for name, ol, oc in registration(ctx, qt, leg, cur, us):
            if ol != oc:
                ctx.violation("legacy-differs-from-current:%s" % name, {"legacy": leg, "current": cur, "with_legacy": ol, "with_current": oc})
