"""C15 - queries are pure and caches are semantically invisible (DESIGN.md 4, C15).

(A) registry-pure monitor: the canonical registry snapshot (attributes *and* public getters, every list
    copied) is taken around every query of every history; a query that is not a registration must leave it
    identical.
(B) warm-vs-fresh differential: histories interleave self-contained queries (creation in every form,
    conversion, validation, arithmetic incl. derived quantities built by CreateDerived, lookups that fail,
    pickles) with registrations (later units, category overrides, from_category, legacy spellings, rejected
    calls).  For each query a *fresh* database is built by replaying only the registrations accepted so far and
    the same query is asked first thing; the outcome (canonical value, or exception family) must be the same.
    Thorough tier: the same with the shipped POSC database as the starting point.
"""
import re
import pickle
from collections import OrderedDict

from .. import probe
from ..models import snapshot
from ..workloads import histories as H
from ..workloads import table

SHARDS = {"quick": 4, "thorough": 16}
WATCHDOG_S = {"quick": 900, "thorough": 7200}
FLOORS = (10000, 300)

REG = [
    ("AddUnitBase", ("length", "metre", "m"), {}),
    ("AddUnit", ("length", "centimetre", "cm", "%f*100.0", "%f/100.0"), {}),
    ("AddUnitBase", ("time", "second", "s"), {}),
    ("AddCategory", ("length", "length"), {}),
    ("AddUnitBase", ("Unknown", "<unknown>", "<unknown>"), {}),
    ("AddCategory", ("Unknown", "Unknown"), {"valid_units": ["<unknown>"]}),
    ("AddCategory", ("depth", "length"), {"valid_units": ["m"], "default_unit": "m"}),
    ("AddUnit", ("time", "minute", "min", "%f/60.0", "%f*60.0"), {}),
    ("AddCategory", ("time", "time"), {}),
    ("AddUnit", ("length", "kilometre", "km", "%f/1000.0", "%f*1000.0"), {}),
    ("AddCategory", ("length", "length"), {"override": True, "min_value": 0.0}),
    ("AddUnitBase", ("volume", "cubic metre", "m3"), {}),
    ("AddUnit", ("volume", "thousand cubic feet", "Mcf", "%f/28.316846592", "%f*28.316846592"), {}),
    ("AddCategory", ("depth", "length"), {"override": True, "valid_units": ["m", "km"], "default_unit": "km", "max_value": 10.0}),
    ("AddCategory", ("span",), {"from_category": "depth"}),
    ("AddCategory", ("volume", "volume"), {"valid_units": ["m3", "1000ft3"]}),
    ("AddUnit", ("length", "zed", "zz", "%f*3.0", "%f/3.0"), {"default_category": "depth"}),
    ("AddCategory", ("length", "length"), {"override": True, "max_value": 100.0, "default_unit": "cm"}),
    ("AddCategory", ("time", "time"), {"override": True, "valid_units": ["min"], "min_value": 1.0, "default_value": 2.0}),
    ("AddCategory", ("span", "time"), {"override": True}),
    # a category without a list of its own beside the restricted category named after its type, and a unit outside that list
    ("AddCategory", ("tank", "volume"), {}),
    ("AddUnit", ("volume", "litre", "L", "%f*1000.0", "%f/1000.0"), {}),
]
BAD_REG = [
    ("AddUnit", ("time", "metre again", "m", "%f", "%f"), {}),
    ("AddCategory", ("depth", "length"), {}),
    ("AddCategory", ("nope", "bogus"), {}),
    ("AddCategory", ("lim", "length"), {"min_value": 5.0, "max_value": 1.0}),
    ("AddCategory", ("lim", "length"), {"valid_units": ["s"]}),
    ("AddUnit", ("newtype", "centimetre again", "cm", "%f", "%f"), {}),
]
UN = ["m", "cm", "km", "s", "min", "zz", "m3", "Mcf", "1000ft3", "nounit", "L"]
CA = ["length", "depth", "time", "span", "volume", "nope", "tank"]
XS = [1.0, -1.0, 5.0, 20.0, 0.0, 150.0]
KINDS = [
    "Scalar(c,x,u)", "Scalar(x,u)", "Scalar(x,u,c)", "Scalar(c)", "Scalar(c,unit=u)", "GetValue", "IsValid", "CheckValidity", "obj.GetValidUnits", "db.GetValidUnits", "db.Convert", "db.Convert(list)",
    "GetDefaultCategory", "GetDefaultUnit/Value", "GetUnits", "GetBaseUnit", "GetCategoryInfo", "CheckCategoryUnit", "CheckQuantityTypeUnit", "GetQuantityType", "mul", "add", "sub-reversed", "div",
    "Array.IsValid", "Array.GetValues", "FixedArray", "FractionScalar", "ObtainQuantity", "ObtainQuantity(u)", "Quantity(c,u)", "derived-sum", "derived-product", "CreateCopy(unit)", "pickle",
    "GetUnitName", "FindUnitCase", "CheckValueForCategory", "quantity.GetValidUnits", "ChangeScalars", "compare",
    "derived request (tuple pairs)", "derived request (list overload, tuple items)", "arithmetic on a composition", "derived request (one category at an exponent)",
    "Unknown-type conversions", "Unknown-type values", "ObtainQuantity(u,c,caption)", "ObtainQuantity(u,None,caption)", "GetUnits()/GetInfos()", "GetInfo", "FindSimilarUnitMatches", "IsValidCategory/CheckQuantityType", "quantity getters", "db.Sum/Multiply",
    "Unknown-type values (the caller keeps them)", "Create{Area,Volume}QuantityFromLengthQuantity", "questions about the quantity without a unit",
    "product (c,u) * (c2,v)", "product (c2,v) * (c,u)", "sum of two units: validity and limits",
]  # fmt: skip


TYPE_UNITS = {"length": ["m", "cm", "km", "zz"], "time": ["s", "min"], "volume": ["m3", "Mcf", "1000ft3", "L"]}
CAT_TYPE = {"length": "length", "depth": "length", "span": "length", "time": "time", "volume": "volume", "tank": "volume"}


def gen_query(r, cats=CA, units=UN, cat_type=CAT_TYPE, type_units=TYPE_UNITS):
    """Mostly well-typed (category, unit) combinations - the pools deliberately also contain names that
    are not registered yet, never registered, or registered under another type, and 30% of the queries
    draw them blindly."""
    kind = r.choice(KINDS)
    if r.random() < 0.3:
        return (kind, r.choice(cats), r.choice(XS), r.choice(units), r.choice(units), r.choice(cats))
    c = r.choice([k for k in cats if k in cat_type])
    us = type_units[cat_type[c]]
    same = [k for k in cats if cat_type.get(k) == cat_type[c]]
    c2 = r.choice(same) if r.random() < 0.7 else r.choice(cats)
    return (kind, c, r.choice(XS), r.choice(us), r.choice(us), c2)


def run_query(db, q):
    """Self-contained query against the current singleton ``db``: ('ok', canonical) | ('exc', family)."""
    from barril.units import Array, ChangeScalars, FixedArray, FractionScalar, ObtainQuantity, Quantity, Scalar

    kind, c, x, u, v, c2 = q
    try:
        if kind == "Scalar(c,x,u)":
            r = Scalar(c, x, u)
        elif kind == "Scalar(x,u)":
            r = Scalar(x, u)
        elif kind == "Scalar(x,u,c)":
            r = Scalar(x, u, c)
        elif kind == "Scalar(c)":
            r = Scalar(c)
        elif kind == "Scalar(c,unit=u)":
            r = Scalar(c, unit=u)
        elif kind == "GetValue":
            r = Scalar(c, x, u).GetValue(v)
        elif kind == "IsValid":
            r = [Scalar(c, x, u).IsValid(), Scalar(x, u).IsValid()]
        elif kind == "CheckValidity":
            Scalar(c, x, u).CheckValidity()
            r = "valid"
        elif kind == "obj.GetValidUnits":
            r = list(Scalar(c, x, u).GetValidUnits())
        elif kind == "db.GetValidUnits":
            r = list(db.GetValidUnits(c))
        elif kind == "db.Convert":
            r = db.Convert(c, u, v, x)
        elif kind == "db.Convert(list)":
            r = db.Convert(db.GetCategoryQuantityType(c), u, v, [x, 2.0])
        elif kind == "GetDefaultCategory":
            r = db.GetDefaultCategory(u)
        elif kind == "GetDefaultUnit/Value":
            r = [db.GetDefaultUnit(c), db.GetDefaultValue(c)]
        elif kind == "GetUnits":
            r = [list(db.GetUnits(db.GetCategoryQuantityType(c))), list(db.GetUnitNames(db.GetCategoryQuantityType(c))), sorted(db.GetQuantityTypes())]
        elif kind == "GetBaseUnit":
            r = db.GetBaseUnit(db.GetCategoryQuantityType(c))
        elif kind == "GetCategoryInfo":
            ci = db.GetCategoryInfo(c)
            r = [ci.quantity_type, None if ci.valid_units is None else list(ci.valid_units), ci.default_unit, ci.default_value, ci.min_value, ci.max_value, ci.is_min_exclusive, ci.is_max_exclusive, ci.caption, sorted(db.IterCategories())]
        elif kind == "CheckCategoryUnit":
            db.CheckCategoryUnit(c, u)
            r = "accepted"
        elif kind == "CheckQuantityTypeUnit":
            db.CheckQuantityTypeUnit(db.GetCategoryQuantityType(c), u)
            r = "accepted"
        elif kind == "GetQuantityType":
            r = [db.GetQuantityType(u), db.GetQuantityType(v)]
        elif kind == "mul":
            r = Scalar(c, x, u) * Scalar(2.0, v)
        elif kind == "add":
            r = Scalar(c, x, u) + Scalar(c2, 2.0, v)
        elif kind == "sub-reversed":
            r = Scalar(2.0, v) - Scalar(c, x, u)
        elif kind == "div":
            r = Scalar(c, x, u) / Scalar(c2, 4.0, v)
        elif kind == "Array.IsValid":
            a = Array(c, [x, -x, 3.0], u)
            r = [a.IsValid(), a.IsValid()]
        elif kind == "Array.GetValues":
            r = Array(c, (x, 2.0), u).GetValues(v)
        elif kind == "FixedArray":
            f = FixedArray(2, c, [x, 2.0], u)
            r = [f, f.IsValid(), f.GetValidUnits(), f.IndexAsScalar(1)]
        elif kind == "FractionScalar":
            f = FractionScalar(c, x, u)
            r = [f, f.IsValid(), f.GetValue(v)]
        elif kind == "ObtainQuantity":
            qq = ObtainQuantity(u, c)
            r = [qq, qq.GetCategoryInfo().default_unit, qq.GetCategoryInfo().min_value, qq.GetCategoryInfo().max_value]
        elif kind == "ObtainQuantity(u)":
            qq = ObtainQuantity(u)
            r = [qq, qq.GetCategoryInfo().default_unit, qq.GetCategoryInfo().min_value, qq.GetCategoryInfo().max_value, qq is ObtainQuantity(u)]
        elif kind == "Quantity(c,u)":
            qq = Quantity(c, u)
            r = [qq, qq.GetCategoryInfo().min_value, qq.GetValidUnits()]
        elif kind == "derived-sum":
            # a derived quantity carrying two categories of one quantity type in different units (only
            # CreateDerived / ObtainQuantity build these) as the left operand of + and -
            mk = Quantity.CreateDerived if x > 1.0 else ObtainQuantity
            d = mk(OrderedDict([(c, [u, 1]), (c2, [v, 1])]))
            o = mk(OrderedDict([(c, [v, 1]), (c2, [u, 1])]))
            s1, s2 = Scalar(d, x), Scalar(o, 2.0)
            r = [s1 + s2, s1 - s2, s2 - s1, d.GetUnitName(), d, o]
        elif kind == "derived request (tuple pairs)":
            # the pairs of a composing map may come as tuples as well as lists
            qq = ObtainQuantity(OrderedDict([(c, (u, 1)), ("time", ("s", -1))]))
            q2 = ObtainQuantity(OrderedDict([(c, (u, 2))]))
            r = [qq, qq.GetUnit(), q2, q2.GetUnit()]
        elif kind == "derived request (list overload, tuple items)":
            qq = ObtainQuantity([(u, 1), ("s", -1)], (c, "time"))
            q2 = ObtainQuantity([(u, 2)], [c])
            r = [qq, qq.GetUnit(), q2, q2.GetUnit()]
        elif kind == "derived request (one category at an exponent)":
            qq = ObtainQuantity(OrderedDict([(c, [u, 2])]))
            q2 = Quantity.CreateDerived(OrderedDict([(c, [u, 3]), (c2, [v, -1])]))
            db.CheckCategoryUnit(c, u)
            r = [qq, qq.GetQuantityType(), q2, q2.GetQuantityType()]
        elif kind == "arithmetic on a composition":
            # the same compositions a derived request may have named before: products / quotients / sums work on them
            s = Scalar(c, x, u) / Scalar("time", 2.0, "s")
            sq = Scalar(c, x, u) * Scalar(c, 2.0, u)
            r = [s * Scalar(c, 3.0, u), s / Scalar(c, 3.0, v), s + s, sq * Scalar(c, 1.0, v), sq / Scalar(c, 2.0, u), sq - sq]
        elif kind == "derived-product":
            s = Scalar(c, x, u) * Scalar(c2, 3.0, v) / Scalar(c, 2.0, v)
            r = [s, s.GetQuantity().GetUnitName(), s * s]
        elif kind == "CreateCopy(unit)":
            r = Scalar(c, x, u).CreateCopy(unit=v)
        elif kind == "pickle":
            s = Scalar(c, x, u)
            r = [pickle.loads(pickle.dumps(s)), pickle.loads(pickle.dumps(s.GetQuantity())), pickle.loads(pickle.dumps(s)).IsValid()]
        elif kind == "GetUnitName":
            r = [db.GetUnitName(db.GetCategoryQuantityType(c), u), Scalar(c, x, u).GetUnitName()]
        elif kind == "FindUnitCase":
            r = db.FindUnitCase(c, u.upper())
        elif kind == "CheckValueForCategory":
            db.CheckValueForCategory(c, x, u)
            r = "accepted"
        elif kind == "quantity.GetValidUnits":
            r = list(ObtainQuantity(u, c).GetValidUnits())
        elif kind == "ChangeScalars":

            class Owner:
                pass

            ow = Owner()
            ow.a = Scalar(c, x, u)
            ChangeScalars(ow, a=(3.0, v))
            r = ow.a
        elif kind == "compare":
            a, b = Scalar(c, x, u), Scalar(c2, 2.0, v)
            r = [a < b, a == b, a >= b]
        elif kind == "Unknown-type conversions":
            # the accept-anything quantity type: unit labels (registered for another type, or not at all) pass
            # through unchanged - and asking must leave no trace (the same labels are asked about right after)
            r = [db.Convert("Unknown", u, v, x), db.Convert("Unknown", "weird label", "<unknown>", x), db.Convert("Unknown", "<unknown>", v, [x, 1.0]),
                 db.GetQuantityType("weird label"), db.GetQuantityType(v), db.GetDefaultCategory("weird label")]
            try:
                db.CheckQuantityTypeUnit(db.GetCategoryQuantityType(c), "weird label")
                r.append("accepted")
            except Exception as e:
                r.append(H.family(e))
        elif kind == "Unknown-type values":
            from barril.units import GetUnknownQuantity

            su = Scalar(GetUnknownQuantity("a caption"), x)
            r = [su, su.GetValue("weird label"), su.GetValue(v), Scalar(x, "<unknown>").GetValue("other label"), db.GetQuantityType("weird label"), db.GetQuantityType("other label"),
                 sorted(k for k in db.unit_to_unit_info if "label" in k)]
        elif kind == "Create{Area,Volume}QuantityFromLengthQuantity":
            # the helpers that pick the named area / volume unit of a length unit when the table has one ('cm' -> 'cm3'), else compose it
            from barril.units.posc import CreateAreaQuantityFromLengthQuantity, CreateVolumeQuantityFromLengthQuantity

            lq = ObtainQuantity(u, c)
            r = []
            for helper in (CreateVolumeQuantityFromLengthQuantity, CreateAreaQuantityFromLengthQuantity):
                try:
                    r.append(helper(lq))
                except Exception as e:
                    r.append(H.family(e))
        elif kind in ("product (c,u) * (c2,v)", "product (c2,v) * (c,u)"):
            # the same two factors in either order: each order has its own unit and category strings ('m.s' / 's.m')
            a_, b_ = Scalar(c, x, u), Scalar(c2, 2.0, v)
            p_ = a_ * b_ if kind.startswith("product (c,u)") else b_ * a_
            r = [p_, p_.GetUnit(), p_.GetCategory(), p_.GetQuantityType(), list(p_.GetQuantity().GetCategoryToUnitAndExps())]
        elif kind == "questions about the quantity without a unit":
            # the unit-less quantity has the empty string as category and unit: asking about it registers nothing
            es = Scalar.CreateEmptyScalar(x)
            r = []
            for ask in (lambda: es.GetValidUnits(), lambda: db.GetValidUnits(""), lambda: es.IsValid(), lambda: es.GetQuantity().GetValidUnits(), lambda: db.IsValidCategory(""), lambda: sorted(c_ for c_ in db.IterCategories() if not c_),
                        lambda: db.GetCategoryInfo("").quantity_type, lambda: db.GetDefaultUnit(""), lambda: Array.CreateEmptyArray([x]).GetValidUnits(), lambda: es.GetCategory()):  # fmt: skip
                try:
                    r.append(ask())
                except Exception as e:
                    r.append(H.family(e))
        elif kind == "Unknown-type values (the caller keeps them)":
            # a caller that keeps what it was given (a curve holding its captioned quantity): what is handed out later - after the
            # 'Unknown' category was registered again, under another database - is judged by the definitions of *now*
            from barril.units import GetUnknownQuantity

            qk = GetUnknownQuantity("kept caption")
            su = Scalar(qk, x)
            HELD.append(su)
            del HELD[:-200]
            info = db.GetCategoryInfo("Unknown")
            by_limits = not ((info.min_value is not None and not x >= info.min_value) or (info.max_value is not None and not x <= info.max_value))
            r = [su, ("verdict follows the limits registered now", su.IsValid() == by_limits), ("quantity belongs to the database asked", qk.GetUnitDatabase() is db),
                 ("category record is the one registered now", qk.GetCategoryInfo() == info)]
        elif kind in ("ObtainQuantity(u,c,caption)", "ObtainQuantity(u,None,caption)"):
            # the rarely used third argument: captioned and caption-less requests for one (category, unit) are
            # different quantities and must not answer for each other
            cap = ["survey tape", "Feeeet", ""][int(abs(x)) % 3]
            qq = ObtainQuantity(u, c if "u,c," in kind else None, cap)
            plain = ObtainQuantity(u, c) if "u,c," in kind else ObtainQuantity(u)
            r = [qq, plain, qq == plain, Scalar(x, u).GetQuantity(), Scalar(c, x, u) == Scalar(qq, x), repr(Scalar(x, u))]
        elif kind == "GetUnits()/GetInfos()":
            r = [sorted(db.GetUnits()), sorted(i.unit for i in db.GetInfos()), sorted(db.GetUnitNames(db.GetCategoryQuantityType(c))), sorted(db.GetQuantityTypes())]
        elif kind == "GetInfo":
            i = db.GetInfo(db.GetCategoryQuantityType(c), u)
            i2 = db.GetInfo(c, v)
            r = [i.unit, i.name, i.quantity_type, i.default_category, i2.unit, repr(i.tobase(2.0)), repr(i.frombase(2.0))]
        elif kind == "FindSimilarUnitMatches":
            r = [sorted(db.FindSimilarUnitMatches(u)), sorted(db.FindSimilarUnitMatches(v.upper()))]
        elif kind == "IsValidCategory/CheckQuantityType":
            r = [db.IsValidCategory(c), db.IsValidCategory(c2), db.GetQuantityType(u)]
            db.CheckQuantityType(db.GetCategoryQuantityType(c))
        elif kind == "quantity getters":
            qq = ObtainQuantity(u, c)
            r = [qq.GetValidUnits(), qq.GetUnitName(), qq.GetUnitCaption(), qq.GetCategoryInfo().default_unit, qq.GetComposingUnitsJoiningExponents(), qq.GetCategoryToUnitAndExpsCopy(), qq.ConvertScalarValue(x, v),
                 qq.Convert([x, 1.0], v), qq.MakeCopy() is qq]  # fmt: skip
            qq.CheckValue(x)
        elif kind == "sum of two units: validity and limits":
            # the result of + / - is judged by its category as registered *now* (limits, default unit), like a value built directly
            a, b = Scalar(c, x, u), Scalar(c, 2.0, v)
            sm, df = a + b, b - a
            arr = Array(c, [x, 3.0], u) - Array(c, [2.0, -x], v)
            r = []
            for o in (sm, df, arr):
                ci = o.GetQuantity().GetCategoryInfo()
                r += [o, o.IsValid(), ci.min_value, ci.max_value, ci.default_unit, ci.is_min_exclusive, ci.is_max_exclusive, sorted(o.GetValidUnits() or []), ("category record of the result is the one registered now", ci == db.GetCategoryInfo(c))]
        elif kind == "db.Sum/Multiply":
            q1, q2 = ObtainQuantity(u, c), ObtainQuantity(v, c2)
            r = [db.Multiply(q1, q2, x, 2.0), db.Divide(q1, q2, x, 2.0), db.Sum(q1, q2, x, 2.0), db.Subtract(q2, q1, x, 2.0)]
        else:
            raise H.HarnessBug(kind)
    except H.HarnessBug:
        raise
    except RecursionError:
        return ("exc", "RecursionError")
    except Exception as e:
        # (family first - that is what the statement speaks of; the class as well: a repeated or a warm query that fails in
        # another class than the first / the fresh one shows what was remembered in between)
        return ("exc", H.family(e), type(e).__name__)
    try:
        return ("ok", H.canon(r))
    except Exception as e:
        return ("exc-in-canon", type(e).__name__)


def apply_reg(db, call):
    name, args, kw = call
    kw = {k: (list(v) if isinstance(v, list) else v) for k, v in kw.items()}
    getattr(db, name)(*args, **kw)


def full_snapshot(db):
    return (snapshot.registry(db), snapshot.registry_getters_safe(db))


def history(ctx, r, n_steps, base="empty", fresh_cache=None, script=None):
    """One history on a warm database; every query also asked on a fresh replay of the registrations."""
    from barril.units import UnitDatabase

    warm = table.build(base)
    regs = []
    pending = list(REG)
    hist = []
    asked = []
    # start with a few registrations so that early queries have something to succeed on
    head = r.choice([0, 3, 6, 9, 12, 15])
    for step in range(n_steps if script is None else len(script)):
        scripted = script[step] if script is not None else None
        do_reg = ((step < head) or r.random() < 0.22) if scripted is None else scripted[0] == "reg"
        if do_reg and (scripted is not None or pending or r.random() < 0.5):
            bad = (not pending) or r.random() < 0.2
            call = scripted[1] if scripted is not None else (r.choice(BAD_REG) if bad else pending.pop(r.randrange(min(2, len(pending)))))
            hist.append(["reg", call[0], list(call[1]), call[2]])
            with table.pushed(warm):
                before = full_snapshot(warm) if base == "empty" else None
                try:
                    apply_reg(warm, call)
                    regs.append(call)
                    ctx.count("registrations accepted")
                except Exception as e:
                    ctx.count("registrations rejected")
                    if before is not None and full_snapshot(warm) != before:
                        ctx.violation("rejected-registration-changed-the-registry:%s" % call[0], {"history": hist[-10:], "error": repr(e)[:160]}, replay={"history": list(hist)}, prop="C14")
            continue
        # a third of the queries repeat one asked earlier in this history (before later registrations and
        # other queries): the answer must still be the one a fresh database gives
        q = scripted[1] if scripted is not None else (r.choice(asked) if asked and r.random() < 0.35 else gen_query(r))
        asked.append(q)
        hist.append(["query"] + list(q))
        # another database of the same process, filled differently (the same names mean other things there), is asked the
        # same question first: what one database learnt is nothing another database may answer with
        if base == "empty" and (step % 3 == 0 or scripted is not None):
            with table.pushed(BYSTANDER()):
                run_query(BYSTANDER(), q)
        with table.pushed(warm):
            before = full_snapshot(warm) if base == "empty" else snapshot.registry(warm, sample_conversions=False)
            ow = run_query(warm, q)
            after = full_snapshot(warm) if base == "empty" else snapshot.registry(warm, sample_conversions=False)
            ow2 = run_query(warm, q)
        ctx.ev()
        case = {"history": list(hist), "base": base}
        if ow[0] == "ok" and ", False)" in repr(ow[1]) and "registered now" in repr(ow[1]) + "database asked":
            stale = [t for t in re.findall(r"\('([a-z A-Z']+)', False\)", repr(ow[1]))]
            if stale:
                ctx.violation("query-answered-from-an-earlier-definition:%s" % q[0], {"query": list(q), "not_true": stale, "history_tail": hist[-6:]}, replay=case)
        if before != after:
            ctx.violation("query-changed-the-registry:%s" % q[0], {"query": list(q), "diff": snapshot.diff(before, after), "history_tail": hist[-6:]}, replay=case)
        if ow2 != ow:
            ctx.violation("same-query-asked-twice-differs:%s" % q[0], {"query": list(q), "first": ow, "second": ow2, "history_tail": hist[-6:]}, replay=case)
        fresh = table.build(base)
        with table.pushed(fresh):
            try:
                for call in regs:
                    apply_reg(fresh, call)
            except Exception as e:
                # accepted by the database with a history, rejected by a fresh one: the history leaked into the verdict
                ctx.violation("registration-accepted-after-a-history-but-rejected-on-a-fresh-database:%s" % call[0], {"registration": [call[0], list(call[1]), call[2]], "error": repr(e)[:200], "history_tail": hist[-8:]}, replay=case)
                return hist
            of = run_query(fresh, q)
        ctx.ev()
        ctx.nt((q[0], ow[0], ow[1] if ow[0] != "ok" else "", len(regs)))
        if ow != of:
            ctx.violation(
                "warm-differs-from-fresh:%s:%s/%s" % (q[0], ow[0] if ow[0] != "exc" else ow[1], of[0] if of[0] != "exc" else of[1]),
                {"query": list(q), "warm": ow, "fresh": of, "registrations_so_far": len(regs), "history_tail": hist[-8:]}, replay=case,
            )  # fmt: skip
        ctx.count("query outcome %s" % (ow[0] if ow[0] != "exc" else "exc:" + ow[1]))
        KIND_OK.setdefault(q[0], 0)
        if ow[0] == "ok":
            KIND_OK[q[0]] += 1
        elif ow[1].startswith("other"):
            KIND_ODD[q[0]] = ow[1]
    return hist


KIND_OK, KIND_ODD = {}, {}
HELD = []
_BY = []


def BYSTANDER():
    """a second database alive in the process: the names of the pools registered with other meanings"""
    from barril.units import UnitDatabase

    if not _BY:
        d = UnitDatabase()
        d.AddUnitBase("time", "second", "s")
        d.AddUnit("time", "kilo-something", "km", "%f/7.0", "%f*7.0")  # 'km' is a time unit here
        d.AddUnit("time", "m as minutes", "m", "%f/60.0", "%f*60.0")
        d.AddUnitBase("length", "centimetre as base", "cm")
        d.AddUnit("length", "minute as a length", "min", "%f*3.0", "%f/3.0")
        d.AddUnitBase("volume", "litre as base", "L")
        d.AddUnit("volume", "m3", "m3", "%f/1000.0", "%f*1000.0")
        for c, q in (("length", "time"), ("depth", "time"), ("time", "length"), ("span", "volume"), ("volume", "volume"), ("tank", "length"), ("bore", "time")):
            d.AddCategory(c, q)
        _BY.append(d)
    return _BY[0]


def override_scripts():
    """Scripted histories around one event: a category is used (every query kind, with units of its type), then registered
    again *for another quantity type* (override), then every query is asked again - what was accepted or memoised for the
    old definition must not answer for the new one. Also the reverse order of first use (tuple-pair requests first)."""
    def reg(name, *first):
        """the (first) registration of REG with that call name and those leading arguments"""
        return ("reg", next(c for c in REG if c[0] == name and tuple(c[1][: len(first)]) == first))

    volume_type = [reg("AddUnitBase", "volume"), reg("AddUnit", "volume", "thousand cubic feet")]
    setup = [("reg", c) for c in REG[:10]] + volume_type
    scripts = []
    for cat, old_u, new_type, new_u in (("depth", "m", "time", "s"), ("length", "cm", "volume", "m3"), ("time", "s", "length", "m")):
        if cat == "length":
            setup2 = setup
        else:
            setup2 = setup
        qs = [(k, cat, 5.0, old_u, old_u, cat) for k in KINDS] + [(k, cat, 5.0, new_u, new_u, cat) for k in ("CheckCategoryUnit", "Scalar(c,x,u)", "ObtainQuantity", "derived request (one category at an exponent)", "derived request (tuple pairs)")]
        over = ("reg", ("AddCategory", (cat, new_type), {"override": True}))
        scripts.append(setup2 + [("query", q) for q in qs] + [over] + [("query", q) for q in qs])
        scripts.append(setup2 + [("query", q) for q in reversed(qs)] + [over] + [("query", q) for q in qs])
    # a unit that names a default category which is registered only later: questions about the unit alone before and after
    base = [("reg", c) for c in REG[:5]]
    late_unit = ("reg", ("AddUnit", ("length", "foot", "ft", "%f/0.3048", "%f*0.3048"), {"default_category": "bore"}))
    late_cat = ("reg", ("AddCategory", ("bore", "length"), {"default_unit": "ft", "min_value": 0.0}))
    unit_only = [(k, "length", x, "ft", "m", "length") for k in ("Scalar(x,u)", "ObtainQuantity(u)", "GetDefaultCategory", "IsValid", "ObtainQuantity(u,None,caption)", "mul", "add", "Array.IsValid", "FractionScalar", "compare") for x in (-5.0, 5.0)]
    scripts.append(base + [late_unit] + [("query", q) for q in unit_only] + [late_cat] + [("query", q) for q in unit_only])
    scripts.append(base + [late_unit, late_cat] + [("query", q) for q in unit_only])
    scripts.append(base + [late_unit] + [("query", q) for q in unit_only[:4]] + [late_cat] + [("query", q) for q in reversed(unit_only)] + [("reg", ("AddCategory", ("bore", "length"), {"override": True, "default_unit": "m"}))] + [("query", q) for q in unit_only])
    vol = [("reg", c) for c in REG[:5]] + volume_type + [reg("AddCategory", "volume", "volume"), reg("AddCategory", "tank"), reg("AddUnit", "volume", "litre")]
    asks = [(k, "tank", 5.0, u, "m3", "volume") for u in ("L", "m3", "Mcf") for k in ("obj.GetValidUnits", "quantity.GetValidUnits", "db.GetValidUnits", "Scalar(c,x,u)", "CheckCategoryUnit")]
    scripts.append(vol + [("query", q) for q in asks] + [("query", q) for q in asks])
    # a symbol that *contains* a legacy spelling ('1000ft3/d' reads as 'Mcf/d', 'lbmole/ft3' as 'lbmol/ft3') is asked about
    # while it is no unit, then registered as a unit of its own, then asked about again
    for base_u, cur, leg in (("m3/d", "Mcf/d", "1000ft3/d"), ("mol/m3", "lbmol/ft3", "lbmole/ft3")):
        rate = [("reg", c) for c in REG[:5]] + [("reg", ("AddUnitBase", ("rate", "base rate", base_u), {})), ("reg", ("AddUnit", ("rate", "current spelling", cur, "%f/28.316846592", "%f*28.316846592"), {})),
                                                 ("reg", ("AddCategory", ("rate", "rate"), {}))]  # fmt: skip
        asks = [(k, "rate", x, leg, base_u, "rate") for k in ("Scalar(x,u)", "ObtainQuantity(u)", "Scalar(c,x,u)", "GetValue", "ObtainQuantity(u,None,caption)", "ObtainQuantity(u,c,caption)", "GetDefaultCategory", "db.Convert",
                                                               "CheckCategoryUnit", "Array.GetValues", "FractionScalar", "CreateCopy(unit)", "derived request (tuple pairs)", "mul", "compare") for x in (5.0,)]  # fmt: skip
        own = ("reg", ("AddUnit", ("rate", "the old symbol as a unit of its own", leg, "%f/2.0", "%f*2.0"), {}))
        scripts.append(rate + [("query", q) for q in asks] + [own] + [("query", q) for q in asks])
        scripts.append(rate + [("query", q) for q in asks[:2]] + [own] + [("query", q) for q in reversed(asks)])
    # a bare quantity-type name used in a conversion, then a *category* registered under that very name for another quantity type
    # (no override - the name was free as a category), then the same conversion again; and the 'Unknown' category registered
    # again with limits while the caller still holds captioned quantities
    vol2 = [("reg", c) for c in REG[:5]] + volume_type
    shadow = ("reg", ("AddCategory", ("volume", "length"), {}))
    conv_q = [(k, "volume", 5.0, "m3", "Mcf", "volume") for k in ("db.Convert", "db.Convert(list)", "GetValue", "Array.GetValues", "db.Convert", "CheckQuantityTypeUnit")]
    scripts.append(vol2 + [("query", q) for q in conv_q] + [shadow] + [("query", q) for q in conv_q])
    scripts.append(vol2 + [("query", q) for q in conv_q[:1]] + [shadow] + [("query", q) for q in conv_q[:1]] + [("reg", ("AddCategory", ("volume", "volume"), {"override": True}))] + [("query", q) for q in conv_q])
    unk = [("reg", c) for c in REG[:7]]
    kept = [("Unknown-type values (the caller keeps them)", "length", x, "m", "cm", "length") for x in (-5.0, 5.0)]
    for over_kw in ({"override": True, "min_value": 0.0, "valid_units": ["<unknown>"]}, {"override": True, "max_value": 1.0, "valid_units": ["<unknown>"]}):
        scripts.append(unk + [("query", q) for q in kept] + [("reg", ("AddCategory", ("Unknown", "Unknown"), dict(over_kw)))] + [("query", q) for q in kept])
    # the named cube of a length unit registered after the helper was asked for it; a label of the accept-anything type asked
    # about and then registered as a unit of that type with a factor of its own
    cube = vol2 + [reg("AddCategory", "volume", "volume")]
    helper_q = [("Create{Area,Volume}QuantityFromLengthQuantity", "length", 5.0, uu, uu, "length") for uu in ("cm", "m")]
    scripts.append(cube + [("query", q) for q in helper_q] + [("reg", ("AddUnit", ("volume", "cubic centimetre", "cm3", "%f*1000000.0", "%f/1000000.0"), {}))] + [("query", q) for q in helper_q])
    label_q = [(k, "length", 3.0, "m", "weird label", "length") for k in ("Unknown-type values", "Unknown-type conversions", "Unknown-type values (the caller keeps them)")]
    scripts.append(unk + [("query", q) for q in label_q] + [("reg", ("AddUnit", ("Unknown", "a label that became a unit", "weird label", "%f*2.0", "%f/2.0"), {}))] + [("query", q) for q in label_q])
    # the same two factors multiplied in one order, then in the other (and the reverse history)
    both = setup + [reg("AddCategory", "time", "time")] if not any(c_[1][1][:1] == ("time",) and c_[1][0] == "AddCategory" for c_ in setup) else setup
    for kinds_ in (("product (c,u) * (c2,v)", "product (c2,v) * (c,u)"), ("product (c2,v) * (c,u)", "product (c,u) * (c2,v)")):
        scripts.append(both + [("query", (k_, "length", 5.0, "m", "s", "time")) for k_ in kinds_] + [("query", (k_, "length", 5.0, "cm", "min", "time")) for k_ in kinds_])
    # a question that fails, asked twice in a row (what is remembered of the first failure must not change the second)
    scripts.append(setup + [("query", (k_, "nope", 5.0, "m", "cm", "length")) for k_ in ("CheckCategoryUnit", "CheckCategoryUnit", "derived request (tuple pairs)", "derived request (tuple pairs)", "Scalar(c,x,u)", "Scalar(c,x,u)")])
    # tuple-pair requests first, arithmetic afterwards (and the other way round)
    for first, second in (("derived request (tuple pairs)", "arithmetic on a composition"), ("derived request (list overload, tuple items)", "arithmetic on a composition"), ("arithmetic on a composition", "derived request (tuple pairs)")):
        for cat, u in (("length", "m"), ("length", "cm"), ("depth", "m")):
            scripts.append(setup + [("query", (first, cat, 5.0, u, "cm" if u == "m" else "m", cat)), ("query", (second, cat, 5.0, u, "cm" if u == "m" else "m", cat)), ("query", (first, cat, 5.0, u, u, cat))])
    # a symbol typed in another case ('KM', 'Cm') is asked about while it is no unit, then registered as a unit of its own
    # (of the same type with another factor; of another type), then asked about again
    for sym, own in (("KM", ("AddUnit", ("length", "a unit of its own", "KM", "%f*7.0", "%f/7.0"), {})), ("Cm", ("AddUnit", ("time", "a time unit", "Cm", "%f*7.0", "%f/7.0"), {})), ("M", ("AddUnit", ("length", "mega", "M", "%f/1000000.0", "%f*1000000.0"), {}))):
        asks = [(k, "length", 5.0, sym, "m", "length") for k in ("Scalar(c,x,u)", "ObtainQuantity", "Quantity(c,u)", "Scalar(x,u)", "ObtainQuantity(u)", "GetValue", "CheckCategoryUnit", "ObtainQuantity(u,c,caption)", "db.Convert", "FindUnitCase",
                                                                  "derived request (tuple pairs)", "Array.GetValues", "FractionScalar", "mul", "compare")]  # fmt: skip
        scripts.append(setup + [("query", q) for q in asks] + [("reg", own)] + [("query", q) for q in asks])
        scripts.append(setup + [("query", q) for q in asks[:3]] + [("reg", own)] + [("query", q) for q in reversed(asks)])
    # the database is emptied (Clear) and filled again with the same names meaning other things: nothing interned or remembered for
    # the first filling answers for the second
    refill = [("reg", ("Clear", (), {})), ("reg", ("AddUnitBase", ("length", "centimetre as the base", "cm"), {})), ("reg", ("AddUnit", ("length", "metre", "m", "%f/100.0", "%f*100.0"), {})),
              ("reg", ("AddUnit", ("length", "a km of 500 m", "km", "%f/50000.0", "%f*50000.0"), {})), ("reg", ("AddCategory", ("length", "length"), {"min_value": 2.0})), ("reg", ("AddCategory", ("depth", "length"), {"default_unit": "cm"})),
              ("reg", ("AddUnitBase", ("time", "minute as the base", "min"), {})), ("reg", ("AddUnit", ("time", "second", "s", "%f*60.0", "%f/60.0"), {})), ("reg", ("AddCategory", ("time", "time"), {}))]  # fmt: skip
    for cat, u, v in (("length", "m", "cm"), ("depth", "m", "km"), ("time", "s", "min"), ("length", "km", "m")):
        qs = [(k, cat, 5.0, u, v, cat) for k in KINDS if k not in ("pickle",)]
        scripts.append(setup + [reg("AddCategory", "time", "time")] + [("query", q) for q in qs] + refill + [("query", q) for q in qs])
        scripts.append(setup + [reg("AddCategory", "time", "time")] + [("query", q) for q in reversed(qs)] + refill[:1] + [("query", q) for q in qs[:6]] + refill[1:] + [("query", q) for q in qs])
    return scripts


def run(ctx):
    from barril.units import AbstractValueWithQuantityObject, Quantity, UnitDatabase

    probe.install()
    probe.reach([AbstractValueWithQuantityObject.GetValidUnits, UnitDatabase.AddCategory, UnitDatabase.AddUnit, UnitDatabase.CheckCategoryUnit, UnitDatabase.GetValidUnits, UnitDatabase._DoOperationWithSameQuantity, Quantity.GetValidUnits])
    quick = ctx.tier == "quick"
    ctx.rule = (
        "histories of %d steps on a private database: %d accepted-kind registrations (later units, overrides changing limits / default unit / quantity type, from_category, legacy spellings) and %d rejected-kind ones "
        "interleaved with self-contained queries of %d kinds over pools of 6 categories x 10 unit names (registered, not yet registered, legacy, unknown) x 6 values; every query repeated first thing on a fresh "
        "database built from the registrations accepted so far, registry snapshotted (attributes + getters) around every query; distinct = (query kind, outcome class, registrations so far)%s"
        % (40 if quick else 60, len(REG), len(BAD_REG), len(KINDS), "" if quick else "; plus POSC-based histories (fresh POSC per query)")
    )
    ctx.assumptions = [
        "outcomes are compared as canonical values (class, unit, category, quantity items, repr of floats) or exception family (units/type/value/validation/other class) - not messages",
        "only registrations change what the database reports; UnitDatabase singleton push/pop is harness plumbing",
    ]
    r = ctx.rng("hist")
    n = 450 if quick else 5000
    for h in range(n):
        hist = history(ctx, r, 40 if quick else 60)
        if h == 0 and ctx.shard == 0:
            ctx.sample({"history (first 12 steps)": hist[:12]})
    for k, sc in enumerate(override_scripts()):
        if k % ctx.nshards == ctx.shard:
            history(ctx, r, 0, script=sc)
            ctx.count("scripted histories (use, override for another type, use again; tuple-pair requests before arithmetic)")
    if not quick:
        rp = ctx.rng("posc")
        for h in range(25):
            history_posc(ctx, rp, 80)
    # thorough tier: the repository's own tests as a workload under the global monitors (vp/suite_workload.py)
    from .. import suite_workload

    suite_workload.run(ctx, "C15")
    # a query kind that never once succeeded compares two identical failures - which is also what a mistake in the
    # kind itself looks like: named in the evidence
    dead = sorted(k for k, n_ok in KIND_OK.items() if n_ok == 0)
    ctx.inconclusive_if(bool(dead), "query kinds that never succeeded (a mistake in the kind itself?): %s" % dead[:6])
    ctx.notes["query_kinds"] = {"asked": len(KIND_OK), "never_succeeded": dead, "kinds_with_an_exception_outside_the_families": dict(sorted(KIND_ODD.items()))}
    ctx.inconclusive_if(ctx.counters.get("registrations accepted", 0) == 0 or ctx.counters.get("query outcome ok", 0) < 100, "too few accepted registrations or successful queries")


POSC_CATS = ["length", "depth", "time", "volume", "temperature", "pressure", "nope"]
POSC_UNITS = ["m", "cm", "km", "ft", "s", "min", "m3", "Mcf", "1000ft3", "degC", "K", "psi", "Pa", "zz", "nounit"]
POSC_CAT_TYPE = {"length": "length", "depth": "length", "time": "time", "volume": "volume", "temperature": "temperature", "pressure": "pressure"}
POSC_TYPE_UNITS = {"length": ["m", "cm", "km", "ft", "zz"], "time": ["s", "min"], "volume": ["m3", "Mcf", "1000ft3"], "temperature": ["degC", "K"], "pressure": ["psi", "Pa"]}
POSC_REG = [
    ("AddUnit", ("length", "zed", "zz", "%f*3.0", "%f/3.0"), {}),
    ("AddCategory", ("length", "length"), {"override": True, "min_value": 0.0}),
    ("AddCategory", ("depth", "length"), {"override": True, "valid_units": ["m", "km"], "default_unit": "km", "max_value": 10.0}),
    ("AddCategory", ("span",), {"from_category": "depth"}),
    ("AddCategory", ("temperature", "temperature"), {"override": True, "min_value": -273.15, "default_unit": "degC"}),
    ("AddCategory", ("volume", "volume"), {"override": True, "valid_units": ["m3", "1000ft3"]}),
]


def history_posc(ctx, r, n_steps):
    """Same differential with the shipped POSC database as the starting point."""
    warm = table.build("posc")
    regs, pending, hist, asked = [], list(POSC_REG), [], []
    for step in range(n_steps):
        if pending and r.random() < 0.08:
            call = pending.pop(0)
            hist.append(["reg", call[0], list(call[1]), call[2]])
            with table.pushed(warm):
                apply_reg(warm, call)
            regs.append(call)
            continue
        q = r.choice(asked) if asked and r.random() < 0.35 else gen_query(r, POSC_CATS, POSC_UNITS, POSC_CAT_TYPE, POSC_TYPE_UNITS)
        asked.append(q)
        hist.append(["query"] + list(q))
        with table.pushed(warm):
            before = snapshot.registry(warm, sample_conversions=False)
            ow = run_query(warm, q)
            after = snapshot.registry(warm, sample_conversions=False)
            ow2 = run_query(warm, q)
        ctx.ev()
        if ow2 != ow:
            ctx.violation("posc:same-query-asked-twice-differs:%s" % q[0], {"query": list(q), "first": ow, "second": ow2}, replay={"history": list(hist), "base": "posc"})
        if before != after:
            ctx.violation("posc:query-changed-the-registry:%s" % q[0], {"query": list(q), "diff": snapshot.diff(before, after)}, replay={"history": list(hist), "base": "posc"})
        fresh = table.build("posc")
        with table.pushed(fresh):
            for call in regs:
                apply_reg(fresh, call)
            of = run_query(fresh, q)
        ctx.ev()
        ctx.nt(("posc", q[0], ow[0], ow[1] if ow[0] != "ok" else ""))
        if ow != of:
            ctx.violation("posc:warm-differs-from-fresh:%s" % q[0], {"query": list(q), "warm": ow, "fresh": of, "history_tail": hist[-8:]}, replay={"history": list(hist), "base": "posc"})


def replay(ctx, d):
    """Re-executes a recorded history (registrations and queries) and repeats the differential at every query."""
    probe.install()
    base = d.get("base", "empty")
    warm = table.build(base)
    regs = []
    for step in d["history"]:
        if step[0] == "reg":
            call = (step[1], tuple(step[2]), dict(step[3]))
            with table.pushed(warm):
                try:
                    apply_reg(warm, call)
                    regs.append(call)
                except Exception:
                    pass
            continue
        q = tuple(step[1:])
        with table.pushed(warm):
            before = snapshot.registry(warm, sample_conversions=False)
            ow = run_query(warm, q)
            after = snapshot.registry(warm, sample_conversions=False)
        ctx.ev()
        if before != after:
            ctx.violation("query-changed-the-registry:%s" % q[0], {"query": list(q), "diff": snapshot.diff(before, after)})
        fresh = table.build(base)
        with table.pushed(fresh):
            for call in regs:
                apply_reg(fresh, call)
            of = run_query(fresh, q)
        if ow != of:
            ctx.violation("warm-differs-from-fresh:%s" % q[0], {"query": list(q), "warm": ow, "fresh": of})
