"""C13 - operations never mutate their operands; copies and pickles are equal (DESIGN.md 4, C13).

Random histories of public operations over a pool of ~45 value objects of every class and container
kind.  Two monitors (monitors/operand_frozen.py): a deep snapshot of every operand around every
depth-0 call, and a deep snapshot of every pool member *and of the caller-owned container it was
built from* compared after every step.  Copy / pickle results are compared with their originals
both with ``==`` and field by field.
"""
import math
import copy
import operator
import pickle

from .. import env, probe
from ..models import conv, snapshot
from ..monitors.operand_frozen import OperandMonitor, Pool
from ..workloads import table

SHARDS = {"quick": 4, "thorough": 16}
WATCHDOG_S = {"quick": 900, "thorough": 7200}
FLOORS = (20000, 300)

US = {
    "length": ["m", "cm", "km", "ft", "in"], "depth": ["m", "ft", "km"], "time": ["s", "min", "h"], "temperature": ["K", "degC", "degF"],
    "pressure": ["Pa", "psi", "bar"], "mass": ["kg", "g", "lbm"], "volume": ["m3", "L", "bbl"],
}  # fmt: skip
BIN = [("+", operator.add), ("-", operator.sub), ("*", operator.mul), ("/", operator.truediv), ("//", operator.floordiv), ("==", operator.eq), ("!=", operator.ne),
       ("<", operator.lt), ("<=", operator.le), (">", operator.gt), (">=", operator.ge)]  # fmt: skip


def rv(r):
    return r.choice([1.0, 2.0, 2.5, -3.0, 10.0, 0.5, 7.0, 1e3, 0.125, 4.0])


def make_pool(r):
    import numpy as np
    from barril.basic.fraction import Fraction, FractionValue
    from barril.units import Array, FixedArray, FractionScalar, GetUnknownQuantity, ObtainQuantity, Scalar

    P = Pool()
    cats = list(US)

    def cu():
        c = r.choice(cats)
        return c, r.choice(US[c])

    for i in range(7):
        c, u = cu()
        P.add("Scalar#%d" % i, Scalar(c, rv(r), u))
    for kind, mk in (("list", list), ("tuple", tuple), ("nd", lambda v: np.array(v, dtype=float)), ("ndint", lambda v: np.array([int(x) for x in v], dtype=np.int64))):
        for L in (0, 1, 3):
            c, u = cu()
            cont = mk([rv(r) for _ in range(L)])
            P.add("Array[%s,%d]" % (kind, L), Array(c, cont, u), cont)
        c, u = cu()
        cont = mk([rv(r) for _ in range(3)])
        P.add("FixedArray[%s]" % kind, FixedArray(3, c, cont, u), cont)
    c, u = cu()
    lot = [(1.0, 2.0), (3.0, 4.0)]
    P.add("Array[list-of-tuples]", Array(c, lot, u), lot)
    for i in range(3):
        c, u = cu()
        fv = FractionValue(r.randint(0, 5), (r.randint(0, 7), r.choice([2, 4, 8, 16])))
        P.add("FractionScalar#%d" % i, FractionScalar(c, fv, u), fv)
    c, u = cu()
    P.add("FractionScalar(float)", FractionScalar(c, 2.5, u))
    # derived, empty, unknown
    a, b = Scalar("length", 2.0, "m"), Scalar("time", 4.0, "s")
    P.add("Scalar(m/s)", a / b)
    P.add("Scalar(m2)", a * Scalar("length", 3.0, "cm"))
    P.add("Scalar(1/s2)", 1.0 / (b * b))
    nd = np.array([1.0, 2.0, 4.0])
    arr_cm = Array("length", nd, "cm")
    P.add("Array[nd](cm)", arr_cm, nd)
    P.add("Array[nd](1/cm)", 1.0 / arr_cm)
    P.add("Array[nd](cm2)", arr_cm * arr_cm)
    P.add("Array[nd](m.s)", Array("length", np.array([1.0, 2.0, 4.0]), "m") * Array("time", np.array([1.0, 2.0, 4.0]), "s"))
    P.add("Array[list](m/s)", Array("length", [1.0, 2.0, 4.0], "m") / Array("time", [1.0, 2.0, 4.0], "s"))
    P.add("FixedArray[nd](m2)", FixedArray(3, "length", np.array([1.0, 2.0, 4.0]), "m") * FixedArray(3, "length", np.array([1.0, 2.0, 4.0]), "m"))
    # derived quantities that only an explicit request builds: two categories of one quantity type in different units
    from collections import OrderedDict

    from barril.units import Quantity

    mixed = Quantity.CreateDerived(OrderedDict([("length", ["m", 1]), ("diameter", ["cm", 1])]))
    mixed2 = ObtainQuantity(OrderedDict([("depth", ["km", 2]), ("length", ["ft", -1])]))
    P.add("Scalar(m.cm mixed)", Scalar(mixed, 100.0))
    P.add("Array[nd](m.cm mixed)", Array(mixed, np.array([100.0, 200.0, 400.0])))
    P.add("Array[list](m.cm mixed)", Array(mixed, [100.0, 200.0, 400.0]))
    P.add("Scalar(km2/ft mixed)", Scalar(mixed2, 3.0))
    P.add("Scalar(cm2)", Scalar("length", 100.0, "cm") * Scalar("length", 100.0, "cm"))
    P.add("Scalar(empty)", Scalar.CreateEmptyScalar(2.0))
    P.add("Array(empty)", Array.CreateEmptyArray([1.0, 2.0, 4.0]))
    P.add("FixedArray(empty)", FixedArray.CreateEmptyArray(3, [1.0, 2.0, 4.0]))
    P.add("Scalar(unknown,caption)", Scalar(GetUnknownQuantity("Feeeet"), 1.5))
    P.add("Scalar(unknown)", Scalar(GetUnknownQuantity(), 1.5))
    P.add("Scalar(caption)", Scalar(ObtainQuantity("m", "length", "my caption"), 1.5))
    P.add("FixedArray(unknown,caption)", FixedArray(3, GetUnknownQuantity("Feeeet"), [1.0, 2.0, 4.0]))
    P.add("FixedArray(caption)", FixedArray(3, ObtainQuantity("m", "length", "my caption"), (1.0, 2.0, 4.0)))
    # results whose quantity was built by the library on the way (m + cm, a legacy spelling): equal to, but not the same
    # object as, what a fresh request returns
    P.add("FixedArray(m+cm)", FixedArray(3, "length", [1.0, 2.0, 4.0], "m") + FixedArray(3, "length", [10.0, 20.0, 40.0], "cm"))
    P.add("FixedArray(cm-m, depth)", FixedArray(3, "depth", (1.0, 2.0, 4.0), "cm") - FixedArray(3, "length", (1.0, 2.0, 4.0), "m"))
    P.add("Scalar(m+cm)", Scalar("length", 1.0, "m") + Scalar("length", 10.0, "cm"))
    P.add("FixedArray(legacy spelling)", FixedArray(3, "volume flow rate", [1.0, 2.0, 4.0], "1000ft3/d"))
    P.add("Scalar(legacy spelling)", Scalar("volume flow rate", 2.0, "1000ft3/d"))
    # numpy containers that are not one-dimensional (a 0-d array, rows): what they hold *and their shape* stay
    nd0, nd2, nd2f = np.array(2.5), np.array([[1.0, 2.0, 3.0], [4.0, 5.0, 6.0]]), np.array([[1.0, 2.0, 3.0], [4.0, 5.0, 6.0]])
    P.add("Array[nd 0-d]", Array("length", nd0, "m"), nd0)
    P.add("Array[nd 2-d]", Array("length", nd2, "m"), nd2)
    P.add("FixedArray[nd 2-d]", FixedArray(2, "length", nd2f, "m"), nd2f)
    # a caption given as the empty string is no caption
    P.add("Scalar(empty caption)", Scalar(ObtainQuantity("m", "length", ""), 1.5))
    P.add("FixedArray(empty caption)", FixedArray(3, ObtainQuantity("cm", "depth", ""), [1.0, 2.0, 4.0]))
    P.add("Scalar(unknown, empty caption)", Scalar(GetUnknownQuantity(""), 1.5))
    P.add("Scalar(m/s, caption)", Scalar(ObtainQuantity(OrderedDict([("length", ["m", 1]), ("time", ["s", -1])]), None, "a caption"), 2.0))
    # containers from elsewhere: an ndarray in the other byte order (read from a file written on another platform), a list whose
    # items are numpy rows, a tuple of 0-d arrays
    be = np.array([1.0, 2.0, 4.0], dtype=">f8")
    P.add("Array[nd big-endian]", Array("length", be, "cm"), be)
    be2 = np.array([1.0, 2.0, 4.0], dtype=">f8")
    P.add("FixedArray[nd big-endian]", FixedArray(3, "length", be2, "m"), be2)
    rows = [np.array([1.0, 2.0]), np.array([3.0, 4.0])]
    try:
        P.add("Array[list of nd rows]", Array("length", rows, "m"), rows)
        zs = (np.array(1.5), np.array(2.5))
        P.add("Array[tuple of 0-d]", Array("length", zs, "m"), zs)
    except Exception:
        pass
    # amounts that are exactly zero in a unit whose zero is not the zero of the category's default unit
    P.add("Scalar(0.0 degC)", Scalar(0.0, "degC"))
    P.add("Scalar(int 0 degF)", Scalar("temperature", 0, "degF"))
    P.add("Scalar(-0.0 psig)", Scalar(-0.0, "psig"))
    P.add("FixedArray(zeros degC)", FixedArray(3, "temperature", [0.0, 0.0, 0.0], "degC"))
    P.add("FractionValue", FractionValue(1, (1, 2)))
    P.add("Fraction", Fraction(3, 4))
    return P


def fields(o):
    """what a copy must share with its original (no object identities)."""
    s = snapshot.value_object(o)
    if s and s[0] in ("Fraction", "FractionValue", "uninitialised"):
        return s
    return (s[0],) + tuple(s[2:6]) + (_norm(s[6]),)


def _norm(c):
    # container kind is part of the value of an Array; numpy dtype/shape/bytes compare exactly
    return c


def has_nan(o):
    """NaN != NaN by definition: an object holding one is not equal to itself, let alone to a copy."""
    import numpy as np

    try:
        v = o.GetAbstractValue() if hasattr(o, "GetAbstractValue") else float(o)
        if hasattr(v, "GetNumber"):
            v = float(v)
        return bool(np.isnan(np.asarray(v, dtype=float)).any())
    except Exception:
        return False


def check_copy(ctx, how, a, b, case):
    from barril.basic.fraction import Fraction, FractionValue

    if has_nan(a):
        ctx.count("copies of NaN-holding objects not compared")
        return
    ctx.ev()
    try:
        import numpy as np

        va = a.GetAbstractValue() if hasattr(a, "GetAbstractValue") else None
        from barril.units import Array as _Array

        flat = (isinstance(va, (list, tuple)) and not any(isinstance(e_, (np.ndarray, list)) for e_ in va)) or (isinstance(va, np.ndarray) and va.ndim == 1)
        if isinstance(a, _Array) and not flat:
            # == is promised for one-dimensional containers (C08); a copy of anything else is compared through its snapshot
            if b is None or snapshot.value_object(a) != snapshot.value_object(b):
                ctx.violation("copy-differs-in-a-field:%s:%s" % (how, type(a).__name__), dict(case, original=repr(snapshot.value_object(a))[:200], copied=repr(snapshot.value_object(b))[:200] if b is not None else None), replay=case)
            return
        eq = a == b
        ne = a != b
    except Exception as e:
        ctx.violation("copy-comparison-raised:%s:%s" % (how, type(a).__name__), dict(case, error=repr(e)[:160]), replay=case)
        return
    if not eq or ne:
        ctx.violation("copy-not-equal:%s:%s" % (how, type(a).__name__), dict(case, original=repr(a)[:120], copied=repr(b)[:120]), replay=case)
        return
    if type(a) is not type(b):
        ctx.violation("copy-of-another-class:%s:%s" % (how, type(a).__name__), dict(case, copied=type(b).__name__), replay=case)
        return
    fa, fb = fields(a), fields(b)
    if fa != fb and not isinstance(a, (Fraction, FractionValue)):
        # pickling may legitimately rebuild the container (tuple/list) - compare the contents only then
        if how == "pickle" or how.startswith("CreateCopy"):
            import numpy as np

            va, vb = a.GetAbstractValue(), b.GetAbstractValue()
            same = fa[:5] == fb[:5] and (np.array_equal(np.asarray(va, dtype=float), np.asarray(vb, dtype=float)) if not hasattr(va, "GetNumber") else va == vb)
            if same:
                return
        ctx.violation("copy-differs-in-a-field:%s:%s" % (how, type(a).__name__), dict(case, original=repr(fa)[:200], copied=repr(fb)[:200]), replay=case)


def monitors_is_value(o):
    from ..monitors.operand_frozen import is_value_object

    return is_value_object(o)


def one_history(ctx, gid, n_steps, mon):
    import numpy as np
    from barril.basic.fraction import Fraction, FractionValue
    from barril.curve.curve import Curve
    from barril.units import Array, ChangeScalars, FixedArray, FractionScalar, ObtainQuantity, Scalar, UnitDatabase

    r = env.rng("C13", 0, "h%d" % gid)
    P = make_pool(r)
    db = UnitDatabase.GetSingleton()
    outcomes = {}
    base_case = {"history": gid, "seed": env.seed()}

    def units_for(o):
        c = o.GetCategory() if hasattr(o, "GetCategory") else None
        return US.get(c, ["m", "s", "kg"])

    if gid % 8 == 0:
        # every member, every copy form, once (the random steps below reach a given pair only now and then)
        for label, a, _s in list(P.members):
            if not monitors_is_value(a):
                continue
            for how in ("copy", "deepcopy", "CreateCopy()", "Copy", "pickle", "str", "repr", "format"):
                case = dict(base_case, step=-1, op=[how, type(a).__name__], label=label)
                try:
                    if how == "copy":
                        res = copy.copy(a)
                    elif how == "deepcopy":
                        res = copy.deepcopy(a)
                    elif how == "CreateCopy()":
                        res = a.CreateCopy() if hasattr(a, "CreateCopy") else None
                    elif how == "Copy":
                        res = a.Copy() if hasattr(a, "Copy") else None
                    elif how == "pickle":
                        res = pickle.loads(pickle.dumps(a)) if isinstance(a, (Scalar, FixedArray)) and not isinstance(a, FractionScalar) else None
                    else:
                        res = None
                        {"str": str, "repr": repr, "format": lambda o: "%s" % (o,)}[how](a)
                except Exception:
                    res = None  # an object that cannot be copied / printed that way (0-d and 2-d containers): nothing to compare
                ctx.ev()
                if res is not None:
                    check_copy(ctx, how, a, res, case)
                for qual, before, after in mon.drain():
                    ctx.violation("operand-changed-by:%s" % qual, dict(case, before=repr(before)[:300], after=repr(after)[:300]), replay=case)
                for lbl, before, after in P.check():
                    ctx.violation("pool-member-changed:%s:after:%s" % (lbl.split("#")[0], how), dict(case, member=lbl, before=repr(before)[:300], after=repr(after)[:300]), replay=case)
        # every member re-expressed in every unit of its pool, and operated with a plain number on the right (each member at least
        # once, whatever the random steps below pick)
        for label, a, _s in list(P.members):
            if not monitors_is_value(a) or not hasattr(a, "GetQuantity"):
                continue
            for what in ["unit:%s" % u_ for u_ in units_for(a)] + ["* 2", "/ 2.0", "+ 1", "- 0.5", "// 2"]:
                case = dict(base_case, step=-1, op=[what, type(a).__name__], label=label)
                ctx.ev()
                try:
                    if what.startswith("unit:"):
                        (a.GetValues if isinstance(a, Array) else a.GetValue)(what[5:])
                        a.CreateCopy(unit=what[5:])
                    else:
                        {"* 2": lambda: a * 2, "/ 2.0": lambda: a / 2.0, "+ 1": lambda: a + 1, "- 0.5": lambda: a - 0.5, "// 2": lambda: a // 2}[what]()
                except Exception:
                    pass
                for qual, before, after in mon.drain():
                    ctx.violation("operand-changed-by:%s" % qual, dict(case, before=repr(before)[:300], after=repr(after)[:300]), replay=case)
                for lbl, before, after in P.check():
                    ctx.violation("pool-member-changed:%s:after:%s" % (lbl.split("#")[0], what.split(":")[0]), dict(case, member=lbl, before=repr(before)[:300], after=repr(after)[:300]), replay=case)
        # the augmented spellings (x *= 2 ...): a name is re-bound, the object it named before - still referred to by the pool,
        # by copies, by the caller's container - is what it was
        for label, a, _s in list(P.members):
            if not monitors_is_value(a) or gid % 24:
                continue
            for sym, fn in (("+=", operator.iadd), ("-=", operator.isub), ("*=", operator.imul), ("/=", operator.itruediv), ("//=", operator.ifloordiv), ("**=", operator.ipow)):
                for kname, kk in (("int", 2), ("float", 0.5), ("np.float64", np.float64(4.0)), ("itself", a)):
                    if sym == "**=" and kname != "int":
                        continue
                    case = dict(base_case, step=-1, op=[sym, type(a).__name__, kname], label=label)
                    ctx.ev()
                    try:
                        t = a
                        t = fn(t, kk)
                        ok = "ok"
                    except Exception:
                        ok = "exc"
                    ctx.count("augmented operators %s" % ok)
                    ctx.nt(("augmented", sym, type(a).__name__, kname, ok))
                    for qual, before, after in mon.drain():
                        ctx.violation("operand-changed-by:%s" % qual, dict(case, before=repr(before)[:300], after=repr(after)[:300]), replay=case)
                    for lbl, before, after in P.check():
                        ctx.violation("pool-member-changed:%s:after:%s" % (lbl.split("#")[0], sym), dict(case, member=lbl, before=repr(before)[:300], after=repr(after)[:300]), replay=case)
    for step in range(n_steps):
        objs = P.objects()
        a = r.choice(objs)
        k = r.random()
        desc = None
        res = None
        try:
            if k < 0.30:
                sym, fn = r.choice(BIN)
                b = r.choice(objs + [2, 0.5, np.float64(3.0), np.array([1.0, 2.0, 4.0]), np.array([2.0]), True])
                if r.random() < 0.5 and not isinstance(b, (int, float, np.ndarray, np.floating, bool)):
                    # bias towards operands of the same class family so that most operations succeed
                    fam = [o for o in objs if type(o) is type(a)]
                    b = r.choice(fam)
                desc = ("binop", sym, type(a).__name__, type(b).__name__)
                x, y = (a, b) if r.random() < 0.7 else (b, a)
                res = fn(x, y)
            elif k < 0.34:
                desc = ("pow", type(a).__name__)
                res = a ** r.choice([1, 2, 3, 0, -1, 4, True])  # (what ** 0 or ** -1 answers is not this property's business - that it leaves a alone is)
            elif k < 0.46:
                u = r.choice(units_for(a))
                if isinstance(a, (Fraction, FractionValue)):
                    desc = ("float", type(a).__name__)
                    res = float(a)
                elif isinstance(a, Array):
                    desc = ("GetValues(unit)", type(a).__name__)
                    res = a.GetValues(u)
                else:
                    desc = ("GetValue(unit)", type(a).__name__)
                    res = a.GetValue(u)
            elif k < 0.52:
                if hasattr(a, "CreateCopy"):
                    u = r.choice(units_for(a))
                    form = r.choice(["unit", "value", "value+unit", "unit+category"])
                    desc = ("CreateCopy(%s)" % form, type(a).__name__)
                    if form == "unit":
                        res = a.CreateCopy(unit=u)
                    elif form == "value":
                        res = a.CreateCopy(a.GetAbstractValue())
                    elif form == "value+unit":
                        res = a.CreateCopy(a.GetAbstractValue(), u)
                    else:
                        res = a.CreateCopy(unit=u, category=a.GetCategory())
            elif k < 0.58:
                # database / quantity level conversion handed the operand's own container
                if hasattr(a, "GetQuantity") and not isinstance(a, FractionScalar):
                    u = r.choice(units_for(a))
                    q = a.GetQuantity()
                    how = r.choice(["Quantity.Convert", "Quantity.ConvertScalarValue", "UnitDatabase.Convert", "UnitDatabase.Convert(exps)"])
                    desc = (how, type(a).__name__)
                    v = a.GetAbstractValue()
                    if how == "Quantity.Convert":
                        res = q.Convert(v, u)
                    elif how == "Quantity.ConvertScalarValue":
                        res = q.ConvertScalarValue(v, u)
                    elif how == "UnitDatabase.Convert":
                        res = db.Convert(a.GetQuantityType(), a.GetUnit(), u, v)
                    else:
                        res = db.Convert(a.GetQuantityType(), [(a.GetUnit(), 1)], [(u, 1)], v)
            elif k < 0.64:
                desc = ("format", type(a).__name__)
                res = [str(a), repr(a), "%s" % (a,)]
                for m in ("GetFormatted", "GetFormattedValue", "GetFormattedSuffix", "GetUnitName", "GetLocalizedString", "GetLocalizedFraction"):
                    if hasattr(a, m):
                        res.append(getattr(a, m)())
                if isinstance(a, (Scalar, FractionScalar)):
                    res.append(a.GetFormatted(r.choice(units_for(a))))
            elif k < 0.70:
                if hasattr(a, "IsValid"):
                    desc = ("validate", type(a).__name__)
                    res = [a.IsValid(), a.GetValidUnits(), a.HasCategory()]
                    a.CheckValidity()
            elif k < 0.80:
                how = r.choice(["copy", "deepcopy", "CreateCopy()", "Copy", "copy-method", "CreateCopy(own value)", "CreateCopy(unit=own unit)", "CreateCopy(unit) of an empty object"])
                desc = (how, type(a).__name__)
                if how == "copy":
                    res = copy.copy(a)
                elif how == "deepcopy":
                    res = copy.deepcopy(a)
                elif how == "CreateCopy()" and hasattr(a, "CreateCopy"):
                    res = a.CreateCopy()
                elif how == "Copy" and hasattr(a, "Copy"):
                    res = a.Copy()
                elif how == "copy-method" and hasattr(a, "copy"):
                    res = a.copy()
                elif how == "CreateCopy(own value)" and hasattr(a, "CreateCopy"):
                    res = a.CreateCopy(a.GetAbstractValue())
                elif how == "CreateCopy(unit=own unit)" and hasattr(a, "CreateCopy") and a.GetCategory() and not a.GetQuantity().IsDerived() and not a.GetQuantity().GetUnknownCaption():
                    # (a caption cannot travel through unit=: a captioned object is outside this form)
                    res = a.CreateCopy(unit=a.GetUnit())
                elif how == "CreateCopy(unit) of an empty object" and hasattr(a, "CreateCopy") and a.GetQuantity() is a.GetQuantity().CreateEmpty():
                    # giving a unit to an amount that has none is a copy that keeps the number(s)
                    res = None
                    given = a.CreateCopy(unit="m")
                    ctx.ev()
                    if type(given) is not type(a) or given.GetUnit() != "m" or snapshot.container(given.GetAbstractValue()) != snapshot.container(a.GetAbstractValue()):
                        ctx.violation("CreateCopy(unit)-of-an-empty-object:%s" % type(a).__name__, dict(base_case, step=step, original=repr(a)[:100], copied=repr(given)[:100]), replay=dict(base_case, step=step))
                if res is not None:
                    check_copy(ctx, how, a, res, dict(base_case, step=step, op=list(desc), label=_label(P, a)))
            elif k < 0.87:
                desc = ("pickle", type(a).__name__)
                res = pickle.loads(pickle.dumps(a, r.choice([0, 2, pickle.HIGHEST_PROTOCOL])))
                if isinstance(a, (Scalar, FixedArray)) and not isinstance(a, FractionScalar):
                    check_copy(ctx, "pickle", a, res, dict(base_case, step=step, op=list(desc), label=_label(P, a)))
            elif k < 0.91:
                if isinstance(a, FixedArray):
                    i = r.randrange(a.dimension)
                    if r.random() < 0.5:
                        desc = ("ChangingIndex", type(a).__name__)
                        anyu = r.choice(units_for(a) + ["m", "s"])
                        amount = r.choice([5.0, (5.0,), Scalar(a.GetQuantity(), 5.0), Scalar(5.0, anyu), (5.0, anyu), Scalar(5.0, anyu)])
                        res = a.ChangingIndex(i, amount, r.choice([True, False]))
                    elif r.random() < 0.5:
                        desc = ("IndexAsScalar", type(a).__name__)
                        res = a.IndexAsScalar(i)
                    else:
                        # the public size check is a question, not a setter: asking it about other sizes changes nothing
                        desc = ("CheckValues", type(a).__name__)
                        k = r.choice([a.dimension, 2, 5, a.dimension + 1])
                        a.CheckValues([1.0] * k, k)
                        a.CheckValues([1.0] * a.dimension)
                        res = a.CreateCopy()
                elif isinstance(a, Array):
                    desc = ("sequence protocol", type(a).__name__)
                    res = [len(a), list(a), a[0:2]]
                elif isinstance(a, Scalar):
                    desc = ("hash/GetValueAndUnit", type(a).__name__)
                    res = [hash(a), a.GetValueAndUnit(), a.AlmostEqual(a, 6)]
                elif isinstance(a, FractionScalar):
                    desc = ("ConvertFractionValue", type(a).__name__)
                    u = r.choice(units_for(a))
                    res = [a.GetValueAndUnit(), FractionScalar.ConvertFractionValue(a.GetValue(), a.GetQuantity(), a.GetUnit(), u), db.Convert(a.GetQuantityType(), a.GetUnit(), u, a.GetValue())]
                elif isinstance(a, FractionValue):
                    desc = ("FractionValue parts", type(a).__name__)
                    res = [a.GetNumber(), a.GetFraction(), a < FractionValue(2), a == FractionValue(1.5), FractionValue.CreateFromString(str(a))]
                else:
                    desc = ("Fraction ops", type(a).__name__)
                    res = [a + 1, 2 * a, a / 3, -a, abs(a), a.inv() if a.numerator else None, a % 2, a**2, a < 1, list(a), len(a), a[0]]
            elif k < 0.94:
                scal = [o for o in objs if isinstance(o, Scalar) and o.GetCategory() in US]
                ss = [s for s in scal if s.GetQuantityType() == scal[0].GetQuantityType()]
                desc = ("Array.FromScalars", "Scalar")
                res = Array.FromScalars(ss, unit=r.choice(units_for(ss[0])))
            elif k < 0.96:
                if isinstance(a, Scalar):
                    desc = ("ChangeScalars", "Scalar")

                    class Owner:
                        pass

                    ow = Owner()
                    ow.a = a
                    ChangeScalars(ow, a=(r.choice([None, 3.0]), r.choice(units_for(a))))
                    res = ow.a
            else:
                arrs = [o for o in objs if isinstance(o, Array) and len(o) == 3]
                if len(arrs) >= 2:
                    desc = ("Curve", "Array")
                    x, y = r.sample(arrs, 2)
                    c = Curve(x, y)
                    res = [repr(c), c[0], c[0:2], c == Curve(x, y), c.GetLength()]
            if desc is None:
                continue
            out = "ok"
        except Exception as e:
            out = type(e).__name__
            # an exception raised by the harness's own line (not inside barril) is a call the object does not
            # support (Fraction has no unit) or a harness mistake: name the line so that the evidence shows which
            tb = e.__traceback__
            while tb.tb_next is not None:
                tb = tb.tb_next
            if tb.tb_frame.f_code.co_filename.endswith("c13.py"):
                ctx.count("step raised in the harness's own line: %s at c13.py:%d (%s)" % (out, tb.tb_lineno, type(a).__name__))
        if desc is None:
            continue
        # what a *conversion* returns belongs to the caller ("results are new objects"): a hostile caller
        # scribbles on it; no pool member may notice (a memoised result handed out twice would)
        if out == "ok" and desc[0] in ("GetValues(unit)", "Quantity.Convert", "UnitDatabase.Convert", "UnitDatabase.Convert(exps)", "Quantity.ConvertScalarValue") and res is not None:
            own = a.GetAbstractValue() if hasattr(a, "GetAbstractValue") else None
            if res is not own:
                try:
                    if isinstance(res, list):
                        res[:] = [12345.0] * len(res)
                    elif isinstance(res, np.ndarray) and res.dtype.kind == "f" and res.ndim:
                        res.fill(12345.0)
                except Exception:
                    pass
        ctx.ev()
        outcomes[out] = outcomes.get(out, 0) + 1
        ctx.nt((desc, out == "ok"))
        case = dict(base_case, step=step, op=list(desc), outcome=out)
        for qual, before, after in mon.drain():
            ctx.violation("operand-changed-by:%s" % qual, dict(case, before=repr(before)[:300], after=repr(after)[:300]), replay=case)
        for label, before, after in P.check():
            ctx.violation("pool-member-changed:%s:after:%s" % (label.split("#")[0], desc[0]), dict(case, member=label, before=repr(before)[:300], after=repr(after)[:300]), replay=case)
        # results join the pool now and then (so chains of operations on results are explored too)
        if out == "ok" and res is not None and hasattr(res, "GetQuantity") and len(P.members) < 90 and r.random() < 0.15 and not has_nan(res):
            P.add("result of %s#%d" % (desc[0], step), res)
    for o, n in outcomes.items():
        ctx.count("step outcome %s" % o, n)
    ctx.count("pool snapshot comparisons", P.n_checks)
    return P


def zero_divisors(ctx):
    """A divisor that holds zeros (a closed valve in a column of rates): whatever the quotient is - inf, nan, a
    ZeroDivisionError for plain Python numbers - dividend and divisor, and the containers the caller built them from,
    hold afterwards what they held before. Every class x container kind x {/, //} x {same unit, another unit, a number on
    the left, a numpy array on the left}; snapshots compare bytes / reprs."""
    import warnings

    import numpy as np
    from barril.units import Array, FixedArray

    def snap(o, cont):
        v = o.GetValues() if hasattr(o, "GetValues") else o
        return (repr(o.GetQuantity()) if hasattr(o, "GetQuantity") else None, v.tobytes() if isinstance(v, np.ndarray) else repr(v), cont.tobytes() if isinstance(cont, np.ndarray) else repr(cont), id(v))

    n = 0
    with warnings.catch_warnings():
        warnings.simplefilter("ignore")
        for cls_name, mk_obj in (("Array", lambda c, u: Array("length", c, u)), ("FixedArray", lambda c, u: FixedArray(3, "length", c, u))):
            for kind, mk in (("nd", lambda v: np.array(v, dtype=float)), ("nd32", lambda v: np.array(v, dtype=np.float32)), ("ndint", lambda v: np.array(v, dtype=np.int64)), ("list", list), ("tuple", tuple)):
                for zeros in ([1.0, 0.0, 2.0], [0.0, 0.0, 0.0], [4.0, 2.0, 0.0], [-0.0, 5.0, 1.0]):
                    for left_kind in ("same unit", "another unit", "number", "ndarray", "derived"):
                        for sym in ("/", "//"):
                            dcont = mk(zeros)
                            divisor = mk_obj(dcont, "m")
                            lcont = mk([3.0, 0.0, 6.0])
                            if left_kind == "same unit":
                                left = mk_obj(lcont, "m")
                            elif left_kind == "another unit":
                                left = mk_obj(lcont, "cm")
                            elif left_kind == "number":
                                left = 2.0
                            elif left_kind == "ndarray":
                                left = np.array([3.0, 0.0, 6.0])
                            else:
                                left = mk_obj(lcont, "m") * mk_obj(mk([1.0, 2.0, 3.0]), "cm")
                            before = (snap(divisor, dcont), snap(left, lcont) if hasattr(left, "GetValues") else repr(left))
                            ctx.ev()
                            n += 1
                            case = {"class": cls_name, "container": kind, "divisor": zeros, "left": left_kind, "op": sym}
                            ctx.nt(("zero divisor", cls_name, kind, left_kind, sym))
                            try:
                                res = left / divisor if sym == "/" else left // divisor
                                del res
                            except (ZeroDivisionError, TypeError, ValueError):
                                ctx.count("zero divisors: the division was refused")
                            except Exception as e:
                                ctx.violation("zero-divisor:raised:%s" % type(e).__name__, dict(case, error=str(e)[:160]))
                            after = (snap(divisor, dcont), snap(left, lcont) if hasattr(left, "GetValues") else repr(left))
                            if after != before:
                                which = "divisor" if after[0] != before[0] else "dividend"
                                ctx.violation("operand-changed-by:division-by-a-divisor-holding-zeros:%s" % which, dict(case, holds_now=repr(divisor.GetValues())[:100] if which == "divisor" else repr(left)[:100]), replay={"zero_divisors": True})
    ctx.count("divisions by a divisor holding zeros", n)


def views_and_explicit_validation(ctx):
    """(1) A short-lived Array built on a *view* of an array the caller goes on using (`depths[1:]`, a transposed or reshaped
    view) and operated with a number: the caller's array holds what it held. (2) The explicit overload
    `ValidateValues(values, quantity)` judges what it is given and leaves the array it is called on alone."""
    import numpy as np
    from barril.units import Array, FixedArray, ObtainQuantity

    n = 0
    for mkview, name in ((lambda b: b[1:], "slice"), (lambda b: b[::2], "strided slice"), (lambda b: b.reshape(2, 3).T, "transposed reshape"), (lambda b: b.view(), "view()"), (lambda b: b[:], "full slice")):
        for sym, fn in (("* 1000.0", lambda a: a * 1000.0), ("+ 1.0", lambda a: a + 1.0), ("/ 4.0", lambda a: a / 4.0), ("- 2", lambda a: a - 2), ("chain", lambda a: (a * 2.0 + 1.0) / 3.0)):
            base = np.array([1.0, 2.0, 4.0, 8.0, 16.0, 32.0])
            before = base.tobytes()
            ctx.ev()
            n += 1
            try:
                res = fn(Array(mkview(base), "m"))
                res2 = fn(FixedArray(len(mkview(base)), mkview(base), "m")) if mkview(base).ndim == 1 else None
                del res, res2
                # ... and written as one expression, the way it stands in a program (the Array exists only on the evaluation stack)
                vexpr = {"slice": "base[1:]", "strided slice": "base[::2]", "transposed reshape": "base.reshape(2, 3).T", "view()": "base.view()", "full slice": "base[:]"}[name]
                oexpr = {"* 1000.0": "%s * 1000.0", "+ 1.0": "%s + 1.0", "/ 4.0": "%s / 4.0", "- 2": "%s - 2", "chain": "(%s * 2.0 + 1.0) / 3.0"}[sym]
                for ctor in ('Array(%s, "m")', 'Array("length", %s, "cm")', 'FixedArray(len(%s), %s, "m")' if name in ("slice", "strided slice", "view()", "full slice") else 'Array(%s, "m")'):
                    eval(oexpr % (ctor % ((vexpr,) * ctor.count("%s"))), {"base": base, "Array": Array, "FixedArray": FixedArray})
            except Exception as e:
                ctx.count("operations on views refused (%s)" % type(e).__name__)
            if base.tobytes() != before:
                ctx.violation("operand-changed-by:a-number-applied-to-a-short-lived-array-on-a-view", {"view": name, "op": sym, "held": [1.0, 2.0, 4.0, 8.0, 16.0, 32.0], "holds": base.tolist()})
    # the same in a process of its own, without the probes of this harness: who else refers to an operand - a wrapper around the
    # operator does - is part of what a library may look at, so the expressions are also run where nothing of mine is in the way
    import json
    import os
    import subprocess

    try:
        p = subprocess.run([env.PYTHON, os.path.join(env.VERIF_DIR, "vp", "children", "views_child.py")], capture_output=True, text=True, timeout=300, env=dict(os.environ, VERIF_REPO=env.REPO))
        report = json.loads(p.stdout.strip().splitlines()[-1])
    except Exception as e:
        ctx.inconclusive.append("the unprobed process did not answer: %s" % repr(e)[:160])
        report = {"expressions": 0, "findings": []}
    ctx.count("expressions on views evaluated in an unprobed process", report["expressions"])
    for f in report["findings"]:
        if f.get("changed"):
            ctx.violation("operand-changed-by:a-number-applied-to-a-short-lived-array-on-a-view", dict(f, where="a process without probes"))
        else:
            ctx.count("expressions on views refused in the unprobed process")
    q_m, q_s = ObtainQuantity("m", "length"), ObtainQuantity("s", "time")
    for kind, mk in (("list", list), ("nd", lambda z: np.array(z, dtype=float)), ("tuple", tuple)):
        own = mk([1.0, 2.0, 4.0])
        a = Array("length", own, "m")
        snap0 = (snapshot.value_object(a), snapshot.container(own))
        for other_vals, other_q in ((mk([5.0, 6.0]), q_s), (mk([7.0]), q_m), (mk([1.0, 2.0, 4.0]), q_s)):
            ctx.ev()
            n += 1
            try:
                a.ValidateValues(other_vals, other_q)
            except Exception:
                pass
            if (snapshot.value_object(a), snapshot.container(own)) != snap0:
                ctx.violation("operand-changed-by:ValidateValues(values, quantity)", {"container": kind, "validated": repr(other_vals)[:60], "array_now": repr(a)[:120]})
                snap0 = (snapshot.value_object(a), snapshot.container(own))
    ctx.count("views of living arrays / explicit validations", n)


def results_belong_to_the_caller(ctx):
    """"Results are new objects": what arithmetic hands back - `0 + a` and `sum([a])` (how a column of arrays is totalled),
    an operation with the neutral number, with another array - is the caller's to work on. The caller overwrites the
    container of every result; the operands (and the containers *they* were built from) hold what they held. For every
    class x container kind (masked and integer numpy containers too); a result that is the operand itself is reported as such."""
    import numpy as np
    from barril.units import Array, FixedArray

    kinds = (("list", list), ("tuple", tuple), ("nd", lambda z: np.array(z, dtype=float)), ("ndint", lambda z: np.array(z, dtype=np.int64)), ("masked", lambda z: np.ma.masked_array(np.array(z, dtype=float), mask=[False, True, False])))
    ops = (
        ("0 + a", lambda a, b: 0 + a), ("a + 0", lambda a, b: a + 0), ("0.0 + a", lambda a, b: 0.0 + a), ("sum([a])", lambda a, b: sum([a])), ("sum([a, b])", lambda a, b: sum([a, b])), ("a * 1", lambda a, b: a * 1), ("1 * a", lambda a, b: 1 * a),
        ("a / 1", lambda a, b: a / 1), ("a - 0", lambda a, b: a - 0), ("a * 1.0", lambda a, b: a * 1.0), ("a + b", lambda a, b: a + b), ("a - b", lambda a, b: a - b), ("a * b", lambda a, b: a * b), ("a / b", lambda a, b: a / b),
        ("a + b in another unit", lambda a, b: a + b.CreateCopy(unit="cm")), ("a.CreateCopy(unit='cm') + a", lambda a, b: a.CreateCopy(unit="cm") + a), ("0 + (0 + a)", lambda a, b: 0 + (0 + a)),
    )  # fmt: skip
    n = 0
    for cls_name, mk_obj in (("Array", lambda c: Array("length", c, "m")), ("FixedArray", lambda c: FixedArray(3, "length", c, "m")), ("Array, derived", lambda c: Array(c, "m") * Array([1.0, 1.0, 1.0], "s"))):
        for kind, mk in kinds:
            for oname, op in ops:
                ca, cb = mk([1.0, 2.0, 4.0]), mk([8.0, 16.0, 32.0])
                try:
                    a, b = mk_obj(ca), mk_obj(cb)
                except Exception:
                    ctx.count("results: operands that could not be built")
                    continue
                before = (snapshot.value_object(a), snapshot.value_object(b), snapshot.container(ca), snapshot.container(cb))
                ctx.ev()
                ctx.nt(("results belong to the caller", cls_name, kind, oname))
                case = {"class": cls_name, "container": kind, "expression": oname}
                try:
                    res = op(a, b)
                except Exception as e:
                    ctx.count("results: expression refused (%s)" % type(e).__name__)
                    continue
                n += 1
                if res is a or res is b:
                    ctx.violation("result-is-the-operand-itself:%s" % oname, dict(case, result=repr(res)[:120]), replay={"results_belong": True})
                v = res.GetValues() if hasattr(res, "GetValues") else None
                try:
                    if isinstance(v, list):
                        v[:] = [-12345.0] * len(v)
                    elif isinstance(v, np.ndarray) and v.ndim:
                        v[...] = -12345
                        if isinstance(v, np.ma.MaskedArray):
                            v.mask = True
                except Exception:
                    ctx.count("results: container could not be overwritten")
                after = (snapshot.value_object(a), snapshot.value_object(b), snapshot.container(ca), snapshot.container(cb))
                if after != before:
                    ctx.violation("operand-changed-by:the-caller-overwriting-a-result:%s" % oname, dict(case, before=repr(before)[:300], after=repr(after)[:300]), replay={"results_belong": True})
    ctx.count("results overwritten by the caller", n)


def masked_conversions(ctx, db):
    """A masked numpy array (null sentinels under the mask) as the container of an Array, and handed to the conversion
    entry points directly: re-expressed in another unit - float64, float32 and integer data, masks of every shape - the
    operand's data *and* mask, and the caller's own array, hold what they held, also after the caller overwrites the result."""
    import numpy as np
    from barril.units import Array, ObtainQuantity

    n = 0
    q = ObtainQuantity("m", "length")
    for dt in (np.float64, np.float32, np.int64):
        for mask in ([False, True, False, False], [False] * 4, [True] * 4, np.ma.nomask):
            for how, fn in (
                ("Array.GetValues(unit)", lambda m: Array("length", m, "m").GetValues("cm")), ("Array.CreateCopy(unit)", lambda m: Array("length", m, "m").CreateCopy(unit="km")), ("UnitDatabase.Convert", lambda m: db.Convert("length", "m", "ft", m)),
                ("Quantity.Convert", lambda m: q.Convert(m, "cm")), ("Array * number -> GetValues(unit)", lambda m: (Array("length", m, "m") * 2).GetValues("mm")), ("Array + Array in another unit", lambda m: Array("length", m, "m") + Array("length", [1.0, 1.0, 1.0, 1.0], "cm")),
                ("Array in another unit + Array", lambda m: Array("length", [1.0, 1.0, 1.0, 1.0], "cm") + Array("length", m, "m")), ("UnitDatabase.Convert(exps)", lambda m: db.Convert("length", [("m", 1)], [("cm", 1)], m)),
            ):  # fmt: skip
                data = np.array([1.0, -999.25 if dt is not np.int64 else -999, 4.0, 8.0], dtype=dt)
                m = np.ma.masked_array(data, mask=mask)
                before = (m.data.tobytes(), np.ma.getmaskarray(m).tobytes(), data.tobytes(), m.dtype.str)
                ctx.ev()
                ctx.nt(("masked conversion", dt.__name__, repr(mask)[:20], how))
                n += 1
                try:
                    res = fn(m)
                    v = res.GetValues() if hasattr(res, "GetValues") else res
                    if isinstance(v, np.ndarray) and v.ndim and v is not m:
                        v[...] = 12345
                except Exception as e:
                    ctx.count("masked conversions refused (%s)" % type(e).__name__)
                after = (m.data.tobytes(), np.ma.getmaskarray(m).tobytes(), data.tobytes(), m.dtype.str)
                if after != before:
                    ctx.violation("operand-changed-by:%s:masked-array" % how, {"dtype": dt.__name__, "mask": repr(mask), "held": [1.0, -999.25, 4.0, 8.0], "holds": repr(m)[:200], "callers_array": data.tolist()}, replay={"masked_conversions": True})
    ctx.count("masked-array conversions", n)


def nan_comparisons_and_late_pickles(ctx):
    """(1) `==` / `!=` between arrays that hold not-a-number at the same places (an array and its copy, its pickle, a second
    array over equal values): a comparison is a question - both operands, and the containers the caller built them from, hold
    afterwards what they held, bit for bit. (2) Scalars and FixedArrays of derived, unit-less and captioned quantities are
    pickled, the database then forgets what it had interned (a category of the application is registered again - the public
    event that drops the intern table), and the pickles are read: each gives an object equal to the original."""
    import copy
    import pickle

    import numpy as np
    from barril.units import Array, FixedArray, GetUnknownQuantity, Scalar

    nan = float("nan")
    n = 0
    for kind, mk in (("nd", lambda z: np.array(z, dtype=float)), ("nd32", lambda z: np.array(z, dtype=np.float32)), ("list", list), ("tuple", tuple)):
        for vals in ([1.0, nan, 3.0], [nan, nan, nan], [nan, 2.0, 0.0]):
            for cname, ctor in (("Array", lambda c_: Array("length", c_, "m")), ("FixedArray", lambda c_: FixedArray(3, "length", c_, "m")), ("Array, derived", lambda c_: Array(c_, "m") / Array([1.0, 1.0, 1.0], "s"))):
                ca, cb = mk(vals), mk(vals)
                a, b = ctor(ca), ctor(cb)
                others = [("a second array over equal values", b), ("its CreateCopy()", a.CreateCopy()), ("its copy.copy", copy.copy(a)), ("its deepcopy", copy.deepcopy(a)), ("itself", a)]
                if cname == "FixedArray":
                    others.append(("its pickle", pickle.loads(pickle.dumps(a))))
                for oname, o in others:
                    snap = lambda: (snapshot.value_object(a), snapshot.value_object(o), snapshot.container(ca), snapshot.container(cb))  # noqa: E731
                    before = snap()
                    ctx.ev()
                    n += 1
                    ctx.nt(("nan comparison", cname, kind, oname))
                    try:
                        a == o, o == a, a != o, o != a
                    except Exception as e:
                        ctx.count("nan comparisons that raised %s" % type(e).__name__)
                    after = snap()
                    if after != before:
                        ctx.violation("operand-changed-by:==-between-arrays-holding-nan", {"class": cname, "container": kind, "values": repr(vals), "compared_with": oname, "before": repr(before)[:300], "after": repr(after)[:300]}, replay={"nan_comparisons": True})
                        break
    ctx.count("comparisons between arrays holding nan", n)
    db = table.build("posc")
    with table.pushed(db):
        db.AddCategory("vp13 scratch", "length")
        m, s_, k = Scalar(2.0, "m"), Scalar(4.0, "s"), Scalar("mass", 3.0, "kg")
        fa = FixedArray(2, "length", [1.0, 2.0], "cm")
        originals = [
            ("Scalar m*s", m * s_), ("Scalar 1/s", 1.0 / s_), ("Scalar m2", m * m), ("Scalar m/m", m / m), ("empty Scalar", Scalar.CreateEmptyScalar(5.0)), ("Scalar kg.m/s2", k * m / s_ / s_), ("Scalar, captioned", Scalar(GetUnknownQuantity("Feeeet"), 2.0)),
            ("Scalar, simple", Scalar("depth", 2.0, "km")), ("FixedArray m*s", fa * FixedArray(2, [1.0, 2.0], "s")), ("FixedArray cm/cm", fa / fa), ("FixedArray 1/cm", 2.0 / fa), ("empty FixedArray", FixedArray.CreateEmptyArray(2, [1.0, 2.0])),
            ("FixedArray, captioned", FixedArray(2, GetUnknownQuantity("API units"), [1.0, 2.0])), ("FixedArray (m/s)**2", (fa / FixedArray(2, [1.0, 2.0], "s")) * (fa / FixedArray(2, [1.0, 2.0], "s"))),
        ]  # fmt: skip
        dumps = [(nm, o, pickle.dumps(o), snapshot.value_object(o)) for nm, o in originals]
        # the application registers one of its categories again: everything interned so far is dropped
        db.AddCategory("vp13 scratch", "length", override=True, min_value=0.0)
        for nm, o, blob, snap0 in dumps:
            ctx.ev()
            ctx.nt(("late pickle", nm))
            case = {"object": nm, "repr": repr(o)[:120], "read": "after the database dropped its interned quantities"}
            try:
                back = pickle.loads(blob)
            except Exception as e:
                ctx.violation("copy-not-equal:pickle-read-later-raised:%s" % type(e).__name__, dict(case, error=str(e)[:160]), replay={"nan_comparisons": True})
                continue
            check_copy(ctx, "pickle", o, back, case)
            if snapshot.value_object(o) != snap0:
                ctx.violation("operand-changed-by:pickle", dict(case, before=repr(snap0)[:200], after=repr(snapshot.value_object(o))[:200]), replay={"nan_comparisons": True})
    ctx.count("pickles read after the interned quantities were dropped", len(dumps))


def identity_unit_pairs(ctx, db):
    """Two symbols of one quantity type that stand for the same size ('Euc' and '-', 'm3/m3' and its namesakes): re-expressing
    one in the other is the identity - which is exactly where a 'converted temporary' may turn out to be the operand's own
    array. + and - in both orders on float64 / float32 / int arrays and lists: both operands hold afterwards what they held."""
    import numpy as np
    from barril.units import Array, FixedArray

    aff = conv.describe(db)
    n = 0
    for qt, us in sorted(table.units_by_type(db).items()):
        same_size = [u for u in us if u in aff and aff[u].exact and aff[u].slope == 1.0 and aff[u].off == 0.0]
        if qt == "Unknown" or len(same_size) < 2:
            continue
        u, v = same_size[0], same_size[1]
        for kind, mk in (("nd", lambda z: np.array(z, dtype=float)), ("nd32", lambda z: np.array(z, dtype=np.float32)), ("ndint", lambda z: np.array(z, dtype=np.int64)), ("list", list)):
            for cls_name, mk_obj in (("Array", lambda c_, u_: Array(c_, u_)), ("FixedArray", lambda c_, u_: FixedArray(3, c_, u_))):
                for sym in ("+", "-"):
                    ca, cb = mk([1.0, 2.0, 4.0]), mk([8.0, 16.0, 32.0])
                    try:
                        a, b = mk_obj(ca, u), mk_obj(cb, v)
                    except Exception:
                        continue
                    snap = lambda c_: c_.tobytes() if isinstance(c_, np.ndarray) else repr(c_)  # noqa: E731
                    before = (snap(ca), snap(cb))
                    ctx.ev()
                    n += 1
                    try:
                        r1 = a + b if sym == "+" else a - b
                        r2 = b + a if sym == "+" else b - a
                        del r1, r2
                    except Exception as e:
                        ctx.violation("identity-unit-pair:raised:%s" % type(e).__name__, {"qt": qt, "u": u, "v": v, "container": kind, "class": cls_name, "error": str(e)[:160]})
                        continue
                    if (snap(ca), snap(cb)) != before:
                        ctx.violation("operand-changed-by:sum-of-two-units-of-the-same-size", {"qt": qt, "u": u, "v": v, "container": kind, "class": cls_name, "op": sym, "held": [repr(mk([1.0, 2.0, 4.0]))[:60], repr(mk([8.0, 16.0, 32.0]))[:60]], "hold": [repr(ca)[:60], repr(cb)[:60]]})
    ctx.count("sums of operands in two units of the same size", n)


def validation_with_limits(ctx, r, n):
    """Validation is an operation too: on categories that *have* limits (the shipped database has none), with NaN
    elements (skipped by design), in every container kind - validating, again and again, leaves the container
    (also the caller's) exactly as it was. Snapshots compare bytes / reprs, so NaN is no obstacle here."""
    import numpy as np
    from barril.basic.fraction import FractionValue
    from barril.units import Array, FixedArray, FractionScalar, Scalar

    nan = float("nan")
    db = table.build("posc")
    with table.pushed(db):
        db.AddCategory("c13 len", "length", default_unit="m", min_value=0.0, max_value=100.0)
        db.AddCategory("c13 temp", "temperature", default_unit="degC", min_value=-50.0)
        db.AddCategory("c13 time", "time", default_unit="s", max_value=1000.0, is_max_exclusive=True, default_value=1.0)
        for _ in range(n):
            cat, units = r.choice([("c13 len", ["m", "cm", "km"]), ("c13 temp", ["degC", "K", "degF"]), ("c13 time", ["s", "min", "h"])])
            u = r.choice(units)
            L = r.randint(1, 5)
            vals = [r.choice([1.0, 2.5, 50.0, -3.0, 1e4, nan, nan, 0.0, 100.00000000000001, -1e-17, 99.99999999999999, 1000.0000000000001, -50.00000000000001]) for _ in range(L)]
            kind = r.choice(["list", "tuple", "nd", "nd32", "ndint", "lot"])
            if kind == "list":
                cont = list(vals)
            elif kind == "tuple":
                cont = tuple(vals)
            elif kind == "nd":
                cont = np.array(vals, dtype=float)
            elif kind == "nd32":
                cont = np.array(vals, dtype=np.float32)
            elif kind == "ndint":
                cont = np.array([0 if v != v else int(v) for v in vals], dtype=np.int64)
            else:
                cont = [tuple(0.0 if v != v else v for v in vals), (1.0, 2.0)]
            objs = [("Array", Array(cat, cont, u))]
            if L >= 2 and kind != "lot":
                objs.append(("FixedArray", FixedArray(L, cat, cont, u)))
            objs.append(("Scalar", Scalar(cat, vals[0], u)))
            if vals[0] == vals[0]:
                objs.append(("FractionScalar", FractionScalar(cat, FractionValue(int(vals[0]) if abs(vals[0]) < 1e6 else 1, (7, 4)), u)))
            objs.append(("Array.CreateCopy()", objs[0][1].CreateCopy()))
            case = {"category": cat, "unit": u, "values": [repr(v) for v in vals], "container": kind}
            before = [(nm, snapshot.value_object(o)) for nm, o in objs] + [("caller container", snapshot.container(cont))]
            for nm, o in objs:
                for call in ("IsValid", "CheckValidity", "IsValid", "GetFormatted", "str"):
                    ctx.ev()
                    try:
                        if call == "str":
                            str(o)
                        elif hasattr(o, call):
                            getattr(o, call)()
                    except Exception:
                        pass
                    after = [(n2, snapshot.value_object(o2)) for n2, o2 in objs] + [("caller container", snapshot.container(cont))]
                    if after != before:
                        changed = [a[0] for a, b in zip(after, before) if a != b]
                        ctx.violation("validation-or-formatting-changed-an-operand:%s.%s" % (nm.split(".")[0], call), dict(case, changed=changed, before=repr(before)[:300], after=repr(after)[:300]), replay=None)
                        before = after
            ctx.nt(("limits", cat, kind, any(v != v for v in vals)))
        # amounts a rounding error away from an inclusive limit (typed that way, or left that way by arithmetic): validating
        # them - whatever the verdict - leaves them what they are, and their copies and pickles hold the very same float
        import copy as _copy
        import pickle as _pickle

        for cat, du, lim in (("c13 len", "m", 100.0), ("c13 len", "m", 0.0), ("c13 temp", "degC", -50.0), ("c13 time", "s", 1000.0)):
            for x in (lim, math.nextafter(lim, math.inf), math.nextafter(lim, -math.inf), lim * (1 + 2**-52) if lim else 1e-17, lim * (1 - 2**-52) if lim else -1e-17, lim + 1e-13, lim - 1e-13):
                made = [("typed", lambda: Scalar(cat, x, du)), ("arithmetic result", lambda: Scalar(cat, 1.0, du) * x), ("sum", lambda: Scalar(cat, x, du) + Scalar(cat, 0.0, du)), ("CreateCopy(value)", lambda: Scalar(cat, 5.0, du).CreateCopy(x))]
                for how, mk in made:
                    ctx.ev()
                    case = {"category": cat, "unit": du, "value": repr(x), "limit": lim, "built_by": how}
                    try:
                        o = mk()
                        held = o.GetValue()
                        for call in ("IsValid", "CheckValidity", "IsValid"):
                            try:
                                getattr(o, call)()
                            except Exception:
                                pass
                            if repr(o.GetValue()) != repr(held):
                                ctx.violation("validation-or-formatting-changed-an-operand:Scalar.%s" % call, dict(case, held=repr(held), holds=repr(o.GetValue())))
                                held = o.GetValue()
                        fresh = mk()
                        for form, cp in (("copy", _copy.copy(fresh)), ("deepcopy", _copy.deepcopy(fresh)), ("CreateCopy()", fresh.CreateCopy()), ("pickle", _pickle.loads(_pickle.dumps(fresh))), ("pickle of the validated one", _pickle.loads(_pickle.dumps(o)))):
                            src = o if form.endswith("validated one") else fresh
                            if repr(cp.GetValue()) != repr(src.GetValue()) or cp != src or cp.GetQuantity() != src.GetQuantity():
                                ctx.violation("copy-not-equal:%s:Scalar" % form.split(" ")[0], dict(case, original=repr(src.GetValue()), copy=repr(cp.GetValue()), form=form))
                    except Exception as e:
                        ctx.violation("near-limit-scalar-raised:%s" % type(e).__name__, dict(case, error=str(e)[:160]))
        ctx.count("scalars a rounding error away from a limit: validated, copied, pickled", 4 * 7 * 4)


def _label(P, o):
    for l, m, _s in P.members:
        if m is o:
            return l
    return "?"


def run(ctx):
    from barril.units import AbstractValueWithQuantityObject, Array, FixedArray, FractionScalar, Scalar, UnitDatabase

    probe.install()
    probe.reach([AbstractValueWithQuantityObject.CreateCopy, AbstractValueWithQuantityObject.CreateWithQuantity, Scalar.__reduce__, FixedArray.__reduce__, Array._DoOperation, Array.GetAbstractValue,
                 FractionScalar.ConvertFractionValue, UnitDatabase.Convert, Scalar._DoOperation])  # fmt: skip
    ctx.rule = (
        "histories of %s public operations (11 binary operators in both operand orders with pool members, numbers, numpy scalars/arrays; **; unit conversion through 7 entry points; CreateCopy in 4 forms; "
        "formatting; validation; copy/deepcopy/CreateCopy()/Copy/pickle; ChangingIndex/IndexAsScalar; sequence protocol; FromScalars; ChangeScalars; Curve) over a pool of ~45 objects of every class "
        "(simple, derived with exponents != 1, empty, unknown with/without caption) x container {list, tuple, float ndarray, int ndarray, list of tuples}; every pool member and the caller-owned container "
        "it was built from is deep-snapshotted and compared after every step, every operand around every boundary call; distinct = (operation kind, operand classes, succeeded)"
        % ("150" if ctx.tier == "quick" else "250")
    )
    ctx.assumptions = [
        "explicit setters (SetNumber, SetFraction, set_numerator, Curve.SetImage, ...) and class-level configuration are not operations on operands",
        "aliasing between a result and an operand is flagged for the binary operators + - * / (0 + a, sum([a]), a * 1, ...: the caller overwrites every such result) and not for Copy() and x**1, which may return self (objects are immutable by contract)",
        "no NaN in the history pools (NaN breaks == by definition); NaN elements are covered by the validation workload, which compares bytes",
    ]
    mon = OperandMonitor()
    mon.install()
    n_hist = 240 if ctx.tier == "quick" else 6000
    n_steps = 150 if ctx.tier == "quick" else 250
    db = table.build("posc")
    with table.pushed(db):
        for gid in range(n_hist):
            if gid % ctx.nshards != ctx.shard:
                continue
            P = one_history(ctx, gid, n_steps, mon)
            if gid == 0:
                ctx.sample({"history": 0, "pool": [l for l, _o, _s in P.members][:60], "steps": n_steps})
    # thorough tier: the repository's own tests as a workload under the global monitors (vp/suite_workload.py)
    from .. import suite_workload

    suite_workload.run(ctx, "C13")
    validation_with_limits(ctx, ctx.rng("limits"), 150 if ctx.tier == "quick" else 3000)
    if ctx.shard == 0:
        with table.pushed(db):
            zero_divisors(ctx)
            identity_unit_pairs(ctx, db)
            views_and_explicit_validation(ctx)
    if ctx.shard == 1 % ctx.nshards:
        with table.pushed(db):
            results_belong_to_the_caller(ctx)
            masked_conversions(ctx, db)
    if ctx.shard == 2 % ctx.nshards:
        nan_comparisons_and_late_pickles(ctx)
    ctx.notes["operand_monitor"] = {"boundary_calls_observed": mon.n_calls, "operand_snapshots_compared": mon.n_snapshots}
    ctx.inconclusive_if(mon.n_snapshots < 1000, "operand monitor compared fewer than 1000 snapshots")
    ctx.inconclusive_if(probe.BOUNDARY["Scalar.__reduce__"] == 0 and probe.COUNTS["Scalar.__reduce__"] == 0, "pickle path never reached")


def replay(ctx, d):
    probe.install()
    mon = OperandMonitor()
    mon.install()
    db = table.build("posc")
    import os

    if d and "seed" in d:
        os.environ["VERIF_SEED"] = str(d["seed"])
    with table.pushed(db):
        if d and d.get("zero_divisors"):
            zero_divisors(ctx)
        elif d and d.get("nan_comparisons"):
            nan_comparisons_and_late_pickles(ctx)
        elif d and d.get("results_belong"):
            results_belong_to_the_caller(ctx)
        elif d and d.get("masked_conversions"):
            masked_conversions(ctx, db)
        else:
            one_history(ctx, int(d["history"]) if d else 0, 250, mon)
